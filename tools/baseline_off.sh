#!/bin/sh
# Build the repository (default /repo, or $VERIF_REPO) with the verification
# guard OFF (no -DRTOSC_VERIF) exactly as the pinned baseline does and run its
# 31 tests.
set -e
V=$(cd "$(dirname "$0")/.." && pwd)
R=${VERIF_REPO:-/repo}
B=$V/_work/baseline
rm -rf "$B"
cmake -G Ninja -S "$R" -B "$B" -DCMAKE_BUILD_TYPE=RelWithDebInfo >/dev/null
cmake --build "$B" >/dev/null
ctest --test-dir "$B" -j8 --timeout 900
