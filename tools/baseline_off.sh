#!/bin/sh
# Build /repo with the verification guard OFF (no -DRTOSC_VERIF) exactly as the
# pinned baseline does and run its 31 tests.
set -e
B=/verif/_work/baseline
rm -rf "$B"
cmake -G Ninja -S /repo -B "$B" -DCMAKE_BUILD_TYPE=RelWithDebInfo >/dev/null
cmake --build "$B" >/dev/null
ctest --test-dir "$B" -j8 --timeout 900
