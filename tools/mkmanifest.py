#!/usr/bin/env python3
"""Regenerates MANIFEST.json from the plug-ins under tools/props (one check per
plug-in) and lists every other property under not_applicable with its reason
(tools/props/NOT_CLAIMED.json)."""
import os, sys, json, importlib
V = os.path.dirname(os.path.dirname(os.path.abspath(__file__)))
sys.path.insert(0, os.path.join(V, "tools"))
ids = [json.loads(l)["id"] for l in open(os.path.join(V, "properties.jsonl"))]
notclaimed = json.load(open(os.path.join(V, "tools", "props", "NOT_CLAIMED.json")))
checks, na = [], []
for pid in ids:
    if os.path.exists(os.path.join(V, "tools", "props", pid + ".py")):
        m = importlib.import_module("props." + pid)
        checks.append({
            "property_id": pid,
            "quick_cmd": "python3 tools/vcheck.py %s --tier quick" % pid,
            "thorough_cmd": "python3 tools/vcheck.py %s --tier thorough" % pid,
            "evidence_file": "/verif/evidence/%s.json" % pid,
            "replay_cmd_template": "python3 tools/replay.py {path}",
            "engine": "coq-proof+correspondence",
            "level_claimed": {"category": getattr(m, "LEVEL_CATEGORY", "proof"), "text": m.LEVEL_TEXT, "design_ref": "DESIGN.md section 4, " + pid},
            "level_note": m.LEVEL_NOTE,
            "technique": m.TECHNIQUE,
        })
    else:
        na.append({"property_id": pid, "reason": notclaimed.get(pid, "no check has been built for this property yet")})
man = {
    "version": 1,
    "setup_cmd": "python3 tools/setup.py",
    "hooks": {
        "guard": "RTOSC_VERIF",
        "enable": "checks compile /repo/src/** themselves with -DRTOSC_VERIF (tools/vcheck.py build_lib); CMake is not used by the checks",
        "baseline_off_cmd": "sh tools/baseline_off.sh",
        "source_commits": json.load(open(os.path.join(V, "tools", "props", "HOOK_COMMITS.json"))),
        "add_only": True,
    },
    "engines": [{
        "name": "coq-proof+correspondence", "path": "tools/vcheck.py",
        "serves_properties": [c["property_id"] for c in checks],
        "kind_free_text": "Coq 8.16 theorems over hand-written executable Gallina models (coq/), extracted to OCaml "
                          "(ocaml/<id>/) and run against the implementation rebuilt from /repo's working tree "
                          "(harness/) on the same generated cases; the executable Spec is evaluated on the "
                          "implementation's outputs; C03's model is regenerated from the compiled source",
    }],
    "checks": checks,
    "not_applicable": na,
    "notes": "See DESIGN.md. known-findings.txt lists recorded and repaired defects.",
}
json.dump(man, open(os.path.join(V, "MANIFEST.json"), "w"), indent=1)
print("claimed:", [c["property_id"] for c in checks], "not claimed:", [n["property_id"] for n in na])
