#!/usr/bin/env python3
"""replay.py <replay.json>: re-run the recorded case on the implementation
built from /repo's current tree and on the model, print both."""
import sys, os, json, importlib
sys.path.insert(0, os.path.dirname(os.path.abspath(__file__)))
import vcheck
r = json.load(open(sys.argv[1]))
pid = r["property"]
case = r.get("case") or r.get("first_disagreement", {}).get("case")
if not case:
    print(json.dumps(r, indent=1)); sys.exit(0)
plug = importlib.import_module("props." + pid)
log = lambda s: None
exe = vcheck.build_harness(pid, plug.HARNESS, getattr(plug, "VARIANT", "asan"), log,
                           getattr(plug, "HARNESS_FLAGS", ()), getattr(plug, "HARNESS_LIBS", ()))
env = dict(os.environ); env["TZ"] = "UTC"; env.setdefault("ASAN_OPTIONS", "detect_leaks=0")
print("case:          ", case)
print("implementation:", vcheck.run_lines(exe, [case], env=env)[0])
try:
    print("model:         ", vcheck.run_lines(vcheck.build_driver(getattr(plug, 'DRIVER', pid), log), [case])[0])
except Exception as e:
    print("model: unavailable (%s)" % e)
if hasattr(plug, "spec_check"):
    print("spec:          ", plug.spec_check(case, vcheck.run_lines(exe, [case], env=env)[0]) or "holds")
