#!/usr/bin/env python3
"""vcheck.py <ID> [--tier quick|thorough]

One check = (1) rebuild the implementation from /repo's working tree,
(2) re-check the Coq proofs of Properties_<ID>.v and read Print Assumptions,
(3) run the extracted model and the implementation on the same generated
cases and compare, (4) evaluate the executable Spec on the implementation's
outputs, (5) decide and write evidence/<ID>.json.  See DESIGN.md 1.2.

Per-property knowledge lives in tools/props/<ID>.py (see props/C17.py for the
plug-in interface)."""
import sys, os, re, json, time, hashlib, subprocess, random, importlib, shutil, argparse
from concurrent.futures import ThreadPoolExecutor

VERIF = os.path.dirname(os.path.dirname(os.path.abspath(__file__)))
REPO = os.environ.get("VERIF_REPO", "/repo")
WORK = os.path.join(VERIF, "_work")
COQ = os.path.join(VERIF, "coq")
NCPU = os.cpu_count() or 4
sys.path.insert(0, os.path.join(VERIF, "tools"))

# ----------------------------------------------------------------------------
def sh(cmd, cwd=None, timeout=None, inp=None, env=None):
    p = subprocess.run(cmd, cwd=cwd, timeout=timeout, input=inp, env=env,
                       stdout=subprocess.PIPE, stderr=subprocess.PIPE)
    return p.returncode, p.stdout.decode("utf-8", "replace"), p.stderr.decode("utf-8", "replace")

def tree_hash(paths, extra=b""):
    h = hashlib.sha256(extra)
    for root in paths:
        if os.path.isfile(root):
            h.update(root.encode()); h.update(open(root, "rb").read()); continue
        for d, dirs, files in sorted(os.walk(root)):
            dirs.sort()
            for f in sorted(files):
                p = os.path.join(d, f)
                h.update(p.encode())
                with open(p, "rb") as fh:
                    h.update(fh.read())
    return h.hexdigest()[:16]

LIB_C = ["src/rtosc.c", "src/dispatch.c", "src/rtosc-time.c"]
LIB_CPP_C = ["src/cpp/pretty-format.c", "src/cpp/arg-ext.c", "src/cpp/arg-val.c",
             "src/cpp/arg-val-math.c", "src/cpp/arg-val-cmp.c", "src/cpp/arg-val-itr.c",
             "src/cpp/util.c"]
LIB_CPP = ["src/cpp/ports.cpp", "src/cpp/ports-runtime.cpp", "src/cpp/default-value.cpp",
           "src/cpp/savefile.cpp", "src/cpp/port-checker.cpp", "src/cpp/miditable.cpp",
           "src/cpp/automations.cpp", "src/cpp/midimapper.cpp", "src/cpp/thread-link.cpp",
           "src/cpp/undo-history.cpp", "src/cpp/subtree-serialize.cpp"]

VARIANTS = {
    # the pinned build is RelWithDebInfo: -O2 -g -DNDEBUG
    "plain": ["-O2", "-g", "-DNDEBUG"],
    # UBSan's shift check is off: the library assembles big-endian words with
    # `byte << 24` on int throughout (formally UB for bytes >= 128, the
    # intended two's-complement result everywhere it is compiled); it is not
    # what any property here is about and would mask every other observation;
    # likewise vla-bound: rtosc_avmessage declares a zero-length VLA for an
    # empty argument list (harmless with every compiler the library supports)
    "asan":  ["-O1", "-g", "-DNDEBUG", "-fsanitize=address,undefined", "-fno-sanitize=shift,vla-bound",
              "-fno-sanitize-recover=all", "-fno-omit-frame-pointer"],
    "tsan":  ["-O1", "-g", "-DNDEBUG", "-fsanitize=thread"],
    # AddressSanitizer without UBSan (for properties whose inputs necessarily
    # pass negative 32-bit payloads through rtosc_argument's "byte << 24")
    "asan-noub": ["-O1", "-g", "-DNDEBUG", "-fsanitize=address", "-fno-omit-frame-pointer"],
    # GCC's post-optimisation call graph (C03)
    "cgraph": ["-O2", "-g", "-DNDEBUG", "-fcallgraph-info"],
}
GUARD = "-DRTOSC_VERIF"

def repo_hash():
    return tree_hash([os.path.join(REPO, "src"), os.path.join(REPO, "include")])

def objroot():
    return os.path.join(WORK, "obj", repo_hash())

def prune_obj(keep):
    base = os.path.join(WORK, "obj")
    if not os.path.isdir(base):
        return
    for d in os.listdir(base):
        if d != keep:
            shutil.rmtree(os.path.join(base, d), ignore_errors=True)

def build_lib(variant, log):
    """Compile every library source of /repo's working tree into a static
    archive (cached by content hash of /repo/src + /repo/include)."""
    h = repo_hash()
    prune_obj(h)
    fh = hashlib.sha256(" ".join(VARIANTS[variant]).encode()).hexdigest()[:8]
    d = os.path.join(WORK, "obj", h, variant + "_" + fh)
    lib = os.path.join(d, "librtosc_v.a")
    if os.path.exists(lib):
        return lib, d
    os.makedirs(d, exist_ok=True)
    # version.c from its template (what CMake's configure_file does)
    vin = open(os.path.join(REPO, "src/cpp/version.c.in")).read()
    cm = open(os.path.join(REPO, "CMakeLists.txt")).read()
    for k in ("VERSION_MAJOR", "VERSION_MINOR", "VERSION_PATCH"):
        m = re.search(r"set\(%s\s+(\d+)\)" % k, cm)
        vin = vin.replace("${%s}" % k, m.group(1) if m else "0")
    open(os.path.join(d, "version.c"), "w").write(vin)
    flags = VARIANTS[variant] + [GUARD, "-I" + os.path.join(REPO, "include"), "-w"]
    jobs = []
    for s in LIB_C:
        jobs.append((["gcc", "-std=c99"], os.path.join(REPO, s)))
    for s in LIB_CPP_C:
        jobs.append((["gcc"], os.path.join(REPO, s)))
    jobs.append((["gcc"], os.path.join(d, "version.c")))
    for s in LIB_CPP:
        jobs.append((["g++", "-std=c++17"], os.path.join(REPO, s)))
    def one(j):
        cc, src = j
        obj = os.path.join(d, os.path.basename(src).replace(".", "_") + ".o")
        rc, out, err = sh(cc + flags + ["-c", src, "-o", obj], cwd=d, timeout=600)
        return rc, src, err, obj
    objs = []
    with ThreadPoolExecutor(NCPU) as ex:
        for rc, src, err, obj in ex.map(one, jobs):
            if rc != 0:
                raise BuildError("compiling %s failed:\n%s" % (src, err[-3000:]))
            objs.append(obj)
    rc, out, err = sh(["ar", "rcs", lib] + objs)
    if rc != 0:
        raise BuildError("ar failed: " + err)
    log("built %s library from %s (hash %s)" % (variant, REPO, h))
    return lib, d

class BuildError(Exception):
    pass

def build_harness(pid, sources, variant, log, extra_flags=(), libs=()):
    lib, d = build_lib(variant, log)
    hh = tree_hash([os.path.join(VERIF, "harness")])
    exe = os.path.join(d, "h_%s_%s" % (pid, hh))
    if os.path.exists(exe):
        return exe
    srcs = [os.path.join(VERIF, "harness", s) for s in sources]
    cmd = (["g++", "-std=c++17"] + VARIANTS[variant] + [GUARD, "-w",
           "-I" + os.path.join(REPO, "include"), "-I" + os.path.join(REPO, "src"),
           "-I" + os.path.join(VERIF, "harness")]
           + list(extra_flags) + srcs + [lib] + list(libs) + ["-lpthread", "-lm", "-o", exe])
    rc, out, err = sh(cmd, timeout=900)
    if rc != 0:
        raise BuildError("harness build failed:\n" + err[-4000:])
    return exe

# ----------------------------------------------------------------------------
FORBIDDEN = re.compile(r"\b(Admitted|admit|Axiom|Axioms|Parameter|Parameters|Conjecture|"
                       r"Unset\s+Guard|bypass_check|Admit\s+Obligations|"
                       r"Unset\s+Positivity|Unset\s+Universe\s+Checking|type-in-type|impredicative-set|"
                       r"native_compute)\b")

def strip_comments(src):
    out, depth, i = [], 0, 0
    while i < len(src):
        if src.startswith("(*", i):
            depth += 1; i += 2
        elif src.startswith("*)", i) and depth:
            depth -= 1; i += 2
        else:
            if depth == 0:
                out.append(src[i])
            i += 1
    return "".join(out)

def grep_gate():
    """No Admitted/admit/Axiom/Parameter/... anywhere in the development;
    Variable/Hypothesis only inside a Section."""
    bad = []
    for d, dirs, files in os.walk(COQ):
        for f in files:
            if not f.endswith(".v"):
                continue
            p = os.path.join(d, f)
            src = strip_comments(open(p).read())
            for m in FORBIDDEN.finditer(src):
                bad.append("%s: %s" % (os.path.relpath(p, VERIF), m.group(0)))
            depth = 0
            for line in src.split("\n"):
                s = line.strip()
                if re.match(r"Section\s+\w+", s):
                    depth += 1
                elif re.match(r"End\s+\w+", s) and depth:
                    depth -= 1   # (modules also End; depth never goes negative)
                elif depth == 0 and re.match(r"(Variable|Variables|Hypothesis|Hypotheses|Context)\b", s):
                    bad.append("%s: %s outside a Section" % (os.path.relpath(p, VERIF), s[:40]))
    for f in ("_CoqProject",):
        p = os.path.join(COQ, f)
        if os.path.exists(p) and re.search(r"type-in-type|impredicative-set", open(p).read()):
            bad.append("_CoqProject: forbidden flag")
    return bad

def coq_files():
    out = []
    for d, dirs, files in os.walk(COQ):
        dirs.sort()
        for f in sorted(files):
            if f.endswith(".v") and not f.startswith("Assumptions_") and not f.startswith("."):
                out.append(os.path.relpath(os.path.join(d, f), COQ))
    return out

def ensure_coq_makefile():
    proj = "-Q . RtoscV\n" + "\n".join(coq_files()) + "\n"
    pp = os.path.join(COQ, "_CoqProject")
    if not os.path.exists(pp) or open(pp).read() != proj or not os.path.exists(os.path.join(COQ, "Makefile")):
        open(pp, "w").write(proj)
        rc, out, err = sh(["coq_makefile", "-f", "_CoqProject", "-o", "Makefile"], cwd=COQ)
        if rc != 0:
            raise BuildError("coq_makefile: " + err)

def theorems_of(pid):
    p = os.path.join(COQ, "Properties_%s.v" % pid)
    src = strip_comments(open(p).read())
    return re.findall(r"^\s*Theorem\s+(\w+)", src, re.M)

def check_proofs(pid, log, clean=False):
    """make Properties_<pid>.vo (full .vo build) + Print Assumptions per theorem.
    Returns dict(theorems, discharged, assumptions{thm:[axioms]}, broken:[...], log)."""
    ensure_coq_makefile()
    res = {"theorems": theorems_of(pid), "assumptions": {}, "broken": [], "make_log": ""}
    target = "Properties_%s.vo" % pid
    if clean:
        # rebuild the dependency cone of this property from scratch
        rc, out, err = sh(["make", "-s", "-f", "Makefile", "clean"], cwd=COQ, timeout=600)
    t0 = time.time()
    rc, out, err = sh(["timeout", "3000", "make", "-k", "-j%d" % NCPU, target], cwd=COQ, timeout=3100)
    res["make_log"] = (out + err)[-4000:]
    if rc != 0:
        m = re.findall(r'File "([^"]+)", line (\d+)', out + err)
        res["broken"].append("make %s failed%s" % (target, (" at %s:%s" % m[0]) if m else ""))
        return res
    # Print Assumptions
    af = os.path.join(COQ, "Assumptions_%s.v" % pid)
    body = "From RtoscV Require Import Properties_%s.\n" % pid
    for t in res["theorems"]:
        body += "Print Assumptions %s.\n" % t
    if not os.path.exists(af) or open(af).read() != body:
        open(af, "w").write(body)
    rc, out, err = sh(["timeout", "600", "coqc", "-Q", ".", "RtoscV", af], cwd=COQ, timeout=700)
    if rc != 0:
        res["broken"].append("Print Assumptions failed: " + err[-500:])
        return res
    # split the output per theorem: each Print Assumptions prints either
    # "Closed under the global context" or "Axioms:\n name : type ..."
    chunks = re.split(r"(?m)^(?=Closed under the global context|Axioms:)", out)
    chunks = [c for c in chunks if c.strip()]
    if len(chunks) != len(res["theorems"]):
        res["broken"].append("could not parse Print Assumptions output")
        return res
    for t, c in zip(res["theorems"], chunks):
        if c.startswith("Closed"):
            res["assumptions"][t] = []
        else:
            res["assumptions"][t] = sorted(set(re.findall(r"(?m)^([A-Za-z_][\w.']*)\s*:", c)) - {"Axioms"})
    res["secs"] = round(time.time() - t0, 1)
    return res

def build_driver(pid, log):
    """Extract the model (ExtrOcamlBasic only) and compile the OCaml driver.
    pid names a directory under ocaml/ (several properties may share one)."""
    src = os.path.join(VERIF, "ocaml", pid)
    h = tree_hash([src, os.path.join(VERIF, "ocaml", "conv.ml.inc"), COQ])
    d = os.path.join(WORK, "ocaml", pid)
    exe = os.path.join(d, "driver_" + h)
    if os.path.exists(exe):
        return exe
    shutil.rmtree(d, ignore_errors=True)
    os.makedirs(d)
    ex = open(os.path.join(src, "extract.v")).read()
    for m in re.finditer(r"Extract\s+(Constant|Inductive|Inlined)", strip_comments(ex)):
        raise BuildError("extract.v uses %s; only ExtrOcamlBasic is allowed" % m.group(0))
    shutil.copy(os.path.join(src, "extract.v"), os.path.join(d, "extract.v"))
    # the model files must be compiled (never the proofs: the model has to run
    # even when a proof is broken)
    ensure_coq_makefile()
    deps = re.findall(r"Require\s+Import\s+([^.]*(?:\.[A-Za-z_][\w]*)*)\s*\.\s", ex)
    mods = []
    for grp in re.findall(r"From\s+RtoscV\s+Require\s+Import\s+([^\n]*?)\.\s*$", ex, re.M):
        mods += grp.split()
    targets = [m.replace(".", "/") + ".vo" for m in mods]
    if targets:
        rc, out, err = sh(["timeout", "1800", "make", "-j%d" % NCPU] + targets, cwd=COQ, timeout=1900)
        if rc != 0:
            raise BuildError("model does not compile:\n" + (out + err)[-3000:])
    rc, out, err = sh(["timeout", "900", "coqc", "-Q", COQ, "RtoscV", "extract.v"], cwd=d, timeout=1000)
    if rc != 0:
        raise BuildError("extraction failed:\n" + err[-3000:])
    drv = open(os.path.join(VERIF, "ocaml", "conv.ml.inc")).read() + "\n" + open(os.path.join(src, "driver.ml")).read()
    open(os.path.join(d, "drv.ml"), "w").write(drv)
    rc, out, err = sh(["ocamlfind", "ocamlopt", "-w", "-a", "model.mli", "model.ml", "drv.ml", "-o", exe],
                      cwd=d, timeout=900)
    if rc != 0:
        raise BuildError("driver build failed:\n" + err[-3000:])
    return exe

# ----------------------------------------------------------------------------
def run_lines(exe, lines, shards=NCPU, timeout=1800, env=None):
    """Feed case lines to exe (sharded over the cores); one output line per
    case.  A crash of the process is reported as 'CRASH:<stderr tail>' for the
    first unanswered case of its shard and 'NOOUT' for the rest."""
    if not lines:
        return []
    n = max(1, min(shards, (len(lines) + 199) // 200))
    parts = [lines[i::n] for i in range(n)]
    def one(part):
        try:
            p = subprocess.run([exe], input=("\n".join(part) + "\n").encode(), env=env,
                               stdout=subprocess.PIPE, stderr=subprocess.PIPE, timeout=timeout)
            out = p.stdout.decode("utf-8", "replace").split("\n")
            if out and out[-1] == "":
                out.pop()
            err = p.stderr.decode("utf-8", "replace")
            rc = p.returncode
        except subprocess.TimeoutExpired as e:
            out = (e.stdout or b"").decode("utf-8", "replace").split("\n")
            if out and out[-1] == "":
                out.pop()
            err, rc = "TIMEOUT", -9
        if len(out) < len(part):
            tail = " ".join(err.strip().split("\n")[:6])[:600]
            out = out + ["CRASH:rc=%s %s" % (rc, tail)] + ["NOOUT"] * (len(part) - len(out) - 1)
        return out[:len(part)]
    with ThreadPoolExecutor(n) as ex:
        outs = list(ex.map(one, parts))
    res = [None] * len(lines)
    for k, o in enumerate(outs):
        res[k::n] = o
    return res

def load_known(pid):
    """known-findings.txt: 'finding: property=<id> class=<cls> ...' lines
    (fixed: lines suppress nothing)."""
    out = {}
    files = [os.path.join(VERIF, "known-findings.txt")]
    # lines proposed by a property's own branch, same format, one file per
    # property (known-findings.d/<id>.txt); folded into known-findings.txt on
    # integration
    dd = os.path.join(VERIF, "known-findings.d")
    if os.path.isdir(dd):
        files += [os.path.join(dd, f) for f in sorted(os.listdir(dd)) if f.endswith(".txt")]
    for p in files:
        if not os.path.exists(p):
            continue
        for line in open(p):
            m = re.match(r"finding:\s+property=(\w+)\s+class=(\S+)\s*(.*)", line.strip())
            if m and m.group(1) == pid:
                out[m.group(2)] = m.group(3)
    return out

def write_replay(pid, seed, n, obj):
    d = os.path.join(VERIF, "evidence", "replays")
    os.makedirs(d, exist_ok=True)
    p = os.path.join(d, "%s-%s-%d.json" % (pid, seed, n))
    json.dump(obj, open(p, "w"), indent=1)
    return p

def corpus_lines(pid):
    d = os.path.join(VERIF, "corpus", pid)
    out = []
    if os.path.isdir(d):
        for f in sorted(os.listdir(d)):
            for line in open(os.path.join(d, f)):
                line = line.rstrip("\n")
                if line and not line.startswith("#"):
                    out.append(line)
    return out

TRUSTED_COMMON = [
    "Coq 8.16.1 kernel (coqc, full .vo build; vm_compute where a proof uses it; no native_compute)",
    "extraction to OCaml with ExtrOcamlBasic only (Extract Inductive bool/option/unit/prod/list/sumbool); no Extract Constant; OCaml 4.13.1 compiler; the driver's case-file parser/printer",
    "correspondence check: seeded generators in tools/props/<id>.py, the C/C++ harness under harness/, gcc/g++ 12.2 (and ASan/UBSan where used), line-by-line comparison",
    "the implementation is related to the model only by that correspondence check (modelled, not verified)",
]

def main():
    ap = argparse.ArgumentParser()
    ap.add_argument("pid")
    ap.add_argument("--tier", default=os.environ.get("VERIF_TIER", "quick"))
    ap.add_argument("--replay")
    a = ap.parse_args()
    pid, tier = a.pid, a.tier
    if tier not in ("quick", "thorough"):
        tier = "quick"
    try:
        seed = int(os.environ.get("VERIF_SEED", "1"))
    except ValueError:
        seed = 1
    t0 = time.time()
    notes = []
    def log(s):
        notes.append(s)
        print("[%s %6.1fs] %s" % (pid, time.time() - t0, s), flush=True)
    plug = importlib.import_module("props." + pid)
    os.makedirs(os.path.join(VERIF, "evidence"), exist_ok=True)
    evpath = os.path.join(VERIF, "evidence", pid + ".json")
    violations = []     # (description, replay object)
    known_hit = {}
    nofail = []         # broken obligations / correspondence without a failing input

    # custom checks (e.g. C03's regenerated graph) take over after the common part
    ctx = dict(pid=pid, tier=tier, seed=seed, log=log, VERIF=VERIF, REPO=REPO, WORK=WORK, COQ=COQ,
               sh=sh, build_lib=build_lib, build_harness=build_harness, run_lines=run_lines,
               check_proofs=check_proofs, build_driver=build_driver, NCPU=NCPU, BuildError=BuildError)

    # 0. gate
    bad = grep_gate()
    if bad:
        nofail.append({"kind": "gate", "detail": bad[:20]})
        log("gate: forbidden constructs: %s" % bad[:5])

    # 1. implementation from the working tree
    impl_exe = None
    build_err = None
    try:
        if hasattr(plug, "pre_build"):
            plug.pre_build(ctx)
        impl_exe = build_harness(pid, plug.HARNESS, getattr(plug, "VARIANT", "asan"), log,
                                 getattr(plug, "HARNESS_FLAGS", ()), getattr(plug, "HARNESS_LIBS", ()))
        log("harness built")
    except BuildError as e:
        build_err = str(e)
        log("BUILD FAILED: " + build_err[-800:])
        nofail.append({"kind": "build", "detail": build_err[-2000:]})

    # 2. proofs
    if hasattr(plug, "pre_proofs"):
        try:
            plug.pre_proofs(ctx)
        except BuildError as e:
            nofail.append({"kind": "translator", "detail": str(e)[-2000:]})
    pr = check_proofs(pid, log, clean=False)
    obligations = len(pr["theorems"])
    discharged = len(pr["assumptions"])
    if pr["broken"]:
        log("PROOFS BROKEN: %s" % pr["broken"])
        nofail.append({"kind": "proof", "theorem_or_file": pr["broken"], "log": pr["make_log"][-1500:]})
    else:
        log("proofs: %d/%d theorems of Properties_%s.v checked (%.1fs)" % (discharged, obligations, pid, pr.get("secs", 0)))
    coqchk_axioms = None
    if tier == "thorough" and not pr["broken"] and getattr(plug, "COQCHK", True):
        rc, out, err = sh(["timeout", "1500", "coqchk", "-o", "-silent", "-Q", ".", "RtoscV",
                           "RtoscV.Properties_%s" % pid], cwd=COQ, timeout=1600)
        if rc != 0:
            nofail.append({"kind": "proof", "theorem_or_file": "coqchk failed", "log": (out + err)[-1500:]})
            log("coqchk FAILED")
        else:
            coqchk_axioms = [l.strip() for l in out.split("\n") if l.strip()][-40:]
            log("coqchk ok")

    # 3. model driver
    drv_exe = None
    try:
        drv_exe = build_driver(getattr(plug, "DRIVER", pid), log)
    except BuildError as e:
        log("MODEL BUILD FAILED: " + str(e)[-800:])
        nofail.append({"kind": "model", "detail": str(e)[-2000:]})

    # 4. cases
    rng = random.Random(seed * 1000003 + (7 if tier == "thorough" else 0))
    dist = {}
    cases = list(corpus_lines(pid))
    ncorpus = len(cases)
    cases += plug.gen(rng, tier, dist)
    log("%d cases (%d from corpus)" % (len(cases), ncorpus))
    mism = []
    specfail = []
    impl_out = model_out = None
    evaluations = 0
    nontrivial = set()
    env = dict(os.environ)
    env.setdefault("ASAN_OPTIONS", "detect_leaks=0:abort_on_error=0:exitcode=99")
    env.setdefault("UBSAN_OPTIONS", "print_stacktrace=0")
    env["TZ"] = "UTC"
    if impl_exe:
        impl_out = run_lines(impl_exe, cases, env=env, timeout=getattr(plug, "TIMEOUT", 1800))
    if drv_exe:
        model_out = run_lines(drv_exe, cases, timeout=getattr(plug, "TIMEOUT", 1800))
    if impl_out is not None:
        for i, c in enumerate(cases):
            evaluations += 1
            io = impl_out[i]
            if hasattr(plug, "nontrivial") and plug.nontrivial(c, io):
                nontrivial.add(c)
            sf = plug.spec_check(c, io) if hasattr(plug, "spec_check") else None
            if sf:
                specfail.append((c, io, model_out[i] if model_out else None, sf))
            if model_out is not None:
                canon = getattr(plug, "canon", lambda c, x: x)
                if canon(c, io) != canon(c, model_out[i]):
                    mism.append((c, io, model_out[i]))
    log("ran %d cases: %d model/implementation disagreements, %d Spec failures"
        % (evaluations, len(mism), len(specfail)))

    # 5. search when the tie or a proof is broken but no Spec failure is at hand
    if (mism or any(n["kind"] in ("proof", "model") for n in nofail)) and not specfail and impl_exe:
        extra_n = 0
        for k in range(1, (6 if tier == "thorough" else 3)):
            rng2 = random.Random(seed * 7919 + k)
            more = plug.gen(rng2, "thorough" if tier == "thorough" else "quick", {})
            out2 = run_lines(impl_exe, more, env=env)
            extra_n += len(more)
            for c, io in zip(more, out2):
                sf = plug.spec_check(c, io) if hasattr(plug, "spec_check") else None
                if sf:
                    specfail.append((c, io, None, sf))
            if specfail:
                break
        evaluations += extra_n
        log("search for a failing input: %d further cases, %d Spec failures" % (extra_n, len(specfail)))

    # 6. decide
    known = load_known(pid)
    n_rep = 0
    seen_cls = set()
    for c, io, mo, sf in specfail:
        cls = plug.classify(c, io, sf) if hasattr(plug, "classify") else None
        if cls and cls in known:
            known_hit.setdefault(cls, (c, io, sf))
            continue
        key = cls or sf.split(":")[0]
        if key in seen_cls:
            continue
        seen_cls.add(key)
        if hasattr(plug, "minimise") and impl_exe:
            try:
                c, io, sf = plug.minimise(c, io, sf, lambda cs: run_lines(impl_exe, cs, env=env))
            except Exception:
                pass
        n_rep += 1
        rp = write_replay(pid, seed, n_rep, {"property": pid, "kind": "spec-violation", "case": c,
                                             "implementation": io, "model": mo, "failure": sf, "class": cls,
                                             "obligations_broken": nofail,
                                             "replay": "echo '<case>' | harness (see tools/vcheck.py)"})
        violations.append(("VIOLATION property=%s replay=%s" % (pid, rp), rp))
    if not violations:
        if mism:
            n_rep += 1
            rp = write_replay(pid, seed, n_rep, {"property": pid, "kind": "correspondence-broken",
                                                 "stream": mism[0][0].split(" ")[0], "first_disagreement":
                                                 {"case": mism[0][0], "implementation": mism[0][1], "model": mism[0][2]},
                                                 "disagreements": len(mism),
                                                 "obligations_broken": nofail,
                                                 "searched_cases_without_spec_failure": evaluations})
            violations.append(("VIOLATION property=%s replay=%s no-failing-input-found" % (pid, rp), rp))
        elif nofail:
            n_rep += 1
            rp = write_replay(pid, seed, n_rep, {"property": pid, "kind": "obligation-broken", "broken": nofail})
            violations.append(("VIOLATION property=%s replay=%s no-failing-input-found" % (pid, rp), rp))
    for cls, (c, io, sf) in known_hit.items():
        print("KNOWN-FINDING: property=%s class=%s %s (e.g. case %s)" % (pid, cls, known[cls], c[:200]))

    # 7. evidence
    axioms = sorted({a for v in pr["assumptions"].values() for a in v})
    tb = list(TRUSTED_COMMON) + list(getattr(plug, "TRUSTED", []))
    tb.append("axioms reported by Print Assumptions for the property theorems: " +
              (", ".join(axioms) if axioms else "none (Closed under the global context)"))
    samples = [{"case": c, "implementation": impl_out[i] if impl_out else None}
               for i, c in list(enumerate(cases))[ncorpus:ncorpus + 3]]
    samples += [{"theorem": t, "axioms": pr["assumptions"].get(t)} for t in pr["theorems"][:40]]
    ev = {
        "property_id": pid, "tier": tier, "seed": seed, "level": "proof",
        "coverage": {
            "obligations": max(obligations, 1), "discharged": discharged,
            "checker_cmd": "make -C coq Properties_%s.vo && coqc Assumptions_%s.v (Print Assumptions per theorem)%s"
                           % (pid, pid, "; coqchk -o -silent RtoscV.Properties_%s" % pid if coqchk_axioms is not None else ""),
            "trusted_base": tb,
            "theorems": pr["theorems"],
            "assumptions_per_theorem": pr["assumptions"],
            "evaluations": evaluations,
            "distinct_nontrivial": len(nontrivial),
            "rule": getattr(plug, "RULE", ""),
            "samples": samples,
            "input_distribution": dist,
            "model_impl_disagreements": len(mism),
            "spec_failures": len(specfail),
            "known_findings_hit": sorted(known_hit.keys()),
            "corpus_cases": ncorpus,
            "repo_hash": repo_hash(),
            "explanation": getattr(plug, "EXPLANATION", ""),
        },
        "assumptions": list(getattr(plug, "ASSUMPTIONS", [])),
        "wall_s": round(time.time() - t0, 2),
        "violations": len(violations),
    }
    if coqchk_axioms is not None:
        ev["coverage"]["coqchk_tail"] = coqchk_axioms
    if hasattr(plug, "extra_evidence"):
        ev["coverage"].update(plug.extra_evidence(ctx))
    json.dump(ev, open(evpath, "w"), indent=1)
    for line, rp in violations:
        print(line)
    log("done: %d violation(s)" % len(violations))
    sys.exit(1 if violations else 0)

if __name__ == "__main__":
    main()
