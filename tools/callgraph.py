#!/usr/bin/env python3
"""callgraph.py - the C03 translator.

Compiles the library of $VERIF_REPO (vcheck's 'cgraph' variant:
-O2 -g -DNDEBUG -fcallgraph-info) and harness/h_C03_sugar.cpp (one
instantiation of every port-sugar callback macro) and turns GCC's final call
graph (.ci files, VCG text) into coq/RtGraph/Graph_gen.v:

  direct           list (N * list N)   one entry per function *defined* in the
                                       analysed code, with its direct callees
  indirect_table   list (N * list N)   the resolution of indirect call sites
  excluded         list (N * N)        abort-only edges that are left out
  abort_only       list N              the targets such edges may have
  entries          list N              RT entry points (entry_groups: by group)
  forbidden        list N              allocator / lock / throw symbols
  allowed_external list N              external leaf functions that may be reached
  unresolved_indirect N                target of every indirect call site the
                                       table does not resolve (it is forbidden)
  witness_path     list N              a concrete path dispatch -> ... ->
                                       rtosc_amessage through the table
  + the symbol table and the per-site resolution as a comment.

It also writes _work/C03/graph.json (same data with names) which the plug-in
uses to print a path when the theorem no longer holds.

Indirect-call rules (the *trusted* part; validated dynamically by h_C03.cpp):
  FN    a call through std::function (site in std_function.h on the line that
        calls _M_invoker) inside rtosc::Ports::dispatch
        -> every std::function handler (_M_invoke) for the signature
           void(const char*, RtData&) defined in h_C03_sugar.cpp, i.e. the
           instantiated sugar lambdas and the harness glue (recursion into a
           generated table, default handlers)
  VIRT  any other indirect call inside the va-forms RtData::reply/broadcast,
        RtData::broadcast(const char*) or inside one of those handlers
        -> every virtual member reply/broadcast/chain/replyArray/
           broadcastArray/chainArray/forward of rtosc::RtData (the base class'
           default forwarding) and of c03::CaptureData (the harness' RtData)
  HOOK  a call on a source line that is a RTOSC_VERIF_POINT(id) macro use (the
        guarded verification point added by this framework's hook commit:
        `if(rtosc_verif_hook) rtosc_verif_hook(id, ring)`) -> no target: the
        pointer is null unless a verification harness installs one, and the
        macro expands to nothing without -DRTOSC_VERIF
  anything else -> unresolved_indirect (forbidden)
"""
import os, re, sys, json, glob, hashlib, subprocess

# ---------------------------------------------------------------------------
C_ENTRIES = {
    # group 1: build
    1: ["rtosc_message", "rtosc_vmessage", "rtosc_amessage", "rtosc_avmessage", "rtosc_v2argvals",
        "rtosc_bundle"],
    # group 2: measure / read
    2: ["rtosc_message_length", "rtosc_message_ring_length", "rtosc_valid_message_p",
        "rtosc_argument_string", "rtosc_narguments", "rtosc_type", "rtosc_argument",
        "rtosc_itr_begin", "rtosc_itr_next", "rtosc_itr_end",
        "rtosc_bundle_p", "rtosc_bundle_elements", "rtosc_bundle_fetch", "rtosc_bundle_size",
        "rtosc_bundle_timetag"],
    # group 3: match
    3: ["rtosc_match", "rtosc_match_path", "rtosc_match_options", "rtosc_match_partial",
        "rtosc_subpath_pat_type"],
}
GROUPS = {1: "build", 2: "read", 3: "match", 4: "dispatch", 5: "sugar", 6: "reply", 7: "link"}

# demangled-name patterns of C++ entry points
CXX_ENTRIES = {
    4: [r"^rtosc::Ports::dispatch\(char const\*, rtosc::RtData&, bool\) const$"],
    6: [r"^rtosc::RtData::(reply|broadcast|chain|replyArray|broadcastArray|chainArray|forward|push_index|pop_index)\(",
        r"^c03::CaptureData::(reply|broadcast|chain|forward)\("],
    7: [r"^rtosc::ThreadLink::(write|writeArray|raw_write|read|read_lookahead|hasNext|hasNextLookahead|peak|buffer|buffer_size)\("],
}
# at least these many entries must be found per group (a renamed or vanished
# entry point must not silently shrink the theorem)
MIN_ENTRIES = {1: 6, 2: 15, 3: 5, 4: 1, 5: 30, 6: 8, 7: 10}

HANDLER_RE = re.compile(r"^std::_Function_handler<void \(char const\*, rtosc::RtData&\), .*>::_M_invoke\(")
VIRT_RE = re.compile(r"^(rtosc::RtData|c03::CaptureData)::(reply|broadcast|chain|replyArray|broadcastArray|chainArray|forward)\(")
VIRT_SRC_RE = re.compile(r"^rtosc::RtData::(reply\(char const\*, char const\*, \.\.\.\)|"
                         r"broadcast\(char const\*, char const\*, \.\.\.\)|broadcast\(char const\*\))$")

FORBIDDEN_NAMES = [
    "malloc", "calloc", "realloc", "free", "posix_memalign", "aligned_alloc", "memalign", "valloc",
    "pvalloc", "reallocarray", "strdup", "strndup", "asprintf", "vasprintf",
    "_Znwm", "_Znam", "_ZnwmRKSt9nothrow_t", "_ZnamRKSt9nothrow_t", "_ZnwmSt11align_val_t",
    "_ZnamSt11align_val_t", "_ZnwmSt11align_val_tRKSt9nothrow_t", "_ZnamSt11align_val_tRKSt9nothrow_t",
    "_ZdlPv", "_ZdaPv", "_ZdlPvm", "_ZdaPvm", "_ZdlPvSt11align_val_t", "_ZdaPvSt11align_val_t",
    "_ZdlPvmSt11align_val_t", "_ZdaPvmSt11align_val_t", "_ZdlPvRKSt9nothrow_t", "_ZdaPvRKSt9nothrow_t",
    "pthread_mutex_lock", "pthread_mutex_trylock", "pthread_mutex_timedlock",
    "pthread_rwlock_rdlock", "pthread_rwlock_wrlock", "pthread_rwlock_tryrdlock", "pthread_rwlock_trywrlock",
    "pthread_spin_lock", "pthread_cond_wait", "pthread_cond_timedwait",
    "__cxa_allocate_exception", "__cxa_throw", "__cxa_rethrow", "__cxa_guard_acquire",
    "_ZNSt7__cxx1112basic_stringIcSt11char_traitsIcESaIcEE9_M_createERmm",
    "__unresolved_indirect_call",
]
# any symbol matching one of these is forbidden too
FORBIDDEN_PATTERNS = [
    r"^_ZSt\d+__throw_",                       # std::__throw_*: allocate an exception
    r"^_ZNSt7__cxx1112basic_stringI.*(_M_create|_M_construct|_M_assign|_M_append|_M_replace|_M_mutate|"
    r"7reserve|6resize|6append|6assign|6insert|9push_back)",
    r"^_ZNSt7__cxx1112basic_stringI[^E]*E[CD][12]E",   # out-of-line string constructors
    r"^_ZNSt8__detail15_List_node_base|^_ZSt18_Rb_tree_insert",  # node containers
]
# abort-only targets: the edges into them are excluded, each under the stated precondition
ABORT_ONLY = {
    "_ZSt25__throw_bad_function_callv": "every Port::cb and every default_handler reached by dispatch is non-empty (Ports built with callbacks; C04 precondition)",
    "__stack_chk_fail": "no stack buffer is overrun (memory safety is C02/C07's subject)",
    "__assert_fail": "assertions hold (the pinned build compiles them out with NDEBUG)",
    "abort": "never called on the message path unless an assertion fails",
}
# external leaf functions the message path is allowed to reach
ALLOWED_EXTERNAL = [
    "memcpy", "memmove", "memset", "memcmp", "memchr", "strlen", "strnlen", "strcmp", "strncmp",
    "strchr", "strrchr", "strstr", "strcpy", "strncpy", "strcat", "strncat",
    "atoi", "atol", "strtol", "strtoul", "atof", "strtod", "strtof",
    "isdigit", "isalpha", "isspace", "__ctype_b_loc", "__ctype_tolower_loc", "__ctype_toupper_loc",
    "__builtin_unreachable", "__indirect_call",
]

# ---------------------------------------------------------------------------
NODE_RE = re.compile(r'^node: \{ title: "([^"]*)" label: "((?:[^"\\]|\\.)*)"( shape : ellipse)? \}')
EDGE_RE = re.compile(r'^edge: \{ sourcename: "([^"]*)" targetname: "([^"]*)"(?: label: "([^"]*)")? \}')

def short(title):
    """'/abs/dir/file.c:sym' -> 'file.c:sym' (file-local symbols), else unchanged"""
    if ":" in title and title.startswith("/"):
        path, sym = title.rsplit(":", 1)
        return os.path.basename(path) + ":" + sym
    return title

def symbol_of(name):
    return name.rsplit(":", 1)[1] if ":" in name else name

def parse_ci(files):
    defined, external, edges = set(), set(), []
    for f in files:
        for line in open(f, errors="replace"):
            m = NODE_RE.match(line)
            if m:
                (external if m.group(3) else defined).add(short(m.group(1)))
                continue
            m = EDGE_RE.match(line)
            if m:
                edges.append((short(m.group(1)), short(m.group(2)), m.group(3) or "", os.path.basename(f)))
    # a target without a node line (constructor/ICF aliases) counts as external
    for a, b, _s, _f in edges:
        external.add(b)
        external.add(a)
    external -= defined
    return defined, external, edges

def demangle(names):
    syms = [symbol_of(n) for n in names]
    p = subprocess.run(["c++filt"], input="\n".join(syms).encode(), stdout=subprocess.PIPE)
    out = p.stdout.decode("utf-8", "replace").split("\n")
    return {n: (out[i] if i < len(out) else syms[i]) for i, n in enumerate(names)}

_src_cache = {}
def source_line(site):
    """text of the source line an edge label 'file:line:col' points at"""
    m = re.match(r"(.*):(\d+):(\d+)$", site)
    if not m:
        return ""
    path, ln = m.group(1), int(m.group(2))
    if path not in _src_cache:
        try:
            _src_cache[path] = open(path, errors="replace").read().split("\n")
        except OSError:
            _src_cache[path] = []
    L = _src_cache[path]
    return L[ln - 1] if 0 < ln <= len(L) else ""

class TranslatorError(Exception):
    pass

def translate(ci_files, sugar_ci):
    """-> dict with names, direct, table, excluded, entries ... (all by node name)"""
    defined, external, edges = parse_ci(ci_files)
    names = sorted(defined | external | {"__indirect_call", "__unresolved_indirect_call"}
                   | set(FORBIDDEN_NAMES) | set(ABORT_ONLY))
    dem = demangle(names)
    sugar_defined, _, _ = parse_ci([sugar_ci])

    handlers = sorted(n for n in sugar_defined if HANDLER_RE.match(dem[n]))
    virt = sorted(n for n in defined if VIRT_RE.match(dem[n]))
    if not handlers or not virt:
        raise TranslatorError("no std::function handlers / RtData virtuals found (handlers=%d virt=%d)"
                              % (len(handlers), len(virt)))
    dispatch = [n for n in defined if re.match(CXX_ENTRIES[4][0], dem[n])]
    if len(dispatch) != 1:
        raise TranslatorError("rtosc::Ports::dispatch not found in the call graph")

    direct = {n: set() for n in defined}
    # GCC emits the complete-object constructor/destructor (C1/D1) as an alias
    # of the base-object one (C2/D2): an undefined C1/D1 whose C2/D2 twin is
    # defined becomes a defined stub with the single edge C1 -> C2
    aliases = []
    for n in sorted(external):
        for m in re.finditer(r"[CD]1E", n):
            twin = n[:m.start() + 1] + "2" + n[m.start() + 2:]
            if twin in defined:
                aliases.append((n, twin))
                break
    for n, twin in aliases:
        external.discard(n)
        defined.add(n)
        direct[n] = {twin}
    table = {}
    sites = []      # (source, site, rule)
    for a, b, site, _f in edges:
        if b != "__indirect_call":
            direct[a].add(b)
            continue
        txt = source_line(site)
        is_fn_call = site.split(":")[0].endswith("std_function.h") and "_M_invoker(" in txt
        if is_fn_call and a == dispatch[0]:
            rule, tg = "FN", handlers
        elif (not site.split(":")[0].endswith("std_function.h")) and \
                (VIRT_SRC_RE.match(dem[a]) or a in handlers):
            rule, tg = "VIRT", virt
        elif "RTOSC_VERIF_POINT(" in txt:
            # the guarded verification point of this framework (hook commit
            # "RTOSC_VERIF_POINT before every shared access of the ThreadLink
            # ring"): `if(rtosc_verif_hook) rtosc_verif_hook(id, ring)`.  The
            # pointer is null unless a verification harness installs a
            # scheduler, and the macro expands to nothing without
            # -DRTOSC_VERIF, so the site has no target in the library.
            rule, tg = "HOOK", set()
        else:
            rule, tg = "UNRESOLVED", None
        sites.append((a, site, rule))
        if tg is None:
            direct[a].add("__unresolved_indirect_call")
        else:
            direct[a].add("__indirect_call")
            table.setdefault(a, set()).update(tg)

    excluded = sorted((a, b) for a in direct for b in direct[a] if symbol_of(b) in ABORT_ONLY)

    forb = set(n for n in names if symbol_of(n) in FORBIDDEN_NAMES)
    for n in names:
        s = symbol_of(n)
        if n in external and any(re.search(p, s) for p in FORBIDDEN_PATTERNS):
            forb.add(n)
    forb |= set(n for n in names if symbol_of(n) in ABORT_ONLY)

    groups = {}
    for g, syms in C_ENTRIES.items():
        groups[g] = [s for s in syms if s in defined]
        missing = [s for s in syms if s not in defined]
        if missing:
            raise TranslatorError("entry point(s) %s not defined in the compiled library" % missing)
    for g, pats in CXX_ENTRIES.items():
        groups[g] = sorted(n for n in defined if any(re.match(p, dem[n]) for p in pats))
    groups[5] = handlers
    for g, k in MIN_ENTRIES.items():
        if len(groups[g]) < k:
            raise TranslatorError("group %s: only %d entry points found (%d expected): %s"
                                  % (GROUPS[g], len(groups[g]), k, groups[g]))
    entries = sorted(set(x for g in groups.values() for x in g))
    allowed = sorted(n for n in names if n in external | {"__indirect_call"} and symbol_of(n) in ALLOWED_EXTERNAL)
    return dict(names=names, dem=dem, defined=sorted(defined), external=sorted(external),
                direct={a: sorted(bs) for a, bs in direct.items()},
                table={a: sorted(bs) for a, bs in table.items()},
                excluded=excluded, abort_only=sorted(n for n in names if symbol_of(n) in ABORT_ONLY),
                entries=entries, groups=groups, forbidden=sorted(forb), allowed=allowed,
                sites=sites, aliases=aliases, handlers=handlers, virt=virt, dispatch=dispatch[0])

# ---------------------------------------------------------------------------
def successors(G):
    ex = set(map(tuple, G["excluded"]))
    def succ(a):
        out = []
        for b in G["direct"].get(a, []) + G["table"].get(a, []):
            if (a, b) not in ex:
                out.append(b)
        return out
    return succ

def find_path(G, roots, targets):
    """BFS; returns the shortest path (list of names) from a root to a target or None"""
    succ = successors(G)
    targets = set(targets)
    prev = {r: None for r in roots}
    queue = list(roots)
    i = 0
    while i < len(queue):
        a = queue[i]; i += 1
        if a in targets:
            p = []
            while a is not None:
                p.append(a); a = prev[a]
            return p[::-1]
        for b in succ(a):
            if b not in prev:
                prev[b] = a
                queue.append(b)
    return None

def reachable(G, roots):
    succ = successors(G)
    seen = set(roots)
    work = list(roots)
    while work:
        a = work.pop()
        for b in succ(a):
            if b not in seen:
                seen.add(b); work.append(b)
    return seen

def diagnose(G):
    """list of human-readable reasons why the Coq theorems cannot hold"""
    out = []
    R0 = reachable(G, G["entries"])
    for f in G["forbidden"]:
        if f in R0:
            p = find_path(G, G["entries"], [f])      # shortest, from whichever entry is nearest
            out.append({"entry": G["dem"][p[0]], "forbidden": G["dem"][f],
                        "path": [G["dem"][x] for x in p], "path_symbols": p})
    R = reachable(G, G["entries"])
    dset, aset = set(G["defined"]), set(G["allowed"])
    for x in sorted(R):
        if x not in dset and x not in aset and x not in G["forbidden"]:
            p = find_path(G, G["entries"], [x])
            out.append({"entry": G["dem"][p[0]], "not_allowed_external": G["dem"][x],
                        "path": [G["dem"][y] for y in p], "path_symbols": p})
    return out

# ---------------------------------------------------------------------------
def sugar_coverage(sugar_h, sugar_cpp):
    """Every callback macro of port-sugar.h (r...Cb, r...Cb_, rBOIL*, rSelf, rDummy,
    rCrossBroadcast ...) must be expanded somewhere in h_C03_sugar.cpp, directly or
    through another macro.  Returns the list of macros that are not."""
    src = open(sugar_h, errors="replace").read()
    src = re.sub(r"\\\n", " ", src)                    # join continuation lines
    defs = {}
    for m in re.finditer(r"^[ \t]*#[ \t]*define[ \t]+(\w+)(\([^)]*\))?[ \t]*(.*)$", src, re.M):
        defs[m.group(1)] = m.group(3)
    used = set(re.findall(r"\b\w+\b", re.sub(r"//.*", "", open(sugar_cpp, errors="replace").read())))
    closure, work = set(), [u for u in used if u in defs]
    while work:
        x = work.pop()
        if x in closure:
            continue
        closure.add(x)
        for t in re.findall(r"\b\w+\b", defs[x]):
            if t in defs and t not in closure:
                work.append(t)
    want = [k for k, body in defs.items()
            if re.match(r"r\w*Cb\w*$", k) or k in ("rSelf", "rDummy", "rCrossBroadcast", "rBOIL_BEGIN", "rBOILS_BEGIN",
                                                   "rLIMIT", "rCAPPLY", "rAPPLY", "SNIP")]
    return sorted(k for k in want if k not in closure)

# ---------------------------------------------------------------------------
# Cross-check of GCC's .ci output against the object code it belongs to: every
# call / tail-jump in the disassembly of a function that an RT entry can reach
# must be an edge of the graph (and there must be no more indirect call
# instructions than __indirect_call edges).
FUNC_RE = re.compile(r"^[0-9a-f]+ <([^>]+)>:$")
INSN_RE = re.compile(r"^\s*[0-9a-f]+:\s+(?:notrack\s+|bnd\s+)*(call|jmp|j[a-z]+)\s+(.*?)\s*$")
RELOC_RE = re.compile(r"^\s*[0-9a-f]+:\s+R_X86_64_\w+\s+([^\s+-]+)")
TARGET_RE = re.compile(r"^[0-9a-f]+ <([^>+]+)(\+0x[0-9a-f]+)?>$")

def parent(sym):
    return re.sub(r"\.cold(\.\d+)?$", "", sym)

def object_edges(obj):
    """{function: (set of direct call/jump targets, number of 'call *' instructions)}"""
    p = subprocess.run(["objdump", "-dr", "--no-show-raw-insn", obj], stdout=subprocess.PIPE)
    out = {}
    cur, pending = None, False
    for line in p.stdout.decode("utf-8", "replace").split("\n"):
        m = FUNC_RE.match(line)
        if m:
            cur = parent(m.group(1)); out.setdefault(cur, [set(), 0]); pending = False
            continue
        if cur is None:
            continue
        m = INSN_RE.match(line)
        if m:
            op, arg = m.group(1), m.group(2)
            pending = False
            if arg.startswith("*"):
                if op == "call":
                    out[cur][1] += 1
                continue
            t = TARGET_RE.match(arg)
            if t:
                tgt = parent(t.group(1))
                # a jump to <sym+offset> is a transfer between the hot and cold parts of a
                # function (objdump names the nearest preceding symbol); a tail call goes
                # to a function's entry, i.e. to <sym> without offset
                if tgt != cur and (op == "call" or t.group(2) is None):
                    out[cur][0].add(tgt)
                pending = True                    # a relocation may follow (external target)
            continue
        m = RELOC_RE.match(line)
        if m and pending:
            # 'call 5d <cur+0x5d>' + relocation: the real target is the relocation's symbol
            out[cur][0].add(parent(m.group(1)))
            pending = False
        elif line.strip() and not line.startswith("\t\t"):
            pending = False
    return {k: (v[0], v[1]) for k, v in out.items()}

def objcheck(G, pairs):
    """pairs: [(object file, source basename)].  Returns a list of discrepancies
    for the functions reachable from the entries."""
    R = reachable(G, G["entries"])
    names = set(G["names"])
    alias = {}
    for a, b in G["aliases"]:
        alias[a] = b; alias[b] = a
    bad = []
    checked = 0
    for obj, base in pairs:
        oe = object_edges(obj)
        def node(sym):
            for cand in (base + ":" + sym, sym):
                if cand in names:
                    return cand
            for m in re.finditer(r"[CD][01]E", sym):      # C1/D1/D0 aliases of C2/D2
                twin = sym[:m.start() + 1] + "2" + sym[m.start() + 2:]
                for cand in (base + ":" + twin, twin):
                    if cand in names:
                        return cand
            return None
        for f, (tg, nind) in oe.items():
            nf = node(f)
            if nf is None or nf not in R or nf not in G["direct"]:
                continue
            checked += 1
            succ = set(G["direct"][nf])
            succ |= set(alias.get(x, x) for x in succ)
            for t in tg:
                nt = node(t)
                if nt == nf and nt is not None:
                    continue
                if t.startswith(".text"):
                    continue                      # section-relative jump into the function's own cold part
                if nt is None or (nt not in succ and alias.get(nt) not in succ):
                    bad.append("object code of %s calls %s, which is not an edge of the .ci graph" % (G["dem"][nf], t))
            ci_ind = sum(1 for a, s, r in G["sites"] if a == nf)
            if nind > ci_ind:
                bad.append("object code of %s has %d indirect call instruction(s), the .ci graph %d" % (G["dem"][nf], nind, ci_ind))
    return bad, checked

def vtable_check(G, pairs, classes=("_ZTVN5rtosc6RtDataE", "_ZTVN3c0311CaptureDataE")):
    """The VIRT rule against the compiled vtables: every function a vtable of
    rtosc::RtData / c03::CaptureData points to (destructors aside) must be a VIRT
    target.  Functions folded by identical-code-folding are found through the
    object's symbol table (same section, same address)."""
    names, virt = set(G["names"]), set(G["virt"])
    bad, seen = [], 0
    # symbols that share an address in the object that defines them
    at, where, baseof = {}, {}, {}
    for obj, base in pairs:
        sym = subprocess.run(["objdump", "-t", obj], stdout=subprocess.PIPE).stdout.decode("utf-8", "replace")
        for line in sym.split("\n"):
            m = re.match(r"^([0-9a-f]+) .{7} (\S+)\s+[0-9a-f]+\s+(\S+)$", line)
            if m and " F " in line and m.group(2) != "*UND*":
                k = (obj, m.group(2), m.group(1))
                at.setdefault(k, []).append(m.group(3))
                where.setdefault(m.group(3), k)
                baseof.setdefault(m.group(3), base)
    for obj, base in pairs:
        rel = subprocess.run(["objdump", "-r", obj], stdout=subprocess.PIPE).stdout.decode("utf-8", "replace")
        blocks = re.split(r"RELOCATION RECORDS FOR \[([^\]]*)\]:", rel)
        for i in range(1, len(blocks) - 1, 2):
            sec, body = blocks[i], blocks[i + 1]
            if not any(sec.endswith("." + c) for c in classes):
                continue
            for m in re.finditer(r"R_X86_64_64\s+([^\s+]+)", body):
                f = m.group(1)
                if f.startswith("_ZTI") or re.search(r"D[012]Ev$", f) or f == "__cxa_pure_virtual":
                    continue
                seen += 1
                cands = [f] + at.get(where.get(f), [])
                nodes = [c for x in cands for c in (baseof.get(x, base) + ":" + x, x) if c in names]
                if not any(n in virt for n in nodes):
                    bad.append("%s points to %s, which is not a target of rule VIRT" % (sec.rsplit(".", 1)[-1], f))
    if seen < 10:
        bad.append("only %d vtable entries of RtData/CaptureData found" % seen)
    return bad, seen

# ---------------------------------------------------------------------------
def clean(s):
    return s.replace("(*", "( *").replace("*)", "* )").replace('"', "'")

def emit_coq(G, path, origin):
    num = {n: i + 1 for i, n in enumerate(G["names"])}
    def nl(xs):
        return "[" + "; ".join(str(num[x]) for x in xs) + "]"
    def gr(d):
        rows = ["  (%d, %s)" % (num[a], nl(d[a])) for a in sorted(d, key=lambda x: num[x])]
        return "[\n" + ";\n".join(rows) + "\n]"
    w = []
    w.append("(* GENERATED on every check by tools/callgraph.py - do not edit, not under version control.")
    w.append("   Origin: %s" % clean(origin))
    w.append("   GCC's post-optimisation call graph (-O2 -g -DNDEBUG -fcallgraph-info) of the rtosc")
    w.append("   library and of harness/h_C03_sugar.cpp, as numbered nodes. *)")
    w.append("From Coq Require Import List NArith.")
    w.append("From RtoscV Require Import RtGraph.ReachModel.")
    w.append("Import ListNotations.")
    w.append("Local Open Scope N_scope.")
    w.append("")
    w.append("(* one entry per function defined in the analysed code: its direct callees *)")
    w.append("Definition direct : graph := %s." % gr(G["direct"]))
    w.append("")
    w.append("(* resolution of the indirect call sites (rules FN and VIRT, see the end of the file) *)")
    w.append("Definition indirect_table : graph := %s." % gr(G["table"]))
    w.append("")
    w.append("(* abort-only edges that are left out, and the only targets they may have *)")
    w.append("Definition excluded : list (N * N) := [%s]." % "; ".join("(%d, %d)" % (num[a], num[b]) for a, b in G["excluded"]))
    w.append("Definition abort_only : list N := %s." % nl(G["abort_only"]))
    w.append("")
    w.append("Definition entry_groups : list (N * list N) := [\n%s\n]." %
             ";\n".join("  (%d, %s)" % (g, nl(G["groups"][g])) for g in sorted(G["groups"])))
    w.append("Definition entries : list N := %s." % nl(G["entries"]))
    w.append("Definition forbidden : list N := %s." % nl(G["forbidden"]))
    w.append("Definition allowed_external : list N := %s." % nl(G["allowed"]))
    w.append("Definition unresolved_indirect : N := %d." % num["__unresolved_indirect_call"])
    w.append("Definition dispatch_entry : N := %d." % num[G["dispatch"]])
    wp = find_path(G, [G["dispatch"]], ["rtosc_amessage"]) or [G["dispatch"]]
    w.append("(* %s *)" % clean(" -> ".join(G["dem"][x] for x in wp)))
    w.append("Definition witness_path : list N := %s." % nl(wp))
    w.append("Definition witness_target : N := %d." % num[wp[-1]])
    w.append("")
    w.append("(* ---- symbol table ---------------------------------------------------")
    fs, es = set(G["forbidden"]), set(G["entries"])
    ds, al = set(G["defined"]), set(G["allowed"])
    for n in G["names"]:
        tags = []
        if n in es: tags.append("ENTRY")
        if n in fs: tags.append("FORBIDDEN")
        if n in al: tags.append("allowed-external")
        if n not in ds: tags.append("external")
        w.append("%5d  %s  |  %s  %s" % (num[n], clean(n), clean(G["dem"][n]), " ".join(tags)))
    w.append("")
    w.append("---- indirect call sites -------------------------------------------------")
    for a, site, rule in sorted(set(G["sites"])):
        w.append("%-10s in %s  at %s" % (rule, clean(G["dem"][a]), clean(site)))
    w.append("")
    w.append("FN   -> the %d std::function handlers of h_C03_sugar.cpp" % len(G["handlers"]))
    w.append("VIRT -> " + clean(", ".join(G["dem"][v] for v in G["virt"])))
    w.append("")
    w.append("---- constructor/destructor alias stubs (C1/D1 -> C2/D2) --------------------")
    for a, b in G["aliases"]:
        w.append("  %s -> %s" % (clean(a), clean(b)))
    w.append("")
    w.append("---- excluded abort-only edges and their preconditions ---------------------")
    for t, why in ABORT_ONLY.items():
        w.append("%s: %s" % (t, why))
    for a, b in G["excluded"]:
        w.append("  excluded: %s -> %s" % (clean(G["dem"][a]), clean(G["dem"][b])))
    w.append("*)")
    txt = "\n".join(w) + "\n"
    if not os.path.exists(path) or open(path).read() != txt:
        os.makedirs(os.path.dirname(path), exist_ok=True)
        open(path, "w").write(txt)
    return num

# ---------------------------------------------------------------------------
def generate(ctx):
    """Build the call-graph variant of the library + the sugar TU, translate,
    write coq/RtGraph/Graph_gen.v and _work/C03/graph.json.  Returns the graph dict."""
    import vcheck
    log = ctx["log"]
    lib, d = ctx["build_lib"]("cgraph", log)
    src = os.path.join(ctx["VERIF"], "harness", "h_C03_sugar.cpp")
    hh = hashlib.sha256(open(src, "rb").read() +
                        open(os.path.join(ctx["VERIF"], "harness", "h_C03_sugar.h"), "rb").read()).hexdigest()[:12]
    sdir = os.path.join(d, "sugar")
    base = os.path.join(sdir, "h_C03_sugar_%s" % hh)
    if not os.path.exists(base + ".ci"):
        import shutil
        shutil.rmtree(sdir, ignore_errors=True)
        os.makedirs(sdir)
        cmd = (["g++", "-std=c++17"] + vcheck.VARIANTS["cgraph"] + [vcheck.GUARD, "-w",
               "-I" + os.path.join(ctx["REPO"], "include"), "-I" + os.path.join(ctx["VERIF"], "harness"),
               "-c", src, "-o", base + ".o"])
        rc, out, err = ctx["sh"](cmd, cwd=sdir, timeout=600)
        if rc != 0:
            raise ctx["BuildError"]("compiling h_C03_sugar.cpp with -fcallgraph-info failed:\n" + err[-3000:])
    missing = sugar_coverage(os.path.join(ctx["REPO"], "include", "rtosc", "port-sugar.h"), src)
    if missing:
        raise ctx["BuildError"]("port-sugar.h defines callback macro(s) %s that harness/h_C03_sugar.cpp does not "
                                "instantiate: their lambdas would be missing from the call graph" % missing)
    ci = sorted(glob.glob(os.path.join(d, "*.ci")))
    if len(ci) < 20:
        raise ctx["BuildError"]("only %d .ci files next to the cgraph library" % len(ci))
    try:
        G = translate(ci + [base + ".ci"], base + ".ci")
    except TranslatorError as e:
        raise ctx["BuildError"]("call-graph translator: %s" % e)
    pairs = []
    for c in ci + [base + ".ci"]:
        first = open(c, errors="replace").readline()
        m = re.match(r'graph: \{ title: "([^"]*)"', first)
        pairs.append((c[:-3] + ".o", os.path.basename(m.group(1)) if m else ""))
    bad, checked = objcheck(G, pairs)
    vbad, vseen = vtable_check(G, pairs)
    bad += vbad
    # the dynamic harness links the 'plain' variant: its code must be the code analysed here
    same = 0
    try:
        plib, pd = ctx["build_lib"]("plain", log)
        for o in sorted(glob.glob(os.path.join(d, "*.o"))):
            po = os.path.join(pd, os.path.basename(o))
            def text(f):
                q = subprocess.run(["objdump", "-dr", "--no-show-raw-insn", f], stdout=subprocess.PIPE)
                return b"\n".join(q.stdout.split(b"\n")[2:])
            if not os.path.exists(po) or text(o) != text(po):
                bad.append("object code of %s differs between the analysed (cgraph) and the driven (plain) build" % os.path.basename(o))
            else:
                same += 1
    except Exception as e:                          # pragma: no cover
        bad.append("could not compare the plain and cgraph builds: %s" % e)
    G["objcheck"] = {"functions_checked": checked, "vtable_entries_checked": vseen, "objects_identical_to_plain_build": same, "discrepancies": bad}
    origin = "%s (content hash %s), %d .ci files" % (ctx["REPO"], vcheck.repo_hash(), len(ci) + 1)
    num = emit_coq(G, os.path.join(ctx["COQ"], "RtGraph", "Graph_gen.v"), origin)
    G["num"] = num
    wd = os.path.join(ctx["WORK"], "C03")
    os.makedirs(wd, exist_ok=True)
    json.dump({k: v for k, v in G.items() if k != "sites"} | {"sites": [list(s) for s in G["sites"]]},
              open(os.path.join(wd, "graph.json"), "w"))
    return G

if __name__ == "__main__":
    # stand-alone: python3 tools/callgraph.py  (uses $VERIF_REPO like vcheck)
    sys.path.insert(0, os.path.dirname(os.path.abspath(__file__)))
    import vcheck
    ctx = dict(log=lambda s: print(s), VERIF=vcheck.VERIF, REPO=vcheck.REPO, WORK=vcheck.WORK, COQ=vcheck.COQ,
               sh=vcheck.sh, build_lib=vcheck.build_lib, BuildError=vcheck.BuildError)
    G = generate(ctx)
    print("%d nodes (%d defined), %d entries, %d forbidden, %d indirect sites" %
          (len(G["names"]), len(G["defined"]), len(G["entries"]), len(G["forbidden"]), len(G["sites"])))
    R = reachable(G, G["entries"])
    print("%d reachable from the entries" % len(R))
    for x in sorted(R):
        if x not in set(G["defined"]):
            print("  external reached:", x, "(allowed)" if x in G["allowed"] else "(NOT allowed)")
    for dgn in diagnose(G):
        print(json.dumps(dgn, indent=1))
    print("object-code cross-check:", json.dumps(G["objcheck"], indent=1))
