#!/usr/bin/env python3
"""setup_cmd: full .vo build of the Coq development (never -vos), extraction +
OCaml drivers for every property plug-in, and the library variants built from
/repo's current tree.  Offline; everything lands under /verif/_work or coq/."""
import os, sys, subprocess, time
sys.path.insert(0, os.path.dirname(os.path.abspath(__file__)))
import vcheck

def main():
    t0 = time.time()
    bad = vcheck.grep_gate()
    if bad:
        print("gate:", bad); sys.exit(1)
    log = lambda s: print("[setup %.0fs] %s" % (time.time() - t0, s), flush=True)
    # plug-ins with a pre_proofs hook regenerate Coq sources (C03: the call graph,
    # coq/RtGraph/Graph_gen.v, which is not under version control) before the build
    import importlib
    for f in sorted(os.listdir(os.path.join(vcheck.VERIF, "tools", "props"))):
        if f.endswith(".py") and f[0] == "C":
            plug = importlib.import_module("props." + f[:-3])
            if hasattr(plug, "pre_proofs"):
                ctx = dict(pid=f[:-3], tier="quick", seed=1, log=log, VERIF=vcheck.VERIF, REPO=vcheck.REPO,
                           WORK=vcheck.WORK, COQ=vcheck.COQ, sh=vcheck.sh, build_lib=vcheck.build_lib,
                           build_harness=vcheck.build_harness, run_lines=vcheck.run_lines,
                           check_proofs=vcheck.check_proofs, build_driver=vcheck.build_driver,
                           NCPU=vcheck.NCPU, BuildError=vcheck.BuildError)
                try:
                    plug.pre_proofs(ctx)
                except vcheck.BuildError as e:
                    print("pre_proofs of %s: %s" % (f[:-3], str(e)[-600:]))
    vcheck.ensure_coq_makefile()
    rc = subprocess.call(["timeout", "3400", "make", "-j%d" % vcheck.NCPU], cwd=vcheck.COQ)
    if rc != 0:
        print("coq build failed"); sys.exit(1)
    props = sorted(f[:-3] for f in os.listdir(os.path.join(vcheck.VERIF, "tools", "props"))
                   if f.endswith(".py") and f[0] == "C")
    variants = set()
    import importlib
    for p in props:
        plug = importlib.import_module("props." + p)
        variants.add(getattr(plug, "VARIANT", "asan"))
        d = getattr(plug, "DRIVER", p)
        if os.path.isdir(os.path.join(vcheck.VERIF, "ocaml", d)):
            vcheck.build_driver(d, log)
            log("driver %s" % d)
    for v in sorted(variants):
        vcheck.build_lib(v, log)
    log("setup done")

if __name__ == "__main__":
    main()
