#!/usr/bin/env python3
"""runall.py [quick|thorough] [ID ...]: run every registered check (or the
named ones) one after the other on /repo's current tree and print a summary.
Never run two of these at once in one checkout."""
import sys, os, json, subprocess, time
V = os.path.dirname(os.path.dirname(os.path.abspath(__file__)))
tier = sys.argv[1] if len(sys.argv) > 1 and sys.argv[1] in ("quick", "thorough") else "quick"
ids = [a for a in sys.argv[1:] if a not in ("quick", "thorough")]
man = json.load(open(os.path.join(V, "MANIFEST.json")))
bad = 0
for c in man["checks"]:
    pid = c["property_id"]
    if ids and pid not in ids:
        continue
    t0 = time.time()
    p = subprocess.run(["python3", os.path.join(V, "tools", "vcheck.py"), pid, "--tier", tier], cwd=V,
                       stdout=subprocess.PIPE, stderr=subprocess.STDOUT)
    out = p.stdout.decode("utf-8", "replace")
    last = [l for l in out.split("\n") if "ran " in l or "proofs" in l]
    kf = sum(1 for l in out.split("\n") if l.startswith("KNOWN-FINDING"))
    print("%s exit=%d %5.0fs known=%d | %s" % (pid, p.returncode, time.time() - t0, kf,
                                               " | ".join(l.split("] ", 1)[-1] for l in last)[:200]), flush=True)
    if p.returncode != 0:
        bad += 1
        print("\n".join(out.split("\n")[-8:]))
sys.exit(1 if bad else 0)
