#!/usr/bin/env python3
"""seed_eval.py <tester_out_dir> <k> <ID> [more IDs]: confirm a seeded change
(tests pass, demo passes without / fails with) in a scratch worktree, then run
the named checks against /repo with the patch applied and undo it.  Writes
/verif/seeded/<ID>-<k>/ (patch.diff, demo, build.sh, meta.json)."""
import sys, os, json, subprocess, shutil, re, time
V = os.path.dirname(os.path.dirname(os.path.abspath(__file__)))
def sh(cmd, **kw):
    p = subprocess.run(cmd, shell=True, stdout=subprocess.PIPE, stderr=subprocess.STDOUT, **kw)
    return p.returncode, p.stdout.decode("utf-8", "replace")
out, k, ids = sys.argv[1], sys.argv[2], sys.argv[3:]
src = os.path.join(out, k)
pid = ids[0]
dst = os.path.join(V, "seeded", "%s-%s%s" % (pid, os.environ.get("SEED_TAG", ""), k))
os.makedirs(dst, exist_ok=True)
for f in os.listdir(src):
    shutil.copy(os.path.join(src, f), dst)
meta = json.load(open(os.path.join(src, "meta.json")))
wt = "/tmp/seval_%s_%s" % (pid, k)
sh("git -C /repo worktree remove --force %s" % wt)
rc, o = sh("git -C /repo worktree add -q --detach %s" % wt)
ran = []
def demo(tag):
    b = open(os.path.join(src, "build.sh")).read()
    orig = re.search(r"/tmp/s_%s\b" % pid, b)
    b = re.sub(r"/tmp/s_%s(?!_out)" % pid, wt, b)
    open(os.path.join(src, "_seval_build.sh"), "w").write(b)
    rc, o = sh("cd %s && sh ./_seval_build.sh" % src, timeout=600)
    os.remove(os.path.join(src, "_seval_build.sh"))
    exes = [f for f in os.listdir(src) if os.access(os.path.join(src, f), os.X_OK) and not f.endswith(".sh")]
    exe = None
    for cand in ("demo", "a.out"):
        if cand in exes: exe = cand
    if exe is None and exes: exe = exes[0]
    if rc != 0 or exe is None:
        return "build-failed: " + o[-300:]
    rc2, o2 = sh("cd %s && ./%s" % (src, exe), timeout=120)
    os.remove(os.path.join(src, exe))
    return rc2
r0 = demo("unchanged")
ran.append("demo on unchanged tree: exit %s" % r0)
rc, o = sh("git -C %s apply %s" % (wt, os.path.join(src, "patch.diff")))
ran.append("git apply: rc %s %s" % (rc, o[-200:]))
rc, o = sh("cmake -G Ninja -S %s -B %s_b -DCMAKE_BUILD_TYPE=RelWithDebInfo >/dev/null && cmake --build %s_b >/dev/null 2>&1 && ctest --test-dir %s_b -j8 --timeout 900 | tail -3" % (wt, wt, wt, wt), timeout=1200)
tests_ok = "100% tests passed, 0 tests failed out of 31" in o
ran.append("31 tests with the change: %s" % ("all pass" if tests_ok else o[-300:]))
r1 = demo("changed")
ran.append("demo with the change: exit %s" % r1)
sh("rm -rf %s_b; git -C /repo worktree remove --force %s" % (wt, wt))
confirmed = (r0 == 0 and r1 not in (0,) and not str(r1).startswith("build-failed") and tests_ok)
det = {}
if confirmed:
    rc, o = sh("git -C /repo apply %s" % os.path.join(src, "patch.diff"))
    try:
        for cid in ids:
            for tier in ("quick", "thorough"):
                if tier == "thorough" and cid != ids[0] and any(v["exit"] != 0 for v in det.values()):
                    continue        # somebody caught it already: related checks only in the quick tier
                t0 = time.time()
                rc, o = sh("cd %s && python3 tools/vcheck.py %s --tier %s" % (V, cid, tier), timeout=3600)
                viol = [l for l in o.split("\n") if l.startswith("VIOLATION")]
                det["%s/%s" % (cid, tier)] = {"exit": rc, "violation_lines": viol[:3], "secs": round(time.time() - t0)}
                if rc != 0:
                    # keep the replay text
                    m = re.search(r"replay=(\S+)", viol[0]) if viol else None
                    if m and os.path.exists(m.group(1)):
                        det["%s/%s" % (cid, tier)]["replay"] = json.load(open(m.group(1)))
                    break
    finally:
        sh("git -C /repo checkout -- .")
    # the runs above rewrote evidence/<ID>.json from a patched tree: restore it
    # from the clean tree so that a stale failing record is never committed
    for cid in ids:
        sh("cd %s && python3 tools/vcheck.py %s --tier quick" % (V, cid), timeout=3600)
    sh("find %s/evidence/replays -name '*.json' -delete" % V)
meta.update({"confirmed_by_integrator": confirmed, "integrator_ran": ran, "detection": det,
             "caught": any(v["exit"] != 0 for v in det.values())})
json.dump(meta, open(os.path.join(dst, "meta.json"), "w"), indent=1)
print(pid, k, "confirmed" if confirmed else "NOT-CONFIRMED", ran[-3:], {a: (b["exit"], b["violation_lines"][:1]) for a, b in det.items()})
