"""C12 plug-in: savefiles restore the saved state and contain only differences
from defaults.  (Interface: see props/C17.py.)  The application family, its
three renderings and the Python reference semantics are in save_common.py."""
from props import save_common as sc

HARNESS = ["h_C12.cpp"]
VARIANT = "asan"
DRIVER = "C12"
TIMEOUT = 1500

RULE = ("generated applications (3 levels; per level a random subset of char/int/float/toggle/option/string "
        "parameters and int/float/toggle/option #N arrays with run-time ranges, defaults, option maps; embedded, "
        "enumerated (#3) and pointer sub-trees; preset selectors with dependent defaults; toggles that allocate / free "
        "a pointer sub-tree; enabled-by on embedded sub-trees in its three forms: sibling toggle, toggle inside the sub-tree, rSelf) x states reached by 0..14 random parameter messages "
        "(in range, at and beyond each bound, type extremes, symbols, strings with quotes/newlines/%/backslashes); "
        "every 5th application is a HISTORY on one instance: messages, save, more messages (a preset selector moved to another "
        "entry of its table, one of its dependents put back on the old entry's default), save again - two or three saves, each file "
        "judged against the state at that moment and loaded into a fresh instance; around every save get_changed_values is called "
        "twice and get_default_value directly for every existing port (forwards and backwards); every 9th application has port names "
        "of 18..34 characters (addresses of 20..105 columns: the saved line breaks right behind its address); rSelf(.., rEnabledBy) "
        "also on the root table; "
        "plus hand-written files with a wrong header, another application name, an unparsable line, a line no port "
        "accepts.  Non-trivial = at least 2 saved lines (history: at least 2 non-empty files) or a rejected file.")
TRUSTED = ["harness/h_C12.cpp + h_C12_app.h + h_C12_node.inc: the application family (macro-generated callbacks, run-time "
           "port tables, rChangeCb hook for preset selectors and pointer sub-tree toggles), the state dump, the use of the "
           "library's own scanner (rtosc_scan_message + arg-val iterator) to read the saved lines back",
           "tools/props/save_common.py: rendering of one abstract application as port tables (harness), flat port list and "
           "apropos table (model), and the Python reference semantics used by the Spec oracle",
           "ocaml/C12/driver.ml pt_of_case: the case's port tree as a TreeApp.pt (names and structure from the tree field, leaf "
           "data from the flat application)",
           "C10's float text model (FloatFmt.fmt_f / fmt_a = glibc's printf, tied by C10 and, for the saved bodies, by the body= comparison here)"]
ASSUMPTIONS = ["the application is well formed: defaults inside the declared range, a preset selector has a plain default, "
               "sibling names are prefix-free, float defaults are written as exact decimals, no NaN (a NaN compares unequal to itself, "
               "\"the same state\" is not defined for it; C14 records that a NaN is stored whatever the range)",
               "float parameters hold finite values and option parameters a number inside their declared range: states with +-inf "
               "or an out-of-range option number (unknown symbol: INT_MIN) are generated (every 10th application) and fail - finding "
               "classes nonfinite-float, option-outside-range",
               "state = the parameters the walk reaches (parameters below a switched-off enabled-by toggle are not part of it)"]

def one_app(rng, tier, dist, opts=None):
    app = sc.gen_app(rng, opts or {})
    ref = sc.Ref(app)
    return app, ref

_DIST = {}

def count_cond(line, dist):
    """the model driver evaluates the theorems' side conditions for every case (Save/CondModel.v: wf_app_b,
    full_conditions_b, ranked_b; Save/LinesModel.v: good_line_b) and prints them in the fields cond= / cls=;
    they are counted into the evidence's input distribution (vcheck keeps the dict gen() was given)"""
    kv = sc.kv_fields(line)
    c = kv.get("cond", "-")
    if c == "-":
        return
    dist["cases with conditions evaluated"] = dist.get("cases with conditions evaluated", 0) + 1
    for t in c.split(","):
        name = {"wf": "wf_app holds", "full": "full_conditions holds", "rk": "dependency edges acyclic (ranked)",
                "ds": "defaults_stable holds", "mo": "every message of the history is msg_ok"}.get(t[:-1], t[:-1])
        if t.endswith("1"):
            dist[name] = dist.get(name, 0) + 1
    cl = kv.get("cls", "-")
    if "/" in cl:
        g, t = cl.split("/")
        dist["saved lines"] = dist.get("saved lines", 0) + int(t)
        dist["saved lines in good_line"] = dist.get("saved lines in good_line", 0) + int(g)
        if g == t:
            dist["cases with every saved line in good_line"] = dist.get("cases with every saved line in good_line", 0) + 1

def gen(rng, tier, dist):
    global _DIST
    _DIST = dist
    n = 1500 if tier == "quick" else 20000
    out = list(sc.macro_cases())
    dist["macro-made metadata blocks"] = len(out)
    for c in range(n):
        opts = {"p_soft": 0.3 if rng.random() < 0.3 else 0.0, "p_rdep": 0.2,
                # the inner-switch ("child/toggle") and rSelf forms of "enabled by" (save_common.gen_level;
                # D30 / D32 fixed, D31 = cyclic metadata: notes/C12.md stage 4)
                "p_inner": 0.4 if rng.random() < 0.3 else 0.0, "p_self": 0.4 if rng.random() < 0.25 else 0.0,
                # rSelf(.., rEnabledBy(x)) on the root table itself
                "p_self0": 0.5 if c % 8 == 5 else 0.0}
        if c % 9 == 4:
            # long port names: addresses of 20..105 columns (a saved line breaks right behind the address)
            opts["long_names"] = True
            opts["p_sub"], opts["p_arr"] = 0.8, 0.6
        if c % 12 == 11:
            app = sc.static_app()         # the macro-made application
            ref = sc.Ref(app)
        else:
            app, ref = one_app(rng, tier, dist, opts)
        tree, flat, apro = app.tree(), sc.flat_text(ref.flat), sc.apro_text(app, ref.flat, ref.dirs)
        r = rng.random()
        if c % 5 == 2 and ref.flat:
            # one instance saved two or three times, with messages (changes of preset selectors among them) in between
            out.append(gen_hist(rng, app, ref, tree, flat, apro, dist))
        elif r < 0.8 or not ref.flat:
            nops = rng.choice([0, 1, 2, 3, 5, 8, 14])
            # every 10th application also receives messages whose states the file does not carry: +-inf
            # on float ports, a symbol outside the map on a scalar option port (finding classes, see classify)
            exotic = 0.15 if c % 10 == 3 else 0.0
            ops, mops = sc.gen_ops(rng, ref, nops, exotic=exotic, fill=0.9 if opts.get("long_names") else 0.3)
            if opts.get("long_names"):
                dist["save: application with long port names"] = dist.get("save: application with long port names", 0) + 1
            if exotic:
                dist["save with non-finite floats / unknown option symbols among the messages"] = \
                    dist.get("save with non-finite floats / unknown option symbols among the messages", 0) + 1
            out.append("save %s %s %s %s %s" % (tree, flat, ops, apro, mops))
            dist["save ops=%d" % nops] = dist.get("save ops=%d" % nops, 0) + 1
            dist["ports"] = dist.get("ports", 0) + len(ref.flat)
        else:
            kind, line = gen_rej(rng, app, ref, tree, flat, apro)
            out.append(line)
            dist["rej " + kind] = dist.get("rej " + kind, 0) + 1
    return out

# ---------------------------------------------------------------------------
# histories on ONE instance: messages, save, more messages, save again (twice or three times).  Every
# saved file is judged against the state at that moment and loaded into a fresh instance; between the
# saves a preset selector is moved to another entry of its table and (half of the time) one of its
# dependents is put back on the default the OLD entry selects - a parameter that differs from its
# current default and would be left out by a save that still selects the old one.  Behind every save
# get_default_value() is asked directly for the ports that exist (harness: forwards, then backwards).
def msg_of(p, x):
    ek = p.elem_kind()
    if ek == "t":
        return ("T" if x else "F", None)
    if ek == "f":
        return ("f", x)
    if ek == "c":
        return ("c", x)
    if ek == "s":
        return ("s", bytes(x))
    return ("i", x)

def gen_hist(rng, app, ref, tree, flat, apro, dist):
    F = ref.flat
    sels = sorted({fp.sel for fp in F if fp.sel is not None})
    nseg = rng.choice([2, 2, 3])
    all_ops, all_mops, all_ask = [], [], []
    moved = 0
    for k in range(nseg):
        ops, mops = [], []
        def put(i, kk, v):
            path = F[i].path + (str(kk) if F[i].leaf.is_array() else "")
            ops.append(sc.op_text(path, v))
            mops.append(sc.mop_text(i, kk, v))
            ref.send(i, kk, v)
        cand = [x for x in sels if ref.exists(x)]
        if k > 0 and cand and rng.random() < 0.85:
            x = rng.choice(cand)
            p = F[x].leaf
            deps = [j for j, fq in enumerate(F) if fq.sel == x]
            keys = sorted({kk for j in deps for kk in F[j].leaf.presets})
            cur = ref.st[x][0]
            vals = [v for v in set(keys + [keys[-1] + 1, p.default[0]]) if v != cur
                    and (p.min is None or v >= p.min) and (p.max is None or v <= p.max)] if keys else []
            if vals:
                old = {j: ref.default_of(j) for j in deps}
                put(x, 0, ("i", rng.choice(sorted(vals))))
                moved += 1
                if rng.random() < 0.5:
                    j = rng.choice(deps)
                    if ref.exists(j) and old[j] != ref.default_of(j):
                        for kk, xv in enumerate(old[j]):
                            put(j, kk, msg_of(F[j].leaf, xv))
        nops = rng.choice([0, 1, 2, 3, 5, 8]) if k == 0 else rng.choice([0, 0, 1, 2, 4])
        o2, m2 = sc.gen_ops(rng, ref, nops, fill=0.1 if k == 0 else 0.0)
        if o2 != "-":
            ops += o2.split(";")
            mops += m2.split(";")
        live = [i for i in range(len(F)) if ref.exists(i)]
        if len(live) > 14:
            keep = set(rng.sample(live, 10)) | {i for i in live if F[i].sel is not None}
            live = [i for i in live if i in keep]
        all_ask.append(",".join(sc.hx(F[i].path + ("0" if F[i].leaf.is_array() else "")) for i in live) or "-")
        all_ops.append(";".join(ops) or "-")
        all_mops.append(";".join(mops) or "-")
    dist["hist saves=%d" % nseg] = dist.get("hist saves=%d" % nseg, 0) + 1
    dist["hist: selector moved between two saves"] = dist.get("hist: selector moved between two saves", 0) + moved
    return "hist %s %s %s %s %s %s" % (tree, flat, "!".join(all_ops), apro, "!".join(all_mops), "!".join(all_ask))

# ---------------------------------------------------------------------------
# hand-written files (the generator knows every byte)
def line_text(rng, ref, i):
    """(text, abstract item, effect) of a hand-written message line for port i"""
    fp = ref.flat[i]
    p = fp.leaf
    ek = p.elem_kind()
    def one():
        if ek == "i":
            v = rng.randint(-20, 20)
            return "%d" % v, "i%d" % v
        if ek == "c":
            v = rng.randint(97, 122)
            return "'%c'" % v, "c%d" % v
        if ek == "f":
            x = sc.nice_float(rng)
            return "%.3f" % x, "f" + sc.fbits(sc.f2b(x))
        if ek == "t":
            b = rng.choice([True, False])
            return ("true" if b else "false"), ("T" if b else "F")
        if ek == "o":
            n, s = rng.choice(p.opts)
            return (s, "S" + sc.hx(s)) if rng.random() < 0.5 else ("%d" % n, "i%d" % n)
        if ek == "s":
            s = bytes(rng.choice(b"abc xyz09") for _ in range(rng.randint(0, 5)))
            return '"%s"' % s.decode(), "s" + sc.hx(s)
    if p.is_array():
        k = rng.randint(1, p.n)
        parts = [one() for _ in range(k)]
        if ek == "o":        # one spelling per line (a mixed array is not in the syntax)
            sym = rng.random() < 0.5
            parts = []
            for _ in range(k):
                n, s = rng.choice(p.opts)
                parts.append((s, "S" + sc.hx(s)) if sym else ("%d" % n, "i%d" % n))
        return fp.path + " [" + " ".join(t for t, _ in parts) + "]", "1", ":".join(v for _, v in parts)
    t, v = one()
    return fp.path + " " + t, "0", v

def gen_rej(rng, app, ref, tree, flat, apro):
    import re
    vers = "0.3.1"
    h1 = "% RT OSC v" + vers + " savefile"
    h2 = "% verifapp v1.2.3"
    appname = "verifapp"
    kind = rng.choice(["ok", "ok", "hdr", "hdrver", "app", "appname", "junk", "unmatched", "unmatched", "argtype", "arrlen"])
    nl = rng.choice([0, 1, 2, 3, 5])
    idx = [rng.randrange(len(ref.flat)) for _ in range(nl)]
    seen, lines = set(), []
    for i in idx:
        if i in seen:
            continue
        seen.add(i)
        lines.append(line_text(rng, ref, i))
    body = [(t, "m,%s,%s,%s" % (sc.hx(t.split(" ")[0]), arr, vals)) for t, arr, vals in lines]
    if kind == "hdr":
        h1 = rng.choice(["% NOT AN RT OSC v0.0.1 savefile", "% RT OSC savefile", "RT OSC v0.0.1 savefile", "", "% RT OSC v0.0.1 savefil"])
    elif kind == "hdrver":
        h1 = "% RT OSC v0.300.1 savefile"
    elif kind == "app":
        h2 = rng.choice(["verifapp v1.2.3", "% verifapp 1.2.3", "% verifapp v1.2", "%"])
    elif kind == "appname":
        if rng.random() < 0.5:
            h2 = "% otherapp v1.2.3"
        else:
            appname = rng.choice(["verifap", "verifapp2", "Verifapp"])
    elif kind == "junk":
        body.insert(rng.randint(0, len(body)), (rng.choice(["/x $1", "$", "/a [1 2", "/b 'ab'", "/vol 1 2 $"]), "j"))
    elif kind == "unmatched":
        body.insert(rng.randint(0, len(body)), (rng.choice(["/nosuchport 1", "/zz/q true", "/none"]), "u"))
    elif kind == "arrlen":
        # an array line with one element more than the port has: the message for index N reaches no port
        arrs = [i for i, fp in enumerate(ref.flat) if fp.leaf.is_array() and i not in seen and not fp.hard]
        if arrs:
            i = rng.choice(arrs)
            p = ref.flat[i].leaf
            for _ in range(50):
                t, arr, vals = line_text(rng, ref, i)
                if len(vals.split(":")) == p.n:
                    break
            if len(vals.split(":")) == p.n:
                extra_t, extra_v = t[t.index("[") + 1:-1].split(" ")[0], vals.split(":")[0]
                t = t[:-1] + " " + extra_t + "]"
                vals = vals + ":" + extra_v
                body.insert(rng.randint(0, len(body)), (t, "m,%s,%s,%s" % (sc.hx(t.split(" ")[0]), arr, vals)))
            else:
                kind = "ok"
        else:
            kind = "ok"
    elif kind == "argtype" and ref.flat:
        i = rng.randrange(len(ref.flat))
        p = ref.flat[i].leaf
        if i not in seen and not p.is_array():
            wrong = {"i": "1.5", "c": "1", "f": "true", "t": "3", "o": "2.5", "s": "7"}[p.elem_kind()]
            body.insert(rng.randint(0, len(body)), (ref.flat[i].path + " " + wrong, "w"))
        else:
            kind = "ok"
    # the bytes: header lines and body lines each end with '\n'
    text = h1 + "\n" + h2 + "\n" + "".join(t + "\n" for t, _ in body)
    # abstract file: what the two sscanf calls and the scanner consume
    m1 = re.match(r"\s*% RT OSC v(\d+)\.(\d+)\.(\d+) savefile", text)
    ok1 = m1 is not None and all(int(x) <= 255 for x in m1.groups()) and all(len(x) < 10 for x in m1.groups())
    a_h1 = "%d" % m1.end() if ok1 else "n"
    a_h2 = "n"
    if ok1:
        rest = text[m1.end():]
        m2 = re.match(r"\s*% (\S{1,127}) v(\d+)\.(\d+)\.(\d+)", rest)
        if m2 is not None and all(int(x) <= 255 for x in m2.groups()[1:]):
            a_h2 = "%s:%d" % (sc.hx(m2.group(1)), m2.end())
    items = []
    first = True
    for t, it in body:
        # rtosc_scan_message consumes the white space in front of a message, the
        # message and the white space behind it: the first message also takes
        # the line break that ends the header
        rd = len(t) + 1 + (1 if first else 0)
        if it == "j":
            # the arguments of a message run on to the next address: text that
            # does not start one spoils the message in front of it
            if not t.startswith("/") and items:
                items[-1] = "j"
            else:
                items.append("j")
        elif it == "u":
            f = t.split(" ")
            vals = "-" if len(f) == 1 else ("T" if f[1] == "true" else "i%s" % f[1])
            items.append("m,%s,0,%s,%d" % (sc.hx(f[0]), vals, rd))
        elif it == "w":
            f = t.split(" ")
            w = f[1]
            vals = {"1.5": "f3fc00000", "1": "i1", "true": "T", "3": "i3", "2.5": "f40200000", "7": "i7"}[w]
            items.append("m,%s,0,%s,%d" % (sc.hx(f[0]), vals, rd))
        else:
            items.append("%s,%d" % (it, rd))
        first = False
    absf = "%s;%s;%s" % (a_h1, a_h2, "+".join(items) if items else "-")
    return kind, "rej %s %s %s %s %s %s %s" % (tree, flat, text.encode("latin-1").hex(), appname, apro, absf, kind)

# ---------------------------------------------------------------------------
def canon(case, line):
    if line.startswith("TREEMODEL("):
        # the model driver evaluated the tree stages of Save/TreeApp.v for this case (flattening of the port
        # tree = the case's application, names_ok, walk with the runtime object = the live ports, the saved
        # lines dispatched on the tree = apply_line) and one of them does not hold: a disagreement
        return line[:200]
    if line.startswith("UNDECLARED "):
        # the model driver evaluated `declared a (apropos_of_tree root)` for this application and it does
        # not hold (hypothesis of C13_perm_invariant / C12's sorted pipeline): shown as a disagreement
        return line[:200]
    f = case.split(" ")
    if line.startswith("CRASH") or line.startswith("BADCASE") or line == "NOOUT":
        return line
    if f[0] == "hist":
        # one record per save; dv (get_default_value's text) is judged by the Spec oracle only
        save_case = " ".join(["save"] + f[1:])
        return " ## ".join(canon(save_case, r) + " cv=%s cv2=%s" % (
            "|".join(sorted(sc.kv_fields(r).get("cv", "-").split("|"))), sc.kv_fields(r).get("cv2"))
            for r in line.split(" ## "))
    count_cond(line, _DIST)
    kv = sc.kv_fields(line)
    if f[0] == "save" and state_classes(case, line)[0]:
        # the state holds a non-finite float: the printer's model (C10's FloatFmt) covers finite values only and
        # the abstract load works on scanned items, so only what leads up to the save is compared: the state
        # reached by the messages.  What the library does with the file is judged by the Spec oracle alone
        # (finding class nonfinite-float).
        return "hdr=%s A=%s (state with a non-finite float: print / scan not modelled)" % (
            kv.get("hdr"), ",".join(sorted(t for t in kv.get("A", "-").split(",") if not t.endswith("=NULL"))) or "-")
    def sort_dump(d):
        return ",".join(sorted(t for t in d.split(",") if not t.endswith("=NULL"))) or "-"
    if f[0] == "save":
        ret = kv.get("ret", "?")
        if ret.startswith("-"):
            ret = "NEG"
        # body = the text of the saved body line by line (hex, sorted): save_to_file's bytes against the
        # printer's model (C10's print_message with the default options, Save/LinesModel.v); cls is the
        # model's count of lines inside good_line_b and is not compared
        return "hdr=%s lines=%s ret=%s A=%s B=%s fresh=%s body=%s" % (
            kv.get("hdr"), "|".join(sorted(kv.get("lines", "-").split("|"))), ret,
            sort_dump(kv.get("A", "-")), sort_dump(kv.get("B", "-")), "|".join(sorted(kv.get("fresh", "-").split("|"))),
            kv.get("body", "-"))
    if f[0] == "rej":
        return "ret=%s B=%s" % (kv.get("ret"), sort_dump(kv.get("B", "-")))
    return line

def check_record(ref, kv):
    """one saved file against the state it was saved from (the A= dump) and the instance it was loaded into"""
    if kv.get("hdr") != "1":
        return "header: the savefile does not start with the two header lines"
    sa, fa = sc.state_from_dump(ref, kv["A"])
    sb, fb = sc.state_from_dump(ref, kv["B"])
    if fa or fb:
        return "memory: %s" % ",".join(fa + fb)
    d = sc.check_lines(ref, sa, kv["lines"])
    if d:
        return "minimal: " + d
    got = [] if kv["lines"] == "-" else kv["lines"].split("|")
    if kv["ret"] != "%d" % len(got):
        return "count: load_from_file returned %s for %d saved lines" % (kv["ret"], len(got))
    d = sc.states_equal(ref, sa, sb)
    if d:
        return "roundtrip: " + d
    if kv["fresh"] != "-":
        return "untouched: a default-initialised instance saves %s" % kv["fresh"][:200]
    return None

def check_entry_points(ref, kv, asked, metas):
    """the other entry points that consult defaults, called on the same instance: get_changed_values must list
    exactly the differing parameters (and the same text when called again), get_default_value must return
    the text of the port's `default <value of the port it depends on>` entry, else of its `default` entry"""
    sa, _ = sc.state_from_dump(ref, kv["A"])
    d = sc.check_lines(ref, sa, kv.get("cv", "-"))
    if d:
        return "minimal: get_changed_values: " + d
    if kv.get("cv2") != "1":
        return "minimal: get_changed_values gave another text when called again"
    if asked == "-":
        return None
    got = {}
    for t in kv.get("dv", "-").split(","):
        if ":" in t:
            a, v = t.split(":", 1)
            got[a] = v
    byaddr = {}
    for i, fp in enumerate(ref.flat):
        byaddr[sc.hx(fp.path + ("0" if fp.leaf.is_array() else ""))] = i
    for a in asked.split(","):
        i = byaddr[a]
        fp = ref.flat[i]
        m = metas.get((fp.path.count("/") - 1, fp.path.rsplit("/", 1)[1]))
        if m is None:
            return "crash: no metadata for %s in the case line" % fp.path
        want = None
        if fp.sel is not None and sa[fp.sel] is not None:
            want = m.get("default %d" % sa[fp.sel][0])
        if want is None:
            want = m.get("default")
        w = "N" if want is None else want.hex()
        if got.get(a) != w:
            g = got.get(a, "?")
            h = g.split("!")[0]
            shown = g if h in ("N", "?") else repr(bytes.fromhex(h)) + g[len(h):]
            return "minimal: get_default_value(%s) = %s, the metadata selects %r%s" % (
                fp.path, shown, want, "" if fp.sel is None else " (%s holds %r)" % (ref.flat[fp.sel].path, sa[fp.sel]))
    return None

def spec_check(case, impl):
    f = case.split(" ")
    if f[0] == "macro":
        return sc.macro_check(case, impl)
    if impl.startswith("CRASH") or impl == "NOOUT" or impl.startswith("BADCASE"):
        return "crash: " + impl[:300]
    kv = sc.kv_fields(impl)
    ref = sc.ref_from_flat(sc.parse_flat(f[2]))
    if f[0] == "save":
        return check_record(ref, kv)
    if f[0] == "hist":
        recs = impl.split(" ## ")
        asks = f[6].split("!")
        if len(recs) != len(f[3].split("!")):
            return "crash: %d records for %d saves" % (len(recs), len(f[3].split("!")))
        metas = sc.metas_of_tree(f[1])
        for n, r in enumerate(recs):
            kv = sc.kv_fields(r)
            d = check_record(ref, kv)
            if d is None:
                d = check_entry_points(ref, kv, asks[n], metas)
            if d:
                return d.split(":")[0] + ": (save %d of one instance) " % (n + 1) + d.split(":", 1)[1].strip()
        return None
    if f[0] == "rej":
        kind = f[7] if len(f) > 7 else "?"
        ret = int(kv["ret"])
        nmsgs = 0 if f[6].split(";")[2] == "-" else len(f[6].split(";")[2].split("+"))
        if kind == "ok":
            # every line addresses a port and carries a value it takes; whether the port EXISTS when the line's
            # turn comes (below a pointer sub-tree: only while its switch is on) is decided by running the lines
            # on the reference semantics in a dependency-respecting order (switches and selectors first)
            accepted = rej_all_accepted(ref, f[6].split(";")[2])
            if accepted and ret != nmsgs:
                return "accept: a well-formed file of %d lines gave %d" % (nmsgs, ret)
            if not accepted and ret >= 0:
                return "reject: a line below an absent pointer sub-tree was accepted (result %d)" % ret
        elif ret >= 0:
            return "reject: a file with a bad part (%s) was accepted with result %d" % (kind, ret)
        return None
    return None

def rej_all_accepted(ref, items):
    """the hand-written lines of a `rej` case applied to a default-initialised instance: True when every
    line reaches a port"""
    if items == "-":
        return True
    def scalar(t):
        if t in ("T", "F"):
            return (t, None)
        if t[0] in "ic":
            return (t[0], int(t[1:]))
        if t[0] == "f":
            return ("f", int(t[1:], 16))
        return (t[0], b"" if t[1:] in ("", "-") else bytes.fromhex(t[1:]))
    lines = []
    for it in items.split("+"):
        g = it.split(",")
        if g[0] != "m":
            return False
        path = bytes.fromhex(g[1]).decode("latin-1")
        if path not in ref.bypath:
            return False
        lines.append((ref.bypath[path], [] if g[3] == "-" else [scalar(t) for t in g[3].split(":")]))
    sels = {fp.sel for fp in ref.flat if fp.sel is not None}
    lines.sort(key=lambda l: (len(ref.flat[l[0]].hard), 0 if l[0] in sels else 1))
    for i, vals in lines:
        for k, v in enumerate(vals):
            if not ref.send(i, k, v):
                return False
    return True

def nontrivial(case, impl):
    f = case.split(" ")
    kv = sc.kv_fields(impl)
    if f[0] == "save":
        return kv.get("lines", "-").count("|") >= 1
    if f[0] == "hist":
        return sum(1 for r in impl.split(" ## ") if sc.kv_fields(r).get("lines", "-") != "-") >= 2
    return f[0] == "rej" and len(f) > 7 and f[7] != "ok"

def nonfinite(b):
    return (b & 0x7f800000) == 0x7f800000

def state_classes(case, line):
    """(ports holding a non-finite float, scalar option ports holding a number outside their declared
    min / max) in the state the file is saved from (the A= dump of an output line)"""
    f = case.split(" ")
    kv = sc.kv_fields(line)
    if f[0] != "save" or "A" not in kv:
        return [], []
    ref = sc.ref_from_flat(sc.parse_flat(f[2]))
    try:
        sa, _ = sc.state_from_dump(ref, kv["A"])
    except Exception:
        return [], []
    nf, out = [], []
    def outside(p, v):
        return p.elem_kind() == "o" and any((p.min is not None and x < p.min) or (p.max is not None and x > p.max) for x in v)
    for fp, v in zip(ref.flat, sa):
        if v is None:
            continue
        p = fp.leaf
        if p.elem_kind() == "f" and any(nonfinite(x) for x in v):
            nf.append(fp.path)
        if outside(p, v):
            out.append(fp.path)
        elif fp.sel is not None and sa[fp.sel] is not None and outside(ref.flat[fp.sel].leaf, sa[fp.sel]):
            out.append(fp.path)      # its preset selector holds such a number: the default it selects changes with the clamp
    return nf, out

def classify(case, impl, failure):
    """nonfinite-float: the saved state holds +-inf (or a NaN) in a float parameter - exactly the values
    good_scalar1 / good_elem (Save/PrintLines.v, premise good_line of C12_roundtrip_tree_real_lines_partial)
    exclude with f32_finite; the file then contains text the scanner rejects and loading fails as a whole.
    Demanded exactly (nonfinite_signature): lines= ends in the one UNPARSABLE entry, ret < 0, that port is
    live and differs from its default, everything else about the saved text is as the state demands.
    option-outside-range: an option parameter holds a number outside its declared min / max (stored by a
    symbol message: rCOptionCb's symbol branch does not clamp; an unknown symbol gives INT_MIN) - a value
    that is not a fixed point of the port's callback, the clause `stable` of full_conditions; the round-trip
    failure must name that port and the loaded value must be the saved number clamped (clamp_signature)."""
    if case.split(" ")[0] != "save":
        return None
    nf, out = state_classes(case, impl)
    kind = failure.split(":")[0]
    try:
        if nf and kind == "minimal" and nonfinite_signature(case, impl, nf):
            return "nonfinite-float"
        if out and kind == "roundtrip" and clamp_signature(case, impl, failure, out):
            return "option-outside-range"
    except Exception:
        return None
    return None

def _dumps(case, impl):
    f = case.split(" ")
    kv = sc.kv_fields(impl)
    ref = sc.ref_from_flat(sc.parse_flat(f[2]))
    sa, _ = sc.state_from_dump(ref, kv["A"])
    sb, _ = sc.state_from_dump(ref, kv["B"])
    return kv, ref, sa, sb

def nonfinite_signature(case, impl, nf):
    """what the finding looks like and nothing else: the scan of the saved text stops at ONE unparsable
    line (last entry of lines=), load_from_file gives a negative result, the lines scanned before it are
    lines the state demands (no address twice, each with the parameter's values), the text of the body has
    exactly one line per address the state demands, and a parameter that holds the non-finite float is
    among them (live and different from its default) with inf / nan in its text."""
    kv, ref, sa, _ = _dumps(case, impl)
    lines = kv.get("lines", "-").split("|")
    if lines[-1] != "UNPARSABLE" or "UNPARSABLE" in lines[:-1]:
        return False
    if int(kv["ret"]) >= 0:
        return False
    want = sc.expected_lines_of_state(ref, sa)
    got = {}
    for l in lines[:-1]:
        parts = l.split("~")
        key = parts[0] + ("~[" if len(parts) > 1 and parts[1] == "[" else "")
        vals = parts[2:] if key.endswith("~[") else parts[1:]
        if key in got or key not in want:
            return False
        least, allv = want[key]
        if len(vals) < least or vals != allv[:len(vals)]:
            return False
        got[key] = vals
    body = [bytes.fromhex(h) for h in kv.get("body", "-").split("|") if h and h != "-"]
    addrs = [b.split()[0].decode("latin-1") for b in body]      # a long address is followed by a line break
    wanted = [k[:-2] if k.endswith("~[") else k for k in want]
    if sorted(addrs) != sorted(wanted):
        return False
    scanned = {l.split("~")[0] for l in lines[:-1]}
    for b, a in zip(body, addrs):
        if a in nf and a not in scanned and (b"inf" in b or b"nan" in b):
            return True
    return False

def clamp_signature(case, impl, failure, out):
    """the round-trip failure names a port of the class and the loaded instance holds exactly what the
    finding says: the option's number clamped to its declared range (for a port whose preset selector is
    such an option: the selector clamped, the port itself not saved and left as a fresh instance has it)"""
    kv, ref, sa, sb = _dumps(case, impl)
    def clamp(p, x):
        if p.min is not None and x < p.min: return p.min
        if p.max is not None and x > p.max: return p.max
        return x
    def clamped(i):
        p = ref.flat[i].leaf
        return sa[i] is not None and sb[i] is not None and list(sb[i]) == [clamp(p, x) for x in sa[i]]
    for i, fp in enumerate(ref.flat):
        if fp.path not in out or not failure.startswith("roundtrip: %s is " % fp.path):
            continue
        p = fp.leaf
        own = p.elem_kind() == "o" and any((p.min is not None and x < p.min) or (p.max is not None and x > p.max) for x in sa[i])
        if own:
            return clamped(i)
        if fp.sel is not None and clamped(fp.sel):
            saved = {l.split("~")[0] for l in kv.get("lines", "-").split("|")}
            return fp.path not in saved and sb[i] is not None and list(sb[i]) == list(ref.initial(i))
    return False

def minimise(case, impl, failure, run):
    f = case.split(" ")
    if f[0] != "save" or f[3] == "-":
        return case, impl, failure
    ops, mops = f[3].split(";"), f[5].split(";")
    key = failure.split(":")[0]
    changed = True
    while changed and len(ops) > 1:
        changed = False
        for i in range(len(ops)):
            o2, m2 = ops[:i] + ops[i + 1:], mops[:i] + mops[i + 1:]
            c2 = " ".join(f[:3] + [";".join(o2) or "-", f[4], ";".join(m2) or "-"] + f[6:])
            out = run([c2])[0]
            sf = spec_check(c2, out)
            if sf and sf.split(":")[0] == key:
                ops, mops, case, impl, failure = o2, m2, c2, out, sf
                changed = True
                break
    return case, impl, failure

TECHNIQUE = ("Coq proofs about an executable abstract application (ports with kind, range, default / preset table, "
             "enabling toggles; save = lines of the live ports that differ from their selected default; load = fold of "
             "the callbacks over the code-shaped dependency sort) + end-to-end differential correspondence against "
             "rtosc::save_to_file / load_from_file on generated applications under ASan")
LEVEL_TEXT = ("For every abstract application and state: a line is saved exactly for the live ports whose value differs from the "
              "default the state selects (C12_minimal); a default-initialised instance saves nothing (C12_untouched); wrong header, "
              "other application name, unparsable text, unmatched line give a negative result with the code's offset arithmetic "
              "(C12_reject_*); a stored value is a fixed point of its callback (C12_stored_value_is_a_fixed_point). The round trip is "
              "proved for the abstract application incl. pointer sub-trees and #N arrays under wf_app + stable state "
              "(C12_roundtrip_abstract) and through the pipeline real_load (real_save st) with the sort stage (C13's scan_deps + Kahn "
              "model, C13_topo) and the value-equality stage (C16's vals_eq model, C16_eq_is_key_equality) instantiated "
              "(C12_roundtrip_pipeline_sorted_eq_partial). For applications that ARE port trees of macro-made ports (app_of_tree t, "
              "Save/TreeApp.v: parameter leaves, embedded / enumerated / pointer sub-trees of one component, 'enabled by' a toggle of the "
              "parent table or a toggle inside the sub-tree ('name/tg', 'name#N/tg'), rSelf ports 'enabled by' a toggle of their table; switches_ok, names_ok) every stage is the model of the code that implements it (C12_roundtrip_tree_real_partial): the walk "
              "with the runtime object (C09, C12_walk_stage), the dispatch of every saved line to the tree with the macros' callbacks "
              "(C04 + C14, C12_dispatch_elem / C12_dispatch_stage), print/scan of the body (C10, C12_body_scans).  Since stage 6 NO premise "
              "about a stage is left (C12_roundtrip_tree_real_lines_partial): every saved line of the class good_line - one value of any "
              "parameter kind (32-bit int, char, finite float with both zeroes, T/F, string / symbol without NUL) or one array of such "
              "elements of one type (C10's list-level conditions inside arrays) - is printed by the model (C12_good_line_prints, compression "
              "on: C12_array_message_prints) and read back whatever follows (C12_good_line_reads); the class is decidable (good_line_b) and "
              "evaluated on every saved line in the tie, where the saved bytes are also compared with the printer's model.  The side "
              "conditions on application and state are decidable and evaluated per case (wf_app_b, full_conditions_b, defaults_stable_b, "
              "msg_ok_b; C13: ranked_b), and states reached by parameter messages satisfy them (C12_reachable_full_conditions).  Excluded and "
              "generated as findings: +-inf in a float parameter (nonfinite-float), an option number outside the declared range after a symbol "
              "message (option-outside-range).  C12_eq_stage_array: the 'a'-header comparison of #N ports.")
LEVEL_NOTE = ("the differential run is against the abstract application; on every save case whose tree is inside TreeApp.v's class the model "
              "driver also evaluates the tree stages (flattening = the case's application, walk_tree = live ports, saved lines dispatched on "
              "the tree = apply_line) and marks the case when one fails; the fields cls= / cond= of the model's output carry the evaluated "
              "conditions (counted into input_distribution); see notes/C12.md (stage 6) for the remaining premises")
