"""C15 plug-in: undo history rewinds and replays exactly (interface: see props/C17.py).

Case lines
  hist <op>,<op>,...     r:<addrhex>:<ty>:<old>:<new> | s:<k> | t:<d>
  e2e  <op>,<op>,... <table>     c:<path>:<t><v> | q:<path> | s:<k> | t:<d>
                         a table with one port of every macro kind of port-sugar.h (E2E_PORTS below = e2e_ports of
                         harness/h_C15.cpp); t/v: i<dec> c<dec> f<binary32 bits, decimal> S<hex symbol> T F;
                         <table> is that table for the model driver (the harness has it compiled in)
Output: one '|'-separated field per operation (format in harness/h_C15.cpp).

spec_check is a reference machine written from the property text only (it
shares no code with the Coq model): a list of retained events with the time
of their last recording, a cursor, and for e2e a dictionary address -> value
(the abstract object: what a set message must store is C14's statement -
clamp to the declared range, symbols to their index -; a change of a numeric
or option port is one event; after a seek the object is the abstract history
replayed: state after undoing event k = state before event k).  It predicts
the whole output line; the first differing field names the clause of the
statement that fails.  In e2e the type tag of an event is not judged (C14's
contract), the object and the number of ports the undo messages reach are."""

import struct

HARNESS = ["h_C15.cpp"]
VARIANT = "asan-noub"
CAP = 20
WINDOW = 2

RULE = ("operation histories of length 0..60 over 2..8 addresses (one value type i/f/c per address), values from "
        "32-bit boundary patterns and counters, clock steps 0..4 s (rarely larger), seeks by +-1, +-few, beyond "
        "either end and INT_MIN/INT_MAX; four profiles (mixed, cap-crossing, merge-window, seek-heavy) plus "
        "end-to-end histories through one port of every macro kind of port-sugar.h (rParam, rParamI with and without "
        "range, rParamF with and without range, rToggle, rOption, rArrayF, rArrayI, rArrayT, rArrayOption with "
        "rOptionsBound, both ports of rParams, rCOptionCb with a counting setter): sets (values at and beyond the "
        "bounds, option symbols), queries, seeks and clock steps, the undo messages dispatched back; after every "
        "operation the whole object and the number of ports reached are compared.  "
        "Non-trivial = the history contains a merge, a record after an undo, a record at the 20-event cap or a "
        "clamped seek.")
TRUSTED = ["harness/h_C15.cpp defines time() in the executable (the library's time(NULL) reads the harness clock), "
           "builds the /undo_change messages with rtosc_amessage, decodes callback messages with rtosc_argument*, "
           "and for e2e wires a table of macro-generated ports to UndoHistory as test/undo-test.cpp does "
           "(reply(\"/undo_change\") -> recordEvent; the history's callback dispatches with recording disabled)",
           "tools/props/C15.py E2E_PORTS repeats the harness's port table (names, kinds, declared ranges, options) for the "
           "model driver and the oracle; a difference shows up as a disagreement",
           "tools/props/C15.py reference machine (spec_check) written from the property text"]
ASSUMPTIONS = ["the clock never goes backwards (advance-clock steps are >= 0)",
               "addresses of any length (up to 300 bytes generated: the set-message buffer of rewind/replay is sized "
               "from the message since the long-address repair)",
               "payloads are 4-byte types (i f c) as in the statement's quantifier",
               "end-to-end stream: float values exclude NaN and -0.0, for which the ports' float comparison and bit equality "
               "differ (fields are compared as bit patterns); char-backed ports are driven with -128..127, option symbols are "
               "known ones (C14's quantifier); one spelling per array element (no leading zeros in indices); the port table "
               "has no two ports answering the same address and no port named undo_change"]

SPECIAL = [0, 1, 2, 7, 127, 128, 255, 0x7fffffff, 0x80000000, 0xffffffff, 0x3f800000, 0xbf800000,
           0x7fc00000, 0x7f800000, 0x00000001, 0x40490fdb]
SHORT = ["/a", "/b", "/c/d", "/vol", "/p0", "/p1", "/p2", "/p3", "/p4", "/p5", "/p6", "/p7", "/x/y/z", "/ab", "/a/b"]

def fits(addr_len):
    return addr_len + (4 - addr_len % 4) + 8 <= 256

def hx(s):
    return s.encode().hex()

def gen_hist(rng, dist):
    profile = rng.choice(["mix", "mix", "cap", "cap", "cap", "merge", "merge", "seeky"])
    n = rng.choice([0, 1, 2, 3, 5, 8, 13, 19, 20, 21, 22, 25, 30, 40, 41, 45, 59, 60, rng.randint(0, 60), rng.randint(0, 60)])
    if profile == "cap":
        n = rng.choice([21, 25, 30, 40, 41, 45, 50, 59, 60, rng.randint(20, 60)])
    na = {"mix": rng.randint(2, 5), "cap": rng.randint(3, 8), "merge": rng.randint(2, 3), "seeky": rng.randint(2, 4)}[profile]
    pool = rng.sample(SHORT, na)
    r = rng.random()
    if r < 0.04:
        pool[0] = "/" + "L" * rng.choice([242, 243, 244, 245, 246])      # longest that still fit
    elif r < 0.06:
        pool[0] = "/" + "L" * rng.choice([247, 248, 251, 300])           # beyond the static 256-byte buffer
    types = {a: rng.choice("ifc") for a in pool}
    counter = {a: rng.choice(SPECIAL) for a in pool}
    ops = []
    # cap profile: records separated by >2 s (no merging) so that the 20-event cap is reached and
    # crossed, with undo + record at and around the cap
    pr, pt = {"mix": (0.55, 0.2), "cap": (0.86, 0.04), "merge": (0.6, 0.3), "seeky": (0.4, 0.15)}[profile]
    used = set()        # cap profile: addresses recorded since the last clock step > 2 s
    while len(ops) < n:
        x = rng.random()
        if x < pr:
            a = rng.choice(pool)
            if profile == "cap" and rng.random() < 0.93:
                free = [b for b in pool if b not in used]
                if not free:
                    ops.append("t:%d" % rng.choice([3, 3, 3, 4, 10]))
                    used = set()
                    free = pool
                a = rng.choice(free)
            used.add(a)
            old = counter[a] if rng.random() < 0.7 else rng.choice(SPECIAL)
            new = rng.choice(SPECIAL) if rng.random() < 0.3 else (old + rng.randint(1, 9)) & 0xffffffff
            counter[a] = new
            ops.append("r:%s:%s:%d:%d" % (hx(a), types[a], old, new))
        elif x < pr + pt:
            if profile == "cap":
                d = rng.choice([0, 1, 2, 3, 3, 3, 4, 10])
                if d > 2:
                    used = set()
            else:
                d = rng.choice([0, 0, 1, 1, 1, 2, 2, 3, 3, 4, 100])
            ops.append("t:%d" % d)
        else:
            if profile == "cap":
                k = rng.choice([-1, -1, -1, -2, -2, 1, -3, 2, -19, -20, -21, 20, 21, 0, rng.randint(-25, 25)])
            else:
                k = rng.choice([-1, -1, -1, 1, 1, -2, 2, -3, 3, 0, -5, 5, -19, -20, -21, 20, 21, -60, 60,
                                -2147483648, 2147483647, -2147483647, rng.randint(-25, 25)])
            ops.append("s:%d" % k)
    case = "hist " + (",".join(ops) if ops else "-")
    dist["hist/" + profile] = dist.get("hist/" + profile, 0) + 1
    dist["hist/len%02d-%02d" % (n // 10 * 10, n // 10 * 10 + 9)] = dist.get("hist/len%02d-%02d" % (n // 10 * 10, n // 10 * 10 + 9), 0) + 1
    for ft in predict(case)[1]:
        dist["hist/with-" + ft] = dist.get("hist/with-" + ft, 0) + 1
    return case

# ---- end-to-end: the port table of harness/h_C15.cpp (one port of every macro kind) ------------
# name, kind (as in the C14 case lines), N, declared min, max (text as in the macro), options
E2E_PORTS = [
    ("b", "P", 0, "0", "127", []),                       # rParam: char, the macro's own 0..127
    ("i", "I", 0, None, None, []),                       # rParamI
    ("j", "I", 0, "-100", "100", []),                    # rParamI, rLinear(-100, 100)
    ("x", "F", 0, None, None, []),                       # rParamF
    ("y", "F", 0, "-1.5", "2.5", []),                    # rParamF, rLinear(-1.5, 2.5)
    ("t", "T", 0, None, None, []),                       # rToggle (emits no undo event)
    ("o", "O", 0, None, None, ["zero", "one", "two", "three"]),      # rOption, rOptions(...)
    ("a", "AF", 3, None, None, []),                      # rArrayF
    ("n", "AI", 4, None, None, []),                      # rArrayI (char elements)
    ("g", "AT", 2, None, None, []),                      # rArrayT (no undo event)
    ("q", "AO", 3, "0", "3", ["lo", "mid", "hi"]),       # rArrayOption, rOptionsBound(lo, mid, hi): the macro declares
                                                         # max = the number of options (LAST_IMP), one past the last index
    ("p", "PA", 4, None, None, []),                      # rParams: "p#4::i" ...
    ("p", "PS", 4, None, None, []),                      # ... and the alias "p:"
    ("r", "CO", 0, "0", "2", ["ra", "rb", "rc"]),        # rCOptionCb(getcode, setcode), the setter counts its invocations
]
FKINDS = ("F", "AF")
TAG = {"P": "c", "I": "i", "F": "f", "O": "i", "AF": "f", "AI": "i", "AO": "i", "PA": "i", "CO": "i"}   # the port's own argument type
ACCEPTS = {"P": "c", "I": "i", "F": "f", "O": "icS", "T": "TF", "AF": "f", "AI": "i", "AT": "TF", "AO": "icS", "PA": "i", "PS": "", "CO": "icS"}

def f32_bits(x):
    return struct.unpack("<I", struct.pack("<f", x))[0]

def bits_f32(b):
    return struct.unpack("<f", struct.pack("<I", b))[0]

def table_text():
    """the table as the model driver reads it (bounds converted: integers, binary32 bit patterns)"""
    out = []
    for name, kind, n, mn, mx, opts in E2E_PORTS:
        conv = (lambda t: "-" if t is None else str(f32_bits(float(t)))) if kind in FKINDS else (lambda t: "-" if t is None else t)
        out.append("%s:%s:%d:%s:%s:%s" % (name, kind, n, conv(mn), conv(mx),
                                          "/".join("%d=%s" % (k, sy) for k, sy in enumerate(opts)) or "-"))
    return ",".join(out)

def elements():
    """[(path, port)] of every addressable element, in the order the harness prints the object"""
    out = []
    for pt in E2E_PORTS:
        name, kind, n = pt[0], pt[1], pt[2]
        if kind == "PS":
            continue
        if n:
            out += [("%s%d" % (name, k), pt) for k in range(n)]
        else:
            out.append((name, pt))
    return out
ELEMS = elements()
PORT_OF = dict(ELEMS)

#         0   1.0         -1.0        0.5         1.25        2.0         0.1         3.4e38      -3.4e38     inf         -inf        denormal
FVALS = [0, 0x3f800000, 0xbf800000, 0x3f000000, 0x3fa00000, 0x40000000, 0x3dcccccd, 0x7f7fffff, 0xff7fffff, 0x7f800000, 0xff800000, 1,
         0x00800000, 0x3f800001, 0xbfc00000, 0x40200000, 0x40200001, 0xbfc00001, 0x40400000]

def rand_value(rng, path):
    name, kind, n, mn, mx, opts = PORT_OF[path]
    if kind in FKINDS:
        # binary32 bit patterns; no NaN and no -0.0 (for those the ports' "!=" test and bit equality
        # differ: a -0.0 over +0.0 is stored without an event, a NaN always records)
        return "f%d" % (rng.choice(FVALS) if rng.random() < 0.7 else f32_bits(rng.uniform(-10, 10)))
    if kind in ("T", "AT"):
        return rng.choice("TF")
    if kind in ("O", "AO", "CO"):
        r = rng.random()
        if r < 0.3:
            return "S" + hx(rng.choice(opts))
        return "%s%d" % (rng.choice("iic"), rng.randint(-1, len(opts)) if rng.random() < 0.8 else rng.choice([-2147483648, 2147483647, 100]))
    if kind == "P":
        return "c%d" % (rng.randint(0, 5) if rng.random() < 0.5 else rng.choice([-128, -1, 0, 1, 64, 126, 127, rng.randint(-128, 127)]))
    if kind in ("AI", "PA"):
        return "i%d" % (rng.randint(0, 5) if rng.random() < 0.5 else rng.choice([-128, -1, 127, rng.randint(-128, 127)]))
    # I
    if rng.random() < 0.5:
        return "i%d" % rng.randint(0, 5)
    return "i%d" % rng.choice([-1, -2147483648, 2147483647, -100, 100, -101, 101, rng.randint(-1000, 1000)])

def gen_e2e(rng, dist):
    n = rng.choice([1, 2, 3, 5, 8, 13, 21, 25, 30, 45, 60, rng.randint(0, 60)])
    paths = [e[0] for e in ELEMS]
    r = rng.random()
    if r < 0.3:
        ports = paths                                           # every port kind in one history
    elif r < 0.5:
        ports = [rng.choice(paths)]
    else:
        ports = rng.sample(paths, rng.randint(2, 6))
    ops = []
    spaced = rng.random() < 0.35        # changes more than 2 s apart: no merging, the cap is reached
    if spaced:
        n = rng.choice([30, 45, 50, 60])
    if ports is paths and rng.random() < 0.5:
        # first a change through every port, in random order, more than 2 s apart or not
        for p in rng.sample(paths, len(paths)):
            ops.append("c:%s:%s" % (p, rand_value(rng, p)))
            if spaced:
                ops.append("t:3")
        n += len(ops)
    while len(ops) < n:
        x = rng.random()
        if x < (0.8 if spaced else 0.55):
            p = rng.choice(ports)
            ops.append("c:%s:%s" % (p, rand_value(rng, p)))
            if spaced and rng.random() < 0.6:
                ops.append("t:3")
        elif x < 0.58:
            ops.append("q:%s" % rng.choice(ports + ["p"]))
        elif x < 0.75:
            ops.append("t:%d" % rng.choice([0, 1, 1, 2, 2, 3, 3, 4, 50]))
        else:
            ops.append("s:%d" % rng.choice([-1, -1, 1, 1, -2, 2, -3, 3, 0, -21, 21, -99, 99, rng.randint(-25, 25)]))
    if rng.random() < 0.7:
        ops += ["s:-99", "s:99"] if rng.random() < 0.7 else ["s:99", "s:-99"]
    case = "e2e " + (",".join(ops) if ops else "-") + " " + table_text()
    dist["e2e"] = dist.get("e2e", 0) + 1
    for o in ops:
        if o[0] == "c":
            k = "e2e/kind=" + PORT_OF[o.split(":")[1]][1]
            dist[k] = dist.get(k, 0) + 1
    for ft in predict(case)[1]:
        dist["e2e/with-" + ft] = dist.get("e2e/with-" + ft, 0) + 1
    return case

def gen(rng, tier, dist):
    nh, ne = (2500, 700) if tier == "quick" else (120000, 30000)
    out = [gen_hist(rng, dist) for _ in range(nh)]
    out += [gen_e2e(rng, dist) for _ in range(ne)]
    return out

# ---------------------------------------------------------------------------
# reference machine from the property text
class Ref:
    def __init__(self):
        self.ev = []        # dicts t, a, ty, old, new   (oldest first)
        self.pos = 0        # events before the cursor are applied
        self.now = 0
        self.feat = set()

    def record(self, a, ty, old, new):
        """returns the clause this record exercises"""
        clause = "record"
        if self.pos != len(self.ev):
            clause = "truncate-on-record"       # recording after an undo discards the undone tail
            self.feat.add("truncate")
            del self.ev[self.pos:]
        near = [e for e in self.ev if e["a"] == a and self.now - e["t"] <= WINDOW]
        if near:
            # events for the same address recorded within two seconds merge into one
            # (first old value, last new value)
            e = near[-1]
            e["new"], e["t"], e["ty"] = new, self.now, ty
            self.feat.add("merge")
            if e is not self.ev[-1]:
                self.feat.add("merge-not-newest")
            return "merge"
        self.ev.append(dict(t=self.now, a=a, ty=ty, old=old, new=new))
        if len(self.ev) == CAP:
            self.feat.add("full")
        if len(self.ev) > CAP:                  # only the 20 most recent events are retained
            del self.ev[0]
            self.feat.add("cap")
            clause = "cap"
        self.pos = len(self.ev)
        return clause

    def seek(self, k):
        """returns (clause, messages)"""
        target = min(max(self.pos + k, 0), len(self.ev))
        clause = "seek-clamped" if target != self.pos + k else ("seek-back" if k < 0 else "seek-forward")
        if target != self.pos + k:
            self.feat.add("clamp")
        ms = []
        while self.pos > target:                # newest first, old values
            self.pos -= 1
            e = self.ev[self.pos]
            ms.append((e["a"], e["ty"], e["old"]))
        while self.pos < target:                # oldest first, new values
            e = self.ev[self.pos]
            ms.append((e["a"], e["ty"], e["new"]))
            self.pos += 1
        return clause, ms

    def show(self):
        return "p=%d n=%d h=%s" % (self.pos, len(self.ev), ";".join(
            "%s/%s/%d/%d" % (e["a"], e["ty"], e["old"], e["new"]) for e in self.ev))

def u32(v):
    return v & 0xffffffff

def stored_value(pt, tv):
    """what a set message must store (C14's statement: the incoming value clamped to the declared range,
    option symbols translated to their index); floats as bit patterns"""
    name, kind, n, mn, mx, opts = pt
    t, v = tv[0], tv[1:]
    if kind in ("T", "AT"):
        return 1 if t == "T" else 0
    if kind in FKINDS:
        b = int(v)
        if mn is not None and bits_f32(b) < bits_f32(f32_bits(float(mn))):
            b = f32_bits(float(mn))
        if mx is not None and bits_f32(b) > bits_f32(f32_bits(float(mx))):
            b = f32_bits(float(mx))
        return b
    if t == "S":
        return opts.index(bytes.fromhex(v).decode())
    x = int(v)
    if mn is not None:
        x = max(x, int(mn))
    if mx is not None:
        x = min(x, int(mx))
    return x

def show_app(app):
    out = []
    for path, pt in ELEMS:
        out.append(str(app[hx("/" + path)]))
        if pt[1] == "CO":
            out.append(str(app["sets:" + hx("/" + path)]))       # rCOptionCb: setcode runs once per set message
    return ",".join(out)

def predict(case):
    """-> (list of (clause, expected field)), features, in_spec_domain"""
    f = case.split(" ")
    kind, ops = f[0], ([] if f[1] == "-" else f[1].split(","))
    m = Ref()
    # e2e: the abstract object, address -> value (signed integers, floats as bit patterns, toggles 0/1)
    app = {hx("/" + path): 0 for path, pt in ELEMS}
    app.update({"sets:" + hx("/" + path): 0 for path, pt in ELEMS if pt[1] == "CO"})
    before = {}     # e2e ghost: value of each parameter before its oldest retained change
    out = []
    ok = True
    for o in ops:
        p = o.split(":")
        hits = 0
        if p[0] == "r":
            cl = m.record(p[1], p[2], int(p[3]), int(p[4]))
            fld = m.show()
        elif p[0] == "c":
            pt = PORT_OF[p[1]]
            a, v = hx("/" + p[1]), stored_value(pt, p[2])
            cl = "record"
            hits = 1
            # "exactly one undo event ... if and only if the stored value changed" - numeric and option ports
            if app[a] != v and pt[1] in TAG:
                cl = m.record(a, TAG[pt[1]], u32(app[a]), u32(v))
                m.feat.add("kind-" + pt[1])
            app[a] = v
            if "sets:" + a in app:
                app["sets:" + a] += 1
            fld = m.show()
        elif p[0] == "q":
            cl, fld, hits = "query", m.show(), 1
        elif p[0] == "s":
            cl, ms = m.seek(int(p[1]))
            for a, ty, v in ms:
                if kind == "e2e":
                    # the message sets its address to the event's old / new value
                    app[a] = v - (1 << 32) if (ty != "f" and v >= (1 << 31)) else v
                    if "sets:" + a in app:
                        app["sets:" + a] += 1
                    hits += 1
            fld = "m=%s p=%d n=%d" % (";".join("%s/%s/%d" % x for x in ms), m.pos, len(m.ev))
            if kind == "e2e":
                # "undoing everything retained returns every touched parameter to the value it had
                # before its oldest retained change, redoing returns the latest values"
                if m.pos == 0:
                    for e in reversed(m.ev):
                        before[e["a"]] = e["old"]
                    for a, v in before.items():
                        if u32(app[a]) != v:
                            cl = "INTERNAL-undo-all"
                if m.pos == len(m.ev):
                    latest = {}
                    for e in m.ev:
                        latest[e["a"]] = e["new"]
                    for a, v in latest.items():
                        if u32(app[a]) != v:
                            cl = "INTERNAL-redo-all"
                before = {}
        elif p[0] == "t":
            m.now += int(p[1])
            cl, fld = "tick", "-"
        else:
            cl, fld = "bad", "BADOP"
        if kind == "e2e":
            fld += " hit=%d a=%s" % (hits, show_app(app))
        out.append((cl, fld))
    return out, m.feat, ok

import re
_TAGS = re.compile(r"/[ifc]{1,2}/")

def no_tags(field):
    """e2e: which type tag a port puts on its event is C14's contract (the port's own argument type);
    here the event's address and values and what the seeks do to the object are judged"""
    return _TAGS.sub("/_/", field)

def spec_check(case, impl):
    exp, feat, ok = predict(case)
    if not ok:
        return None
    if impl.startswith("CRASH") or impl == "NOOUT":
        return "crash: " + impl[:300]
    e2e = case.startswith("e2e")
    got = impl.split("|") if exp else []
    if not exp:
        return None if impl == "" else "empty-history: output %r" % impl
    if len(got) != len(exp):
        return "shape: %d fields for %d operations" % (len(got), len(exp))
    for i, ((cl, e), g) in enumerate(zip(exp, got)):
        if cl.startswith("INTERNAL"):
            return "%s: reference machine inconsistent at op %d" % (cl, i)
        if e2e:
            e, g = no_tags(e), no_tags(g)
            if e != g:
                eh, _, ea = e.partition(" hit=")
                gh, _, ga = g.partition(" hit=")
                if eh == gh:
                    return ("%s-object: operation %d: object / ports reached after the operation hit=%s, the abstract history "
                            "requires hit=%s" % (cl, i, ga[:300], ea[:300]))
        if e != g:
            return "%s: operation %d: implementation %s, the statement requires %s" % (cl, i, g[:400], e[:400])
    return None

def nontrivial(case, impl):
    exp, feat, ok = predict(case)
    return ok and bool(feat)

def classify(case, impl, failure):
    return None

def minimise(case, impl, failure, run):
    """drop operations from the end, then single operations, while the Spec still fails"""
    f = case.split(" ")
    ops = [] if f[1] == "-" else f[1].split(",")
    def bad(o):
        c = f[0] + " " + (",".join(o) if o else "-")
        io = run([c])[0]
        sf = spec_check(c, io)
        return (c, io, sf) if sf else None
    best = (case, impl, failure)
    changed = True
    while changed and len(ops) > 1:
        changed = False
        for i in range(len(ops) - 1, -1, -1):
            o2 = ops[:i] + ops[i + 1:]
            r = bad(o2)
            if r:
                ops, best, changed = o2, r, True
                break
    return best

TECHNIQUE = ("Coq proofs (induction over operation histories, invariants over the run) about a hand-written model of "
             "UndoHistory with an explicit clock + differential correspondence against the real class under ASan with "
             "the clock controlled by a harness-defined time()")
LEVEL_TEXT = ("For every operation history (unbounded length, any addresses that fit the 256-byte buffer, non-negative "
              "clock steps) the model's seeks emit exactly the old values newest-first / new values oldest-first, clamp at "
              "both ends, a record discards the undone tail, keeps the 20 most recent events, and merges into the one "
              "retained event of the same address recorded at most 2 s earlier (first old, last new); the end-to-end "
              "chain invariant gives undo-all / redo-all.  For every table of C14's port models without shared addresses "
              "and every history of set messages / seeks / clock steps the model runs, every undo message of a seek reaches "
              "its port and the fields of the ports are the abstract store with the messages applied (C15_ports_seek), so "
              "undo-all / redo-all hold of the fields (C15_ports_undo_all); the link is C14_undo_event_replays.  The model "
              "is tied to the code on every run.")
LEVEL_NOTE = ("Trusted: Coq kernel, extraction (ExtrOcamlBasic), OCaml driver, harness (incl. its time()), generator and "
              "the Python reference machine.  The C++ code is modelled by hand (coq/Undo/UndoModel.v, coq/Undo/UndoPortsModel.v on "
              "top of coq/Ports/SugarModel.v) and related to the "
              "model only by the correspondence run.  The model follows the code after the D13 repair.")
