"""C14 plug-in: parameter ports clamp to their declared range and report every change.

Case line (harness/h_C14.cpp, ocaml/C14/driver.ml):
  sugar <kind> <depth> <name> <N> <mintext|-> <maxtext|-> <opts|-> <init> <ops> <minconv|-> <maxconv|-> <tv0>
    kind    P F I O OE T S1 S5 S16 AI AF AO AT PA PS CO ATM AIW  (OE: rOption on a scoped-enum field;
            AIW: rArrayI on an int array, initial contents also outside the char range;
            PA/PS: the two ports rParams generates; CO: rCOptionCb(getcode, setcode) with a counting setter,
            init "value,setter invocations"; ATM: rArrayTCbMember, init/state = (other member, member) per element)
            OM: the static port o<n> (n = 1..24) of harness/h_C14_options.h, declared rOption(o<n>, rOptions(<the first n of
            OM_SYMS>)) - one port per argument count the rOptions macro family supports; <opts> is the declared list
    depth   0: the port is dispatched at the root, 1: below the rRecur port "sub/" ("om/" for OM) of a static
            top-level table that also holds rParamI(tv, rLinear(-50, 50)); one RtData serves the whole history
    opts    k=symbol,...        (the ":map k\\0=symbol" entries, in order)
    init    initial field contents (16 elements for the array kinds, hex buffer for S*)
    ops     q[<idx>] | s[<idx>]=<t><v> | t | t=i<v> joined by ';'   t/v: i<dec> c<dec> f<hex8> S<hex> s<hex> T F
            (t: query / set of the top level's own /tv between the messages into the sub-tree, depth 1 only)
    tv0     initial value of the top level's tv
    minconv/maxconv   the bounds as atoi / (float)atof deliver them (decimal resp. hex8) - the
                      model is given these, the implementation the text
Output: <messages of op 1>;...#<final field contents>   (see harness/h_C14.cpp)

The Spec oracle below is written from the property text and knows nothing of
the Coq model: it replays the ops on an abstract store with Python integers /
floats and demands, per op, what the statement promises.
"""
import struct

HARNESS = ["h_C14.cpp"]
# plain = the pinned build's own flags (-O2 -g -DNDEBUG).  The sanitizer variant
# cannot be used here: UBSan (compiled -fno-sanitize-recover) stops at
# src/rtosc.c:471 (left shift of a byte into the sign bit) for every message
# that carries a negative integer - C01's territory.  Out-of-bounds effects are
# instead observed through guard words around every field, the full 16-element
# backing arrays and an all-other-fields-zero check.
VARIANT = "plain"
RULE = ("every macro-generated parameter kind (rParam/char, rParamF, rParamI, rOption on int and on scoped-enum fields, rToggle, rString of "
        "length 1/5/16, rArrayI, rArrayF, rArrayOption, rArrayT, both ports of rParams, rCOptionCb over a counting setter, "
        "rArrayTCbMember on a struct array) with run-time names "
        "(with and without digits), array lengths 1..16, dispatched at the root or below the rRecur port of a static top-level table that "
        "holds a parameter of its own (rParamI(tv, rLinear(-50,50))): ONE RtData and location buffer serve the whole history of a case and about 30 % of "
        "the ops of a below-root case are sets / queries of that top-level parameter between the messages into the sub-tree; a static table with one "
        "rOption(o<n>, rOptions(<n distinct symbols>)) port per argument count n = 1..24 of the rOptions macro family, every symbol of every port "
        "sent by name ('S') and by number ('i'/'c') and queried, the stored index must be the symbol's position; declared "
        "min/max absent / negative / fractional (float kinds) / type extremes; initial contents arbitrary "
        "(also outside the range); 1..12 sets and queries per case with incoming values in range, at and "
        "one step beyond each bound, type extremes (char kinds -128..127 only), +-0, denormals, +-inf, "
        "non-integral floats (a few NaN cases run for model/implementation agreement only), known option symbols (duplicates, non-contiguous indices), strings shorter / "
        "equal / longer than the buffer.  Non-trivial = at least two ops and at least one stored value changed.")
TRUSTED = ["harness/h_C14_options.h + OM_SYMS below: the 24 rOptions(...) argument lists are written twice (C++ macro invocations, Python list); "
           "the harness refuses a case whose option list is not the one its header declares",
           "harness/h_C14.cpp: builds a one-port rtosc::Ports at run time from the macro-generated callback of a "
           "template port and a generated name/metadata block, dispatches real OSC messages into it (directly or "
           "through rRecur), records RtData::reply(const char*)/broadcast(const char*), prints the object's fields",
           "tools/props/C14.py: Python's int()/float()+struct rounding stand for atoi/(float)atof when the bounds are "
           "handed to the model (any difference shows up as a model/implementation disagreement) and in the Spec oracle",
           "fkey order = IEEE-754 single order on non-NaN values (coq/Ports/SugarModel.v fltb/fneqb)"]
ASSUMPTIONS = ["declared bounds are representable in the field's type (char kinds: -128..127); bounds of integer kinds are "
               "integers (fractional bounds only on float kinds); about 5 % of the ranges of the non-option kinds are "
               "inverted (min > max): the oracle demands min(max(v,min),max) = max, as C14_clamp states; option kinds "
               "keep min <= max",
               "rArrayI on an array wider than char (kind AIW): an element holding a value outside -128..127 (possible "
               "as initial content only) falls into the finding class arrayI-wide-element "
               "(C14_arrayI_wide_element_refuted)",
               "every option index lies inside the declared range (the callbacks assert exactly this)",
               "no NaN: incoming floats, bounds and initial contents are ordered values (a case with a NaN is judged "
               "up to the first op that sends one, ops on an element still holding an initial NaN are skipped; from "
               "there on only model/implementation agreement is checked)",
               "char-backed kinds (rParam, rArrayI, rParams) are driven with -128..127 only; unknown option "
               "symbols are not sent (both as the property's quantifier says)",
               "one argument per set message, of a type the port's specification lists"]

SCALAR_NUM = ("P", "F", "I", "O")
ARRAYS = ("AI", "AF", "AO", "AT", "PA", "ATM", "AIW")
TOGGLES = ("T", "AT", "ATM")
# the port's own argument types an undo event may carry (the alternatives of its "::spec" that hold a number)
OWN_TAGS = {"P": "c", "F": "f", "I": "i", "O": "ic", "OE": "ic", "OM": "ic", "CO": "ic", "AI": "i", "AF": "f", "AO": "ic", "PA": "i", "AIW": "i"}
STRLEN = {"S1": 1, "S5": 5, "S16": 16}
BACK = 16
INT_MIN, INT_MAX = -2**31, 2**31 - 1

# ---------------------------------------------------------------- conversions
def py_atoi(t):
    i, n, sign = 0, 0, 1
    t = t.lstrip(" \t")
    if t[:1] in "+-":
        sign = -1 if t[0] == "-" else 1
        t = t[1:]
    while i < len(t) and t[i].isdigit():
        n = n * 10 + int(t[i]); i += 1
    return sign * n

def f32_bits(x):
    return struct.unpack("<I", struct.pack("<f", x))[0]

def bits_f32(b):
    return struct.unpack("<f", struct.pack("<I", b))[0]

def fnext(b, up):
    """neighbouring float bit pattern (no NaN/inf handling needed for the pools used)"""
    if b & 0x7fffffff == 0:
        return 0x00000001 if up else 0x80000001
    neg = b >> 31
    if (not neg and up) or (neg and not up):
        return b + 1
    return b - 1

def hx(bs):
    return bytes(bs).hex() if bs else "-"

# the symbols harness/h_C14_options.h declares: port o<n> is rOption(o<n>, rOptions(<the first n>), "d")
OM_SYMS = ("alpha bravo charlie delta echo foxtrot golf hotel india juliet kilo lima mike november oscar papa "
           "quebec romeo sierra tango uniform victor whiskey xray").split()
OM_COUNTS = 24                    # OPTIONS_IMP1 .. OPTIONS_IMP24 in include/rtosc/port-sugar.h
TV_MIN, TV_MAX = -50, 50          # rParamI(tv, rLinear(-50, 50)) of the harness's top-level table

# ------------------------------------------------------------------ generator
NAMES = ["vol", "gain", "x", "Pfreq", "mode_sel", "v2", "a1b", "osc2gain", "p9v", "x15y", "n0", "Q7"]
SYMS = ["red", "blue", "green", "teal", "a", "b", "off", "on", "sine", "saw", "x1", "Part1"]

def pick_int_bounds(rng, lo, hi):
    """(mintext, maxtext) with min <= max inside [lo, hi], either may be absent"""
    pool = [lo, hi, 0, -1, 1, -3, 9, 64, 100, -100, 127, -128, 5, -5]
    pool = [p for p in pool if lo <= p <= hi]
    a, b = rng.choice(pool), rng.choice(pool)
    if rng.random() < 0.3:
        a, b = rng.randint(lo, hi), rng.randint(lo, hi)
    a, b = min(a, b), max(a, b)
    mn = None if rng.random() < 0.2 else a
    mx = None if rng.random() < 0.2 else b
    return mn, mx

FTEXT = ["-1.5", "2.5", "0", "1", "-1", "0.1", "-0.1", "0.5", "1e-3", "100", "-100.25", "3.4e38", "-3.4e38",
         "1e-40", "-0.0", "0.333333", "127", "12.75", "-7.125", "1e10"]

def gen_case(rng, dist):
    kind = rng.choice(["P", "P", "F", "F", "F", "I", "I", "O", "O", "OE", "T", "S1", "S5", "S16",
                       "AI", "AI", "AF", "AF", "AO", "AO", "AT", "PA", "PS", "CO", "CO", "ATM", "AIW"])
    depth = rng.choice([0, 0, 1])
    name = rng.choice(NAMES)
    N = rng.choice([1, 2, 3, 4, 5, 7, 8, 10, 11, 15, 16, rng.randint(1, 16)]) if kind in ARRAYS else 0
    mn = mx = None
    mnc = mxc = None
    opts = []
    if kind in ("P", "AI", "PA", "AIW"):
        a, b = pick_int_bounds(rng, -128, 127)
        if kind == "P" and rng.random() < 0.3:
            a, b = 0, 127                       # what rParam itself declares
        mn, mx = (None if a is None else str(a)), (None if b is None else str(b))
        mnc, mxc = mn, mx
    elif kind == "I":
        a, b = pick_int_bounds(rng, INT_MIN, INT_MAX) if rng.random() < 0.5 else pick_int_bounds(rng, -1000, 1000)
        mn, mx = (None if a is None else str(a)), (None if b is None else str(b))
        mnc, mxc = mn, mx
    elif kind in ("F", "AF"):
        a, b = rng.choice(FTEXT), rng.choice(FTEXT)
        if float(a) > float(b):
            a, b = b, a
        mn = None if rng.random() < 0.2 else a
        mx = None if rng.random() < 0.2 else b
        mnc = None if mn is None else "%08x" % f32_bits(float(mn))
        mxc = None if mx is None else "%08x" % f32_bits(float(mx))
    elif kind in ("O", "OE", "AO", "CO"):
        n = rng.randint(1, 8)
        style = rng.random()
        if style < 0.6:
            idxs = list(range(n))                               # rOptions
        elif style < 0.8:
            idxs = sorted(rng.sample(range(-3, 20), n))          # rOpt(k, sym) non-contiguous
        else:
            idxs = rng.sample(range(0, 12), n)                   # unordered
        syms = [rng.choice(SYMS) for _ in range(n)] if rng.random() < 0.3 else rng.sample(SYMS, n)
        opts = list(zip(idxs, syms))
        r = rng.random()
        if r < 0.35:
            a, b = None, None
        elif r < 0.7:
            a, b = min(idxs), max(idxs)                          # rOptionsBound
        else:
            a, b = min(idxs) - rng.randint(0, 3), max(idxs) + rng.randint(0, 3)
            if rng.random() < 0.3: a = None
            if rng.random() < 0.3: b = None
        mn, mx = (None if a is None else str(a)), (None if b is None else str(b))
        mnc, mxc = mn, mx

    # inverted ranges (min > max): the clamp still is "lower bound first, then upper"
    inverted = False
    if kind in ("P", "AI", "PA", "AIW", "I", "F", "AF") and mn is not None and mx is not None and rng.random() < 0.05:
        if (float(mn) if kind in ("F", "AF") else int(mn)) != (float(mx) if kind in ("F", "AF") else int(mx)):
            mn, mx, mnc, mxc = mx, mn, mxc, mnc
            inverted = True

    # value pools
    def int_pool(lo, hi):
        p = [lo, hi, 0, 1, -1, lo + 1, hi - 1]
        for t in (mn, mx):
            if t is not None:
                v = py_atoi(t)
                p += [v, v - 1, v + 1]
        p += [rng.randint(lo, hi) for _ in range(3)]
        if mn is not None and mx is not None:
            p += [rng.randint(min(py_atoi(mn), py_atoi(mx)), max(py_atoi(mn), py_atoi(mx))) for _ in range(2)]
        return [v for v in p if lo <= v <= hi]

    def flt_pool():
        p = [0x00000000, 0x80000000, 0x7f7fffff, 0xff7fffff, 0x7f800000, 0xff800000, 0x00000001, 0x80000001,
             0x3f800000, 0xbf800000, f32_bits(0.3), f32_bits(-2.75), f32_bits(1e-3), f32_bits(123456.789)]
        for t in (mnc, mxc):
            if t is not None:
                b = int(t, 16)
                p += [b, fnext(b, True), fnext(b, False)]
        if mnc is not None and mxc is not None:
            lo, hi = bits_f32(int(mnc, 16)), bits_f32(int(mxc, 16))
            for _ in range(3):
                x = lo + (hi - lo) * rng.random()
                if x == x and abs(x) < 3e38:
                    p.append(f32_bits(x))
        p += [f32_bits(rng.uniform(-300, 300)) for _ in range(2)]
        if rng.random() < 0.04:
            # outside the property's quantifier (NaN is not an ordered value): such cases only
            # check that model and implementation agree, the Spec oracle skips them
            p += [0x7fc00000, 0xffc00001] * 3
        return p

    def rand_val():
        if kind == "P":
            return "c%d" % rng.choice(int_pool(-128, 127))
        if kind in ("AI", "PA", "AIW"):
            return "i%d" % rng.choice(int_pool(-128, 127))
        if kind == "I":
            return "i%d" % rng.choice(int_pool(INT_MIN, INT_MAX))
        if kind in ("F", "AF"):
            return "f%08x" % rng.choice(flt_pool())
        if kind in ("O", "OE", "AO", "CO"):
            r = rng.random()
            if r < 0.4:
                return "S" + rng.choice(opts)[1].encode().hex()
            if r < 0.8:
                return "i%d" % rng.choice(int_pool(INT_MIN, INT_MAX) + [k for k, _ in opts])
            return "c%d" % rng.choice(int_pool(-128, 127) + [k for k, _ in opts if -128 <= k <= 127])
        if kind in TOGGLES:
            return rng.choice("TF")
        L = STRLEN[kind]
        n = rng.choice([0, 1, L - 2, L - 1, L, L + 1, 2 * L, rng.randint(0, 2 * L + 2)])
        n = max(0, n)
        return "s" + hx([rng.choice([65, 66, 97, 122, 48, 32, 255, 128, 1, 47, 58]) for _ in range(n)])

    def rand_init_elem():
        if kind in ("P", "AI", "PA", "PS"):
            return str(rng.choice(int_pool(-128, 127)))
        if kind == "AIW":
            # an int array: mostly chars, some elements the macro's char local cannot hold
            if rng.random() < 0.25:
                return str(rng.choice([261, 128, -129, 256, -300, 1000, 255, 65536 + 7, INT_MAX, INT_MIN]))
            return str(rng.choice(int_pool(-128, 127)))
        if kind in ("I", "O", "OE", "AO", "CO"):
            return str(rng.choice(int_pool(INT_MIN, INT_MAX)))
        if kind in ("F", "AF"):
            return "%08x" % rng.choice(flt_pool())
        return str(rng.randint(0, 1))

    if kind in STRLEN:
        L = STRLEN[kind]
        n = rng.randint(0, L - 1)
        buf = [rng.choice([65, 98, 49, 200]) for _ in range(n)] + [0] + [rng.choice([0, 0, 77]) for _ in range(L - n - 1)]
        init = hx(buf)
    elif kind == "ATM":
        # the struct array flattened: (another member, the toggled member) per element
        init = ",".join("%d,%d" % (rng.choice([0, 1, -1, 77, INT_MIN, INT_MAX]), rng.randint(0, 1)) for _ in range(BACK))
    elif kind == "CO":
        init = "%s,%d" % (rand_init_elem(), rng.choice([0, 0, 1, 5, 1000]))       # value, setter invocations so far
    elif kind in ARRAYS or kind == "PS":
        init = ",".join(rand_init_elem() for _ in range(BACK))
    else:
        init = rand_init_elem()

    nops = rng.choice([1, 2, 3, 4, 5, 6, 8, 12])
    ops = []
    tv0 = rng.choice([0, 0, 7, -50, 50, rng.randint(-50, 50), 77, -1000]) if depth else 0
    for _ in range(nops):
        idx = ""
        if depth and rng.random() < 0.3:
            # a message to the top level's own parameter between the messages into the sub-tree
            ops.append(top_op(rng))
            dist["top-level-op-between-subtree-ops"] = dist.get("top-level-op-between-subtree-ops", 0) + 1
            continue
        if kind in ARRAYS:
            r = rng.random()
            i = N if r < 0.04 else rng.randrange(N)
            idx = ("0%d" % i) if rng.random() < 0.08 else str(i)
        if kind == "PS" or rng.random() < 0.3:
            ops.append("q" + idx)
        else:
            if ops and rng.random() < 0.15 and ops[-1].startswith("s"):
                ops.append(ops[-1])                 # the same set twice: no second change
            else:
                ops.append("s%s=%s" % (idx, rand_val()))
    dist["kind=" + kind] = dist.get("kind=" + kind, 0) + 1
    dist["ops"] = dist.get("ops", 0) + nops
    dist["digit-in-name"] = dist.get("digit-in-name", 0) + (1 if any(ch.isdigit() for ch in name) else 0)
    dist["bound-absent"] = dist.get("bound-absent", 0) + (1 if (mn is None) != (mx is None) else 0)
    dist["below-root"] = dist.get("below-root", 0) + depth
    dist["inverted-range"] = dist.get("inverted-range", 0) + (1 if inverted else 0)
    if kind == "AIW":
        wide = sum(1 for x in init.split(",")[:N] if not -128 <= int(x) <= 127)
        dist["AIW-wide-elements"] = dist.get("AIW-wide-elements", 0) + wide
    if kind in ("F", "AF") and ("7fc00000" in init + ";".join(ops) or "ffc00001" in init + ";".join(ops)):
        dist["nan (judged up to the first NaN)"] = dist.get("nan (judged up to the first NaN)", 0) + 1
    return "sugar %s %d %s %d %s %s %s %s %s %s %s %d" % (
        kind, depth, name, N, mn or "-", mx or "-",
        ",".join("%d=%s" % kv for kv in opts) or "-", init, ";".join(ops), mnc or "-", mxc or "-", tv0)

def top_op(rng):
    if rng.random() < 0.3:
        return "t"
    return "t=i%d" % rng.choice([TV_MIN - 1, TV_MIN, TV_MIN + 1, 0, 1, -1, TV_MAX - 1, TV_MAX, TV_MAX + 1, 1000, -1000,
                                 rng.randint(TV_MIN, TV_MAX), rng.randint(-200, 200)])

def gen_om(rng, dist, n, by):
    """the static port o<n>: every symbol of its list is sent by name ('S') or by number ('i' / 'c'), in a
    random order, each followed by a query; the stored index must be the symbol's position in the list"""
    syms = OM_SYMS[:n]
    depth = rng.choice([0, 1])
    order = list(range(n))
    rng.shuffle(order)
    ops = []
    for i in order:
        if by == "symbol":
            ops.append("s=S" + syms[i].encode().hex())
        else:
            ops.append("s=%s%d" % (rng.choice("ic"), i))
        ops.append("q")
        if depth and rng.random() < 0.2:
            ops.append(top_op(rng))
    init = rng.choice([0, n - 1, n, -1, 99, rng.randrange(n)])
    tv0 = rng.randint(TV_MIN, TV_MAX) if depth else 0
    dist["kind=OM"] = dist.get("kind=OM", 0) + 1
    dist["OM-list-lengths-driven-by-" + by] = dist.get("OM-list-lengths-driven-by-" + by, 0) + 1
    dist["ops"] = dist.get("ops", 0) + len(ops)
    dist["below-root"] = dist.get("below-root", 0) + depth
    return "sugar OM %d o%d 0 - - %s %d %s - - %d" % (
        depth, n, ",".join("%d=%s" % (i, sy) for i, sy in enumerate(syms)), init, ";".join(ops), tv0)

def gen(rng, tier, dist):
    n = 3000 if tier == "quick" else 220000
    out = []
    for rounds in range(1 if tier == "quick" else 20):
        for cnt in range(1, OM_COUNTS + 1):
            out.append(gen_om(rng, dist, cnt, "symbol"))
            out.append(gen_om(rng, dist, cnt, "number"))
    return out + [gen_case(rng, dist) for _ in range(n)]

# ----------------------------------------------------------------- Spec oracle
def parse_msgs(piece):
    """-> list of (r|b, path, types, [values as text])"""
    if piece == "-":
        return []
    out = []
    for m in piece.split("+"):
        rb, path, types, vals = m.split(":", 3)
        out.append((rb, path, types, vals.split(",") if vals else []))
    return out

class Store:
    """abstract store of one port, from the case line only"""
    def __init__(self, f):
        self.kind = f[1]
        k = self.kind
        self.isf = k in ("F", "AF")
        self.N = int(f[4])
        self.mn = None if f[5] == "-" else f[5]
        self.mx = None if f[6] == "-" else f[6]
        self.opts = [] if f[7] == "-" else [(int(kv.split("=")[0]), kv.split("=")[1]) for kv in f[7].split(",")]
        if k in STRLEN:
            self.vals = [bytes.fromhex(f[8])]
        elif self.isf:
            self.vals = [int(x, 16) for x in f[8].split(",")]
        else:
            self.vals = [int(x) for x in f[8].split(",")]
        self.sets = 0
        if k == "CO":
            self.vals, self.sets = self.vals[:1], self.vals[1]
        if k == "ATM":
            self.others, self.vals = self.vals[0::2], self.vals[1::2]

    def value_text(self, v):
        if self.kind in STRLEN:
            s = v.split(b"\0")[0]
            return s.hex() if s else "-"
        if self.isf:
            return "%08x" % v
        return str(v)

    def differs(self, a, b):
        """has the stored value changed (as a value: -0.0 and 0.0 are the same float)"""
        if self.isf:
            return bits_f32(a) != bits_f32(b)
        return a != b

    def clamp(self, tv):
        """the value a set must store, from the declared bounds"""
        k = self.kind
        t, v = tv[0], tv[1:]
        if k in TOGGLES:
            return 1 if t == "T" else 0
        if k in STRLEN:
            s = b"" if v == "-" else bytes.fromhex(v)
            return s[:STRLEN[k] - 1]
        if self.isf:
            b = int(v, 16)
            x = bits_f32(b)
            if self.mn is not None:
                lo = f32_bits(float(self.mn))
                if x < bits_f32(lo):
                    b, x = lo, bits_f32(lo)
            if self.mx is not None:
                hi = f32_bits(float(self.mx))
                if x > bits_f32(hi):
                    b = hi
            return b
        if t == "S":
            sym = bytes.fromhex(v).decode()
            for kx, s in self.opts:
                if s == sym:
                    return kx          # "option symbols translated to their index"
            return None
        x = int(v)
        if self.mn is not None:
            x = max(x, int(self.mn))
        if self.mx is not None:
            x = min(x, int(self.mx))
        return x

def is_nan_bits(b):
    return (b & 0x7fffffff) > 0x7f800000

def nan_scope(f):
    """NaN is not an ordered value (outside the quantifier).  -> (index of the first op whose
    incoming value is a NaN, set of elements whose INITIAL content is a NaN).  The ops before
    that index are judged in full (on elements that do not hold an initial NaN); from the first
    NaN op on, and for the final contents, only model/implementation agreement is checked."""
    ops = f[9].split(";")
    if f[1] not in ("F", "AF"):
        return len(ops), set()
    first = len(ops)
    for n, o in enumerate(ops):
        if o[0] == "s" and is_nan_bits(int(o.partition("=")[2][1:], 16)):
            first = n
            break
    init = [int(x, 16) for x in f[8].split(",")]
    return first, {i for i, b in enumerate(init) if is_nan_bits(b)}

def check_top(n, op, piece, tvs):
    """an op on the top level's own parameter /tv (rParamI, declared range TV_MIN..TV_MAX); tvs = [stored value]"""
    tv = op[1:].partition("=")[2]
    if piece in ("NOMATCH", "BADOP", "NONE"):
        return "dispatch: op %d (%s) was not delivered: %s" % (n, op, piece)
    msgs = parse_msgs(piece)
    if not tv:
        if len(msgs) != 1 or msgs[0][0] != "r":
            return "query: op %d: expected exactly one reply from /tv, got %s" % (n, piece)
        if msgs[0][1] != "/tv":
            return "query: op %d: reply at %s, the port's address is /tv" % (n, msgs[0][1])
        if msgs[0][3] != [str(tvs[0])]:
            return "query: op %d: /tv replied %s, stored %d" % (n, msgs[0][3], tvs[0])
        return None
    old, new = tvs[0], min(max(int(tv[1:]), TV_MIN), TV_MAX)
    tvs[0] = new
    bc = [m for m in msgs if m[0] == "b"]
    for rb, path, types, vals in bc:
        if path != "/tv":
            return "broadcast: op %d: broadcast at %s, the port's address is /tv" % (n, path)
        if vals != [str(new)]:
            return "broadcast: op %d: /tv broadcast carries %s, the stored value is %d" % (n, vals, new)
    if old != new and not bc:
        return "broadcast: op %d: /tv changed (%d) and nothing was broadcast" % (n, new)
    got = [(m[2], m[3]) for m in msgs if m[0] == "r" and m[1] == "/undo_change"]
    want = [("sii", [b"/tv".hex(), str(old), str(new)])] if old != new else []
    if got != want:
        return "top-undo: op %d: undo events of /tv %s, expected %s" % (n, got, want)
    return None

def stored_before(f, n):
    """the abstract store just before op n (oracle's own replay of the case)"""
    st = Store(f)
    for op in f[9].split(";")[:n]:
        if op[0] == "t":
            continue
        idxt, _, tv = op[1:].partition("=")
        elem = int(idxt) if st.kind in ARRAYS else 0
        if op[0] == "s" and elem < max(st.N, 1) and st.kind not in STRLEN:
            new = st.clamp(tv)
            if new is not None:
                st.vals[elem] = new
    return st

def spec_check(case, impl):
    f = case.split(" ")
    nan_from, nan_elems = nan_scope(f)
    nan_elems = set(nan_elems)
    soft = None
    if impl.startswith("CRASH") or impl.startswith("NOOUT") or impl.startswith("BAD"):
        return "crash: " + impl[:200]
    st = Store(f)
    k = st.kind
    name, depth = f[3], f[2]
    try:
        pieces, final = impl.split("#")
    except ValueError:
        return "format: " + impl[:100]
    if " " in final:
        return "frame: the object was touched outside the port's field:" + final[final.index(" "):]
    final, _, tv_final = final.partition("@")
    tvs = [int(f[12]) if len(f) > 12 and f[12] != "-" else 0]
    below = "om/" if k == "OM" else "sub/"
    pieces = pieces.split(";")
    ops = f[9].split(";")
    if len(pieces) != len(ops):
        return "format: %d answers for %d ops" % (len(pieces), len(ops))
    numeric = k in OWN_TAGS
    for n, (op, piece) in enumerate(zip(ops, pieces)):
        if n >= nan_from:
            break
        body = op[1:]
        idxt, _, tv = body.partition("=")
        elem = 0
        if op[0] == "t":
            bad = check_top(n, op, piece, tvs)
            if bad:
                return bad
            continue
        if k in ARRAYS:
            elem = int(idxt)
            if elem >= st.N:
                if piece != "NOMATCH":
                    return "frame: op %d: address %s%s names no element of %s#%d but was answered %s" % (
                        n, name, idxt, name, st.N, piece)
                continue
        if piece in ("NOMATCH", "BADOP", "NONE"):
            return "dispatch: op %d (%s) was not delivered: %s" % (n, op, piece)
        loc = "/" + (below if depth == "1" else "") + name + idxt
        msgs = parse_msgs(piece)
        if elem in nan_elems:
            # the element still holds its initial NaN: a set stores the clamped incoming value
            # whatever was there, the op itself is not judged
            if op[0] == "s":
                st.sets += 1
                st.vals[elem] = st.clamp(tv)
                nan_elems.discard(elem)
            continue
        if op[0] == "q":
            # replies the stored value at the port's full address and changes nothing
            if len(msgs) != 1 or msgs[0][0] != "r":
                return "query: op %d: expected exactly one reply, got %s" % (n, piece)
            rb, path, types, vals = msgs[0]
            if path != loc:
                return "query: op %d: reply at %s, the port's address is %s" % (n, path, loc)
            if k == "PS":
                want = bytes((v & 255) for v in st.vals).hex()
                if vals != [want]:
                    return "query: op %d: replied %s, stored %s" % (n, vals, want)
            elif k in TOGGLES:
                if types != ("T" if st.vals[elem] else "F"):
                    return "query: op %d: replied %s, stored %d" % (n, types, st.vals[elem])
            else:
                if vals != [st.value_text(st.vals[elem])]:
                    return "query: op %d: replied %s, stored %s" % (n, vals, st.value_text(st.vals[elem]))
            continue
        # a set
        st.sets += 1
        old = st.vals[elem]
        new = st.clamp(tv)
        if new is None:
            return "generator: unknown symbol"
        if k in STRLEN:
            changed = old.split(b"\0")[0] != new
            newtxt = new.hex() if new else "-"
            st.vals[elem] = new + b"\0"
        else:
            changed = st.differs(old, new)
            newtxt = st.value_text(new)
            st.vals[elem] = new
        bc = [m for m in msgs if m[0] == "b"]
        for rb, path, types, vals in bc:
            if path != loc:
                return "broadcast: op %d: broadcast at %s, the port's address is %s" % (n, path, loc)
            if k in TOGGLES:
                if types != ("T" if new else "F"):
                    return "broadcast: op %d: broadcast %s, stored %d" % (n, types, new)
            elif vals != [newtxt]:
                return "broadcast: op %d: broadcast carries %s, the stored value is %s" % (n, vals, newtxt)
        if changed and len(bc) < 1:
            return "broadcast: op %d: the value changed (%s) and nothing was broadcast" % (n, newtxt)
        if numeric:
            un = [m for m in msgs if m[0] == "r" and m[1] == "/undo_change"]
            want = [[loc.encode().hex(), st.value_text(old), newtxt]] if changed else []
            got = [m[3] for m in un]
            if got != want:
                fail = "undo: op %d: undo events %s, expected %s (old %s, stored %s)" % (
                    n, got, want, st.value_text(old), newtxt)
                # a failure inside a finding class does not end the evaluation
                if classify(case, impl, fail) is None:
                    return fail
                soft = soft or fail
            # the event carries both values with the port's own argument type: the set-messages an undo
            # history builds from it ("<address> ,<t> <value>") must be accepted by this port again
            for m in un:
                ty = m[2]
                if len(ty) != 3 or ty[0] != "s" or ty[1] != ty[2] or ty[1] not in OWN_TAGS[k]:
                    return ("undo-type: op %d: the undo event has type tags %r; a port of kind %s takes ',%s' - the event's "
                            "values would not reach the port again" % (n, ty, k, "' or ',".join(OWN_TAGS[k])))
    if nan_from < len(ops) or nan_elems:
        return soft
    if depth == "1" and tv_final != str(tvs[0]):
        return "clamp: the top level's tv holds %s after the history, expected %d" % (tv_final or "nothing", tvs[0])
    # final contents: the clamped / truncated / translated values, nothing else touched
    if k in STRLEN:
        got = bytes.fromhex(final).split(b"\0")[0]
        if len(bytes.fromhex(final)) != STRLEN[k] or b"\0" not in bytes.fromhex(final):
            return "string: buffer %s is not a terminated string of the declared length" % final
        if got != st.vals[0].split(b"\0")[0]:
            return "string: stored %s, expected %s" % (got.hex(), st.vals[0].split(b"\0")[0].hex())
    else:
        want = ",".join(st.value_text(v) for v in st.vals)
        if k == "CO":
            # rCOptionCb: setcode runs once for every set message
            want += ",%d" % st.sets
        if k == "ATM":
            want = ",".join("%d,%d" % ov for ov in zip(st.others, st.vals))
        if final != want:
            cls = "frame" if (k in ARRAYS or k == "PS") else "clamp"
            gl, wl = final.split(","), want.split(",")
            if cls == "frame" and len(gl) == len(wl):
                # the element(s) written by the ops vs. the untouched ones
                touched = {int(o[1:].partition("=")[0]) for o in ops if o[0] == "s" and int(o[1:].partition("=")[0]) < st.N}
                if k == "ATM":
                    touched = {2 * i + 1 for i in touched}
                if all(gl[i] == wl[i] for i in range(len(gl)) if i not in touched):
                    cls = "clamp"
            return "%s: final contents %s, expected %s" % (cls, final, want)
    return soft

def canon(case, line):
    return line

def nontrivial(case, impl):
    return case.count(";") >= 1 and ("b:" in impl) and nan_scope(case.split(" "))[0] > 0

UNDO_OP = __import__("re").compile(r"^undo: op (\d+): undo events (\[.*\]), expected (\[.*\]) \(old (-?\d+), stored (-?\d+)\)$")

def wrap8(x):
    return ((x + 128) % 256) - 128

def classify(case, impl, failure):
    """arrayI-wide-element: the undo clause fails on an rArrayI port whose elements are wider
    than char (kind AIW) for a set that addresses an element holding a value outside
    -128..127 (= the negation of the side condition 'char_range old' of the rArrayI case of
    numeric_set, C14_undo_iff_partial) AND what was emitted is exactly what the narrowing
    "char var" produces (C14_arrayI_wide_element_refuted): no event when (char)old equals the
    new value, else the one event (address, (char)old, new).  An event at another address,
    with another new value, a second event, or no event although (char)old differs from the
    new value is not in the class.  The stored value before the op is recomputed from the case."""
    import ast
    f = case.split(" ")
    m = UNDO_OP.match(failure)
    if not m or f[1] != "AIW":
        return None
    n = int(m.group(1))
    ops = f[9].split(";")
    if n >= len(ops) or ops[n][0] != "s":
        return None
    try:
        st = stored_before(f, n)
        elem = int(ops[n][1:].partition("=")[0])
        old = st.vals[elem]
        new = st.clamp(ops[n][1:].partition("=")[2])
        got, want = ast.literal_eval(m.group(2)), ast.literal_eval(m.group(3))
    except (ValueError, IndexError, SyntaxError):
        return None
    if -128 <= old <= 127 or new is None:
        return None
    # the message is the oracle's own (old, stored): it must agree with the replay of the case
    if int(m.group(4)) != old or int(m.group(5)) != new or len(want) != 1:
        return None
    loc = want[0][0]
    if wrap8(old) == new:
        return "arrayI-wide-element" if got == [] else None
    return "arrayI-wide-element" if got == [[loc, "%d" % wrap8(old), "%d" % new]] else None

def minimise(case, impl, failure, run):
    """drop ops one at a time while some Spec failure of the same class remains"""
    f = case.split(" ")
    cls = failure.split(":")[0]
    ops = f[9].split(";")
    changed = True
    while changed and len(ops) > 1:
        changed = False
        for i in range(len(ops)):
            cand = ops[:i] + ops[i + 1:]
            f2 = list(f); f2[9] = ";".join(cand)
            c2 = " ".join(f2)
            o2 = run([c2])[0]
            sf = spec_check(c2, o2)
            if sf and sf.split(":")[0] == cls:
                ops, case, impl, failure, changed = cand, c2, o2, sf, True
                break
    return case, impl, failure

TECHNIQUE = ("Coq proofs (case analysis per callback, induction over the address digits, the message history and "
             "the option list) about a per-macro executable model of port-sugar.h + differential correspondence "
             "against the real macro-generated callbacks dispatched through Ports::dispatch")
LEVEL_TEXT = ("For every port environment, address, stored value, incoming value and message history the model's callbacks "
              "store the clamped value, answer queries purely, broadcast the stored value, emit exactly one undo event "
              "(address, previous, new) iff the value changed - carrying the port's own argument type, so that the event's old / new "
              "value messages dispatched to the port restore / re-store the value (C14_undo_event_replays) -, touch only the "
              "addressed array element, truncate strings and "
              "translate known symbols (theorems of Properties_C14.v). The model is tied to the code on every run by running "
              "both on the same generated ports and message sequences and comparing every emitted message and the object.")
LEVEL_NOTE = ("Trusted: Coq kernel, extraction (ExtrOcamlBasic), OCaml driver, harness, generator, Python's atoi/atof stand-ins. "
              "The C++ macros are modelled by hand (coq/Ports/SugarModel.v) and related to the model only by the "
              "correspondence run. Preconditions: see assumptions.")
