"""Shared by the C01/C02/C07/C08 plug-ins: an independent Python reference
(OSC 1.0 encoder and decoder written from the specification text, not from
the Coq model) and the case generators."""
import struct

TAGS = "ifsbhtdScrmTFNI[]"
K4, K8, KS, KB = "ifcrm", "htd", "sS", "b"

def reserved(t):
    return t in K4 + K8 + KS + KB

def pad4z(b):
    return b + b"\0" * (4 - len(b) % 4)

def enc_payload(p):
    k = p[0]
    if k == "4":
        return struct.pack(">I", p[1])
    if k == "8":
        return struct.pack(">Q", p[1])
    if k == "s":
        return pad4z(p[1])
    if k == "b":
        ln, data = p[1], p[2]
        body = data if data is not None else b"\0" * ln
        return struct.pack(">I", ln) + body + b"\0" * ((4 - ln % 4) % 4)
    raise ValueError(k)

def enc_spec(addr, tags, args):
    return pad4z(addr) + pad4z(b"," + tags.encode("latin1")) + b"".join(enc_payload(p) for p in args)

def show_args(args):
    if not args:
        return "-"
    out = []
    for p in args:
        if p[0] in "48":
            out.append("%s:%d" % (p[0], p[1]))
        elif p[0] == "s":
            out.append("s:" + (p[1].hex() if p[1] else "-"))
        else:
            out.append("b:%d:%s" % (p[1], "NULL" if p[2] is None else (p[2].hex() if p[2] else "-")))
    return ";".join(out)

def parse_args(f):
    if f == "-":
        return []
    out = []
    for p in f.split(";"):
        q = p.split(":")
        if q[0] in "48":
            out.append((q[0], int(q[1])))
        elif q[0] == "s":
            out.append(("s", b"" if len(q) < 2 or q[1] == "-" else bytes.fromhex(q[1])))
        else:
            out.append(("b", int(q[1]), None if q[2] == "NULL" else (b"" if q[2] == "-" else bytes.fromhex(q[2]))))
    return out

def hx(b):
    return b.hex() if b else "-"

def expected_accessors(addr, tags, args):
    """What reading the spec encoding back must give: S N T G I fields."""
    pos = len(pad4z(addr))
    S = pos + 1
    pos += len(pad4z(b"," + tags.encode("latin1")))
    vals = []
    k = 0
    for t in tags:
        if t in "[]":
            continue
        if t in K4:
            vals.append((t, "4:%d" % args[k][1])); pos += 4; k += 1
        elif t in K8:
            vals.append((t, "8:%d" % args[k][1])); pos += 8; k += 1
        elif t in KS:
            vals.append((t, "s:%d" % pos)); pos += len(pad4z(args[k][1])); k += 1
        elif t in KB:
            vals.append((t, "b:%d:%d" % (args[k][1], pos + 4))); pos += len(enc_payload(args[k])); k += 1
        elif t == "T":
            vals.append((t, "T"))
        elif t == "F":
            vals.append((t, "F"))
        else:
            vals.append((t, "0"))
    T = "".join(t for t, _ in vals)
    return " S=%d N=%d T=%s G=%s I=%s" % (S, len(vals), hx(T.encode()),
                                          ",".join(v for _, v in vals) if vals else "-",
                                          ",".join("%02x:%s" % (ord(t), v) for t, v in vals) if vals else "-")

# ---- independent decoder for arbitrary bytes (C07) --------------------------
class NonCanonical(Exception):
    pass

def decode(b):
    """OSC 1.0 decoder written from the specification.  Returns
      None              b is not one complete OSC message
      "noncanonical"    the parse met a tag outside the 17 known ones or a
                        non-NUL padding byte: OSC 1.0 gives such bytes no
                        meaning, so for them only memory safety is demanded
      (S, vals)         otherwise: offset of the type tags, [(tag, repr)]"""
    try:
        return _decode(b)
    except NonCanonical:
        return "noncanonical"

def _decode(b):
    n = len(b)
    if n == 0 or b[0:1] != b"/":
        return None
    def string_at(pos):          # pos is 4-aligned
        e = b.find(b"\0", pos)
        if e < 0:
            return None
        end = (e // 4 + 1) * 4
        if end > n:
            return None
        if any(b[e:end]):
            raise NonCanonical()
        return e, end
    r = string_at(0)
    if r is None:
        return None
    pos = r[1]
    if pos >= n or b[pos:pos + 1] != b",":
        return None
    S = pos + 1
    r = string_at(pos)
    if r is None:
        return None
    tags = b[S:r[0]].decode("latin1")
    pos = r[1]
    vals = []
    for t in tags:
        if t in "[]":
            continue
        if t in K4:
            if pos + 4 > n: return None
            vals.append((t, "4:%d" % struct.unpack(">I", b[pos:pos + 4])[0])); pos += 4
        elif t in K8:
            if pos + 8 > n: return None
            vals.append((t, "8:%d" % struct.unpack(">Q", b[pos:pos + 8])[0])); pos += 8
        elif t in KS:
            r = string_at(pos)
            if r is None: return None
            vals.append((t, "s:%d" % pos)); pos = r[1]
        elif t in KB:
            if pos + 4 > n: return None
            ln = struct.unpack(">I", b[pos:pos + 4])[0]
            end = pos + 4 + ln + (4 - ln % 4) % 4
            if end > n: return None
            if any(b[pos + 4 + ln:end]):
                raise NonCanonical()
            vals.append((t, "b:%d:%d" % (ln, pos + 4))); pos = end
        elif t == "T":
            vals.append((t, "T"))
        elif t == "F":
            vals.append((t, "F"))
        elif t in "NI":
            vals.append((t, "0"))
        else:
            raise NonCanonical()
    if pos != n:
        return None
    return S, vals

# ---- generators --------------------------------------------------------------
BOUND32 = [0, 1, 2, 0x7f, 0x80, 0xff, 0x100, 0x7fffffff, 0x80000000, 0xffffffff, 0xfffffffe,
           0x3f800000, 0xbf800000, 0x7f800000, 0xff800000, 0x7fc00000, 0x7fc00001, 0xffc12345,
           0x7f800001, 0x00000001, 0x807fffff, 0x00800000, 0x12345678, 0xdeadbeef]
BOUND64 = [0, 1, 0xff, 0x7fffffffffffffff, 0x8000000000000000, 0xffffffffffffffff, 0x3ff0000000000000,
           0x7ff0000000000000, 0xfff8000000000001, 0x0000000000000001, 0x0123456789abcdef,
           0x00000000ffffffff, 0xffffffff00000000]

def rand_bytes(rng, n, nonul=False):
    lo = 1 if nonul else 0
    return bytes(rng.randint(lo, 255) for _ in range(n))

BIG_SIZES = [255, 256, 257, 300, 511, 512, 513, 768, 1000, 1023, 1024]   # the extracted model reads lists by position (quadratic): no 64 KiB payloads

def gen_value(rng, t):
    if t in K4:
        return ("4", rng.choice(BOUND32) if rng.random() < 0.6 else rng.getrandbits(32))
    if t in K8:
        return ("8", rng.choice(BOUND64) if rng.random() < 0.6 else rng.getrandbits(64))
    if t in KS:
        n = rng.choice([0, 0, 1, 2, 3, 4, 5, 7, 8, 11, 12, 16, rng.randint(0, 40)])
        return ("s", rand_bytes(rng, n, nonul=True))
    n = rng.choice([0, 0, 1, 2, 3, 4, 5, 7, 8, 12, 13, 16, rng.randint(0, 40)])
    if rng.random() < 0.2:
        return ("b", n, None)
    return ("b", n, rand_bytes(rng, n))

def gen_addr(rng):
    n = rng.choice([1, 2, 3, 4, 5, 6, 7, 8, 9, 11, 12, 15, 16, rng.randint(1, 64), 63, 64])
    return b"/" + bytes(rng.randint(33, 126) for _ in range(n - 1))

def gen_tags_random(rng):
    n = rng.choice([0, 1, 2, 3, 4, 5, 6, 8, 12, rng.randint(0, 40)])
    style = rng.random()
    if style < 0.3:   # balanced brackets
        out, depth = [], 0
        for _ in range(n):
            r = rng.random()
            if r < 0.15:
                out.append("["); depth += 1
            elif r < 0.3 and depth:
                out.append("]"); depth -= 1
            else:
                out.append(rng.choice(TAGS[:15]))
        out += "]" * depth
        return "".join(out)
    if style < 0.5:   # leading / unbalanced brackets
        return rng.choice(["[", "]", "[[", "]["]) + "".join(rng.choice(TAGS) for _ in range(n))
    return "".join(rng.choice(TAGS) for _ in range(n))

def all_tags_upto(k):
    out = [""]
    layer = [""]
    for _ in range(k):
        layer = [s + c for s in layer for c in TAGS]
        out += layer
    return out

def gen_message(rng, tags=None):
    addr = gen_addr(rng)
    if tags is None:
        tags = gen_tags_random(rng)
    args = [gen_value(rng, t) for t in tags if reserved(t)]
    return addr, tags, args

def msg_case(addr, tags, args):
    return "msg %s %s %s" % (addr.hex(), hx(tags.encode()), show_args(args))

def parse_fields(line):
    """'k=v k=v ...' -> dict (values never contain spaces)"""
    d = {}
    for f in line.split(" "):
        if "=" in f:
            k, v = f.split("=", 1)
            d[k] = v
    return d

def canon(case, line):
    """harness-only markers: V=na (a signalling NaN cannot pass through the
    default argument promotion), A=na (brackets have no arg-val form)"""
    line = line.replace(" V=na", " V=same").replace(" A=na", " A=same")
    if line.startswith("CRASH") and "AddressSanitizer" in line:
        return "OOB"
    return line
