"""C01: OSC 1.0 wire format - encoding is spec-exact, decoding is lossless."""
from props.osc_common import *

HARNESS = ["h_osc.cpp"]
DRIVER = "OSC"
VARIANT = "asan"
RULE = ("addresses '/'+printable of length 1..64 (every length mod 4); type-tag strings over the 15 value "
        "tags + '[' ']': all of length <= 2, a seeded third (quick) or all (thorough) of length 3, random up to 40 "
        "with balanced / unbalanced / leading brackets; values from boundary sets (INT_MIN/MAX, +-0, denormals, "
        "infinities, NaN payloads, strings and blobs of length 0, 4k, 4k+-1, NULL blob data) and random bits. "
        "Each case runs rtosc_amessage, rtosc_vmessage (hand-built va_list), rtosc_avmessage, rtosc_message_length "
        "and every accessor. Non-trivial = at least one value-carrying tag; distinct by case text.")
TRUSTED = ["harness/h_osc.cpp: construction of rtosc_arg_t / rtosc_arg_val_t arrays and of the x86-64 SysV va_list "
           "({gp_offset=48, fp_offset=304, overflow_arg_area=slots}) handed to rtosc_vmessage; C default argument "
           "promotions are not modelled (a signalling-NaN float cannot pass through them: such cases print V=na)",
           "tools/props/osc_common.py: the Python reference encoder used as Spec oracle on the implementation's output"]
ASSUMPTIONS = ["address non-empty and NUL-free, strings NUL-free, blob data length = len < 2^31, total size < 2^32 "
               "(the code's `unsigned pos`)", "arg-val lists do not contain array/range elements here (C16 covers those)"]
TECHNIQUE = ("Coq proofs (induction over the tag list) that the code-shaped size/writer/reader models equal the OSC 1.0 "
             "spec encoder and its inverse + differential correspondence of the extracted model against the real "
             "constructors and accessors under ASan")
LEVEL_TEXT = ("Theorems in coq/Properties_C01.v (for all addresses, tag strings and argument lists, no size bound) about the "
              "hand-written model coq/Osc/OscModel.v of vsosc_null / rtosc_amessage / the readers; the model is tied to "
              "/repo's working tree on every run by running both on the same generated messages and comparing return value, "
              "every byte, rtosc_message_length and every accessor result; the Python Spec encoder/decoder is evaluated on "
              "the implementation's own output.")
LEVEL_NOTE = ("Trusted: Coq kernel, extraction (ExtrOcamlBasic), OCaml driver, harness (incl. hand-built va_list), generator, "
              "Python reference. Modelled, not verified: the C code itself; default argument promotions.")

def gen(rng, tier, dist):
    out = []
    def add(addr, tags, args, cls):
        dist[cls] = dist.get(cls, 0) + 1
        dist["addrlen%%4=%d" % (len(addr) % 4)] = dist.get("addrlen%%4=%d" % (len(addr) % 4), 0) + 1
        out.append(msg_case(addr, tags, args))
    for tags in all_tags_upto(2):
        add(*gen_message(rng, tags), "tags<=2(exhaustive)")
    t3 = [a + b + c for a in TAGS for b in TAGS for c in TAGS]
    if tier == "quick":
        k = rng.randrange(3)
        t3 = t3[k::3]
    for tags in t3:
        add(*gen_message(rng, tags), "tags=3")
    for _ in range(2500 if tier == "quick" else 150000):
        add(*gen_message(rng), "random-tags")
    # sizes whose length word has a non-zero second or third byte, and long strings
    for n in BIG_SIZES if tier == "thorough" else rng.sample(BIG_SIZES, 4) + [256]:
        blob = ("b", n, rand_bytes(rng, n))
        s = ("s", rand_bytes(rng, n, nonul=True))
        i = ("4", rng.getrandbits(32))
        for tags, args in (("b", [blob]), ("bi", [blob, i]), ("sbi", [("s", b"x"), blob, i]),
                           ("s", [s]), ("si", [s, i]), ("ibs", [i, ("b", n, None), ("s", b"tail")])):
            add(gen_addr(rng), tags, args, "big-payload")
    return out

def spec_check(case, impl):
    f = case.split(" ")
    addr = bytes.fromhex(f[1]); tags = "" if f[2] == "-" else bytes.fromhex(f[2]).decode("latin1")
    args = parse_args(f[3])
    enc = enc_spec(addr, tags, args)
    exp = "p=%d r=%d b=%s L=%d V=same A=same%s" % (len(enc), len(enc), enc.hex(), len(enc),
                                                  expected_accessors(addr, tags, args))
    got = canon(case, impl)
    if got != exp:
        ge, ee = parse_fields(got), parse_fields(exp)
        bad = [k for k in ee if ge.get(k) != ee[k]]
        return "encoding/decoding: fields %s differ from the OSC 1.0 reference (got %s, expected %s)" % (
            bad, {k: ge.get(k) for k in bad}, {k: ee[k] for k in bad})
    return None

def nontrivial(case, impl):
    return case.split(" ")[3] != "-"
