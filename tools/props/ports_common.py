"""Port trees for the C18 / C09 plug-ins: generation, the case-line encoding,
and the Spec-side reading of names (independent of the Coq model).

A port is a dict
   segs : list of ('L', bytes) | ('E', int)      the path part of the name
   args : bytes                                   b'' or b':...'
   meta : None (NULL) | bytes (the whole block, terminators included)
   sub  : None | list of ports
   name : bytes = render(segs) + args
Tree encoding (one case-line field): tokens joined by ','
   ports := <count> port* ;  port := <hexname> <hexmeta|N> <0|1> [ports]
"""

def hx(b):
    return b.hex() if b else "-"

def unhx(h):
    return b"" if h == "-" else bytes.fromhex(h)

def render_segs(segs):
    out = b""
    for k, v in segs:
        out += v if k == 'L' else b"#" + str(v).encode()
    return out

def mk_port(segs, args=b"", meta=None, sub=None, **extra):
    p = dict(segs=segs, args=args, meta=meta, sub=sub, name=render_segs(segs) + args)
    p.update(extra)
    return p

def render_meta(entries):
    """the layout of rMap/rProp/rDoc: ':'key'\\0'['='value'\\0'] ... '\\0' (C17)"""
    out = b""
    for k, v in entries:
        out += b":" + k + b"\0"
        if v is not None:
            out += b"=" + v + b"\0"
    return out + b"\0"

def enc_tree(t):
    tok = [str(len(t))]
    for p in t:
        tok.append(hx(p['name']))
        tok.append("N" if p['meta'] is None else p['meta'].hex())
        if p['sub'] is None:
            tok.append("0")
        else:
            tok.append("1")
            tok.append(enc_tree(p['sub']))
    return ",".join(tok)

def parse_name(name):
    """raw name -> (segs, args): literal runs and '#<digits>'"""
    i = name.find(b":")
    path, args = (name, b"") if i < 0 else (name[:i], name[i:])
    segs, cur, j = [], b"", 0
    while j < len(path):
        if path[j:j+1] == b"#":
            if cur:
                segs.append(('L', cur)); cur = b""
            k = j + 1
            while k < len(path) and path[k:k+1].isdigit():
                k += 1
            segs.append(('E', int(path[j+1:k]) if k > j + 1 else 0))
            j = k
        else:
            cur += path[j:j+1]; j += 1
    if cur:
        segs.append(('L', cur))
    return segs, args

def dec_tree(field):
    tok = field.split(",")
    def ports(i):
        n = int(tok[i]); i += 1
        out = []
        for _ in range(n):
            name = unhx(tok[i]); meta = None if tok[i+1] == "N" else bytes.fromhex(tok[i+1]); fl = tok[i+2]
            i += 3
            sub = None
            if fl == "1":
                sub, i = ports(i)
            segs, args = parse_name(name)
            out.append(dict(segs=segs, args=args, meta=meta, sub=sub, name=name))
        return out, i
    return ports(0)[0]

# ---- Spec-side reading of a name ----------------------------------------------
def expand(segs):
    """all concrete names, leftmost index slowest"""
    outs = [b""]
    for k, v in segs:
        if k == 'L':
            outs = [o + v for o in outs]
        else:
            outs = [o + str(i).encode() for o in outs for i in range(v)]
    return outs

def n_hash(segs):
    return sum(1 for k, _ in segs if k == 'E')

SPECIAL = set(b"#:{}*")

def name_ok(p):
    """the names the theorems quantify over: literal characters are neither
    digits nor pattern characters, no two '#N' adjacent, 1 <= N < 10^9, the
    path part is non-empty, the argument part is empty or starts with ':',
    a sub-tree name ends with '/'"""
    segs = p['segs']
    if not segs:
        return False
    prev = None
    for k, v in segs:
        if k == 'L':
            if not v or any((c in SPECIAL) or (48 <= c <= 57) or c == 0 for c in v):
                return False
        else:
            if prev == 'E' or not (1 <= v < 10**9):
                return False
        prev = k
    if p['sub'] is not None:
        if segs[-1][0] != 'L' or not segs[-1][1].endswith(b"/"):
            return False
    return True

def table_prefix_free(t):
    """no concrete name of a port is a prefix of a concrete name of a sibling"""
    ex = [expand(p['segs']) for p in t]
    for i in range(len(t)):
        for j in range(len(t)):
            if i != j:
                for a in ex[i]:
                    for b in ex[j]:
                        if b.startswith(a):
                            return False
    return True

def spec_walk(t, prefix=b"/", ids=(), ok=True, out=None):
    """the Spec's enumeration: (id, address, ok) for every leaf under every
    expansion; ok = every table on the way is well-formed and prefix-free"""
    if out is None:
        out = []
    ok = ok and all(name_ok(p) for p in t) and table_prefix_free(t)
    for i, p in enumerate(t):
        if p['sub'] is None:
            for a in expand(p['segs']):
                out.append((ids + (i,), prefix + a, ok, p))
        else:
            for a in expand(p['segs']):
                if not a.endswith(b"/"):
                    a += b"/"
                spec_walk(p['sub'], prefix + a, ids + (i,), ok, out)
    return out

def subtrees(t, prefix=b"/", ids=(), ok=True, out=None):
    """(id, address with trailing '/', ok, port) of every sub-tree port under every expansion"""
    if out is None:
        out = []
    ok = ok and all(name_ok(p) for p in t) and table_prefix_free(t)
    for i, p in enumerate(t):
        if p['sub'] is not None:
            for a in expand(p['segs']):
                if not a.endswith(b"/"):
                    a += b"/"
                out.append((ids + (i,), prefix + a, ok, p))
                subtrees(p['sub'], prefix + a, ids + (i,), ok, out)
    return out

def show_id(ids):
    return ".".join(str(i) for i in ids)

# ---- generation ----------------------------------------------------------------------
def gen_segs(rng, dirty, is_sub, maxhash=2):
    """segments of one name.  clean: letters only in literals.  dirty = 'digits': clean
    shapes, digits among the literal characters.  dirty = True: digits in
    literals, '#0', adjacent enumerations, a sub-tree name without '/'."""
    alph = "abc" if not dirty else ("abc12" if dirty == 'digits' else "abc01")
    dirty = dirty is True
    segs = []
    ncomp = rng.choice([1, 1, 1, 2, 2, 3]) if is_sub or rng.random() < 0.3 else 1
    nh = 0
    for ci in range(ncomp):
        lit = "".join(rng.choice(alph) for _ in range(rng.choice([1, 1, 2, 2, 3])))
        if dirty and rng.random() < 0.5:
            lit = lit[:-1] + rng.choice("ab") if rng.random() < 0.5 else lit
        segs.append(('L', lit.encode()))
        if nh < maxhash and rng.random() < 0.35:
            n = rng.choice([1, 2, 2, 3, 3, 4, 11]) if not (dirty and rng.random() < 0.2) else 0
            segs.append(('E', n)); nh += 1
            if dirty and rng.random() < 0.15:
                segs.append(('E', 2))
            elif rng.random() < 0.3:
                segs.append(('L', rng.choice("abc").encode()))
        last = ci == ncomp - 1
        if not last or (is_sub and not (dirty and rng.random() < 0.2)) or (not is_sub and rng.random() < 0.05):
            if segs[-1][0] == 'L':
                segs[-1] = ('L', segs[-1][1] + b"/")
            else:
                segs.append(('L', b"/"))
    # merge adjacent literals
    out = []
    for s in segs:
        if out and out[-1][0] == 'L' and s[0] == 'L':
            out[-1] = ('L', out[-1][1] + s[1])
        else:
            out.append(s)
    return out

META_KEYS = [b"doc", b"parameter", b"min", b"max", b"a", b"map 0", b"unit", b"enabled by"]

def gen_meta(rng):
    r = rng.random()
    if r < 0.2:
        return None
    if r < 0.3:
        return b"\0"
    es = []
    for _ in range(rng.choice([1, 1, 2, 3, 5])):
        k = rng.choice(META_KEYS)
        if rng.random() < 0.3:
            es.append((k, None))
        else:
            es.append((k, bytes(rng.choice(b"xyz:= 09") for _ in range(rng.randint(0, 9)))))
    return render_meta(es)

def gen_tree(rng, depth, dirty, maxports=5, leaf_maxhash=1):
    n = rng.randint(1, maxports)
    t = []
    pool = []
    flavour, dirty = dirty, dirty is True
    for _ in range(n):
        is_sub = depth > 1 and rng.random() < 0.4
        if pool and rng.random() < (0.35 if dirty else 0.05):
            # a name related to an earlier one: duplicate, extension or prefix
            base = rng.choice(pool)
            segs = [s for s in base]
            r = rng.random()
            if r < 0.4 and segs[-1][0] == 'L':
                segs[-1] = ('L', segs[-1][1] + rng.choice("abc").encode())
            elif r < 0.6 and segs[-1][0] == 'L' and len(segs[-1][1]) > 1:
                segs[-1] = ('L', segs[-1][1][:-1])
        else:
            segs = gen_segs(rng, flavour, is_sub, maxhash=(2 if is_sub else leaf_maxhash))
        if is_sub and not (dirty and rng.random() < 0.2):
            if segs[-1][0] != 'L' or not segs[-1][1].endswith(b"/"):
                if segs[-1][0] == 'L':
                    segs[-1] = ('L', segs[-1][1] + b"/")
                else:
                    segs.append(('L', b"/"))
        pool.append(list(segs))
        args = rng.choice([b"", b"", b":i", b"::i", b":", b":T:F"]) if not is_sub else b""
        sub = gen_tree(rng, depth - 1, flavour, max(2, maxports - 1), leaf_maxhash) if is_sub else None
        t.append(mk_port(segs, args, gen_meta(rng), sub))
    return t


# ---- names_ok: the decidable hypothesis of C09_dispatchable / C18_lookup_names_ok_partial -----------------
# (a line-by-line mirror of coq/Ports/NamesOk.v; the driver prints the value the
#  extracted function gives, the plug-ins compare)
def _litchar(c):
    return 0 < c < 127 and c not in b":{*#"

def _segs_ok(segs):
    for i, (k, v) in enumerate(segs):
        if k == 'L':
            if not v or not all(_litchar(c) for c in v):
                return False
        else:
            if not (0 <= v < 10**9):
                return False
            if i + 1 < len(segs):
                if segs[i + 1][0] == 'E' or segs[i + 1][1][:1].isdigit():
                    return False
    return True

def _args_ok(a):
    return a == b"" or (a[:1] == b":" and 0 not in a and 35 not in a)

def _raw_segs(p):
    """the segments as the Coq side structures them: literal runs and '#<digits>'; None if
    the raw name does not have that form (a '#' without digits, digits with leading zeros)"""
    segs, args = parse_name(p['name'])
    if render_segs(segs) + args != p['name']:
        return None
    return segs, args

def _text_ok(t0):
    return len(t0) > 0 and all(_litchar(c) for c in t0) and 47 not in t0

def _leaf_ok(segs, args):
    if not _segs_ok(segs) or not segs:
        return False
    if segs[0][0] != 'L' or segs[0][1][:1] == b"/":
        return False
    if segs[-1][0] == 'L' and segs[-1][1].endswith(b"/"):
        return False
    return _args_ok(args)

def split_components(segs):
    """the segments of a sub-tree name as the Coq side structures them: every literal
    cut behind each of its '/' ("a#3/b#2/c/" = a #3 / b #2 / c/)"""
    out = []
    for k, v in segs:
        if k == 'E':
            out.append((k, v))
            continue
        cur = b""
        for c in v:
            cur += bytes([c])
            if c == 47:
                out.append(('L', cur)); cur = b""
        if cur:
            out.append(('L', cur))
    return out

def _comps_ok(segs):
    """one or more components "text/" or "text#N/" (NamesModel.comps_okb)"""
    i = 0
    while i < len(segs):
        k, t = segs[i]
        if k != 'L':
            return False
        if i + 1 < len(segs) and segs[i + 1][0] == 'E':
            if not (i + 2 < len(segs) and segs[i + 2] == ('L', b"/")):
                return False
            if not (_text_ok(t) and 0 <= segs[i + 1][1] < 10**9):
                return False
            i += 3
        else:
            if not (t.endswith(b"/") and _text_ok(t[:-1])):
                return False
            i += 1
    return True

def _sub_ok(segs, args):
    if args != b"" or not segs:
        return False
    return _comps_ok(split_components(segs))

def _toks(segs):
    """the tokens of a path part: its literal characters (ints), and '#' for every '#N'"""
    out = []
    for k, v in segs:
        if k == 'L':
            out += list(v)
        else:
            out.append('#')
    return out

def _clash(a, b):
    """NamesModel.clashb: literal characters must agree, '#N' against '#M' goes on behind both;
    the end of either name, or a '#N' against a literal digit, is a clash"""
    i = 0
    while True:
        if i >= len(a) or i >= len(b):
            return True
        x, y = a[i], b[i]
        if x == '#' and y == '#':
            pass
        elif x == '#':
            return 48 <= y <= 57
        elif y == '#':
            return 48 <= x <= 57
        elif x != y:
            return False
        i += 1

def _table_keys_free(t):
    ks = []
    for p in t:
        r = _raw_segs(p)
        if r is None:
            return False
        ks.append(_toks(r[0]))
    for i in range(len(ks)):
        for j in range(i + 1, len(ks)):
            if _clash(ks[i], ks[j]):
                return False
    return True

def _port_ok(p):
    r = _raw_segs(p)
    if r is None:
        return False
    segs, args = r
    if p['sub'] is None:
        return _leaf_ok(segs, args)
    return _sub_ok(segs, args) and _table_keys_free(p['sub']) and all(_port_ok(q) for q in p['sub'])

def names_ok(root):
    return _table_keys_free(root) and all(_port_ok(p) for p in root)


# ---- C18: the text's proviso, the side condition of C18_lookup_partial, and the Spec's reading of
# ---- an address (structural descent; independent of apropos and of the Coq model) -----------------
def clash_kind(a, b):
    """NamesModel.clashb split by its reason (LookupSpec.prefix_clashb / digit_facingb):
    'prefix' = one name ends while the tokens agree ("a sibling's name is a prefix of another's"),
    'digit'  = a '#N' meets a literal digit, None = the names part at a literal character"""
    i = 0
    while True:
        if i >= len(a) or i >= len(b):
            return 'prefix'
        x, y = a[i], b[i]
        if x == '#' and y == '#':
            pass
        elif x == '#':
            return 'digit' if 48 <= y <= 57 else None
        elif y == '#':
            return 'digit' if 48 <= x <= 57 else None
        elif x != y:
            return None
        i += 1

def _name_shape(p):
    """one name of the documented shape (NamesModel.leaf_okb / sub_okb; nothing about siblings)"""
    r = _raw_segs(p)
    if r is None:
        return False
    return _leaf_ok(*r) if p['sub'] is None else _sub_ok(*r)

def _tables(root):
    out = [root]
    for p in root:
        if p['sub'] is not None:
            out += _tables(p['sub'])
    return out

def _pairs(t, kind):
    ks = []
    for p in t:
        r = _raw_segs(p)
        ks.append(None if r is None else _toks(r[0]))
    for i in range(len(ks)):
        for j in range(i + 1, len(ks)):
            if ks[i] is None or ks[j] is None:
                continue
            if clash_kind(ks[i], ks[j]) == kind:
                return True
    return False

def _concrete_free(t):
    ex = []
    for p in t:
        r = _raw_segs(p)
        ex.append([] if r is None else expand(r[0]))
    for i in range(len(ex)):
        for j in range(i + 1, len(ex)):
            for a in ex[i]:
                for b in ex[j]:
                    if b.startswith(a) or a.startswith(b):
                        return False
    return True

def _enums_pos(p):
    r = _raw_segs(p)
    return r is not None and all(k == 'L' or v >= 1 for k, v in r[0])

def roundtrip(root):
    """every raw name has the form literal runs / '#<digits>' (the structured tree renders back to it)"""
    return all(_raw_segs(p) is not None for t in _tables(root) for p in t)

# tree-level mirrors of coq/Ports/LookupSpec.v (the driver prints the extracted values; both sides
# evaluate them only on trees that pass roundtrip)
def names_shape(root):
    return all(_name_shape(p) for t in _tables(root) for p in t)
def enums_pos(root):
    return all(_enums_pos(p) for t in _tables(root) for p in t)
def sibling_prefix_free(root):
    """the proviso of the property text: no concrete name of a port is a prefix of a concrete name of a sibling"""
    return all(_concrete_free(t) for t in _tables(root))
def key_prefix_free(root):
    return not any(_pairs(t, 'prefix') for t in _tables(root))
def no_digit_facing(root):
    """the side condition of C18_lookup_partial = the complement of the finding class lookup-leading-zero-alias"""
    return not any(_pairs(t, 'digit') for t in _tables(root))

def _text_name(p):
    """a name as the property texts describe it (C04/C05/C18): literal text (7-bit, none of : { * #)
    and '#N' enumerations with 1 <= N, the text behind a '#N' does not go on with a digit or another
    '#' (C05's documented form), an optional argument part ':...'; a sub-tree name ends in '/' and
    has no argument part; no name starts with '/'.  Wider than LookupSpec.names_shape (a#3b/ and a
    leaf ending in '/' are accepted here)."""
    r = _raw_segs(p)
    if r is None:
        return False
    segs, args = r
    if not segs or not _segs_ok(segs) or not _args_ok(args):
        return False
    if segs[0][0] == 'L' and segs[0][1][:1] == b"/":
        return False
    if p['sub'] is not None:
        return args == b"" and segs[-1][0] == 'L' and segs[-1][1].endswith(b"/")
    return True

def table_text_ok(t):
    """one table satisfies what the property text asks: names of the documented form, every
    enumeration non-empty, no concrete name a prefix of a sibling's"""
    return all(_text_name(p) and _enums_pos(p) for p in t) and _concrete_free(t)

def text_walk(t, prefix=b"/", ids=(), ok=True, out=None):
    """the Spec's enumeration of the walk: (id, address, ok, port) for every leaf under every
    expansion; ok = every table on the way satisfies table_text_ok"""
    if out is None:
        out = []
    ok = ok and table_text_ok(t)
    for i, p in enumerate(t):
        for a in expand(p['segs']):
            if p['sub'] is None:
                out.append((ids + (i,), prefix + a, ok, p))
            else:
                text_walk(p['sub'], prefix + (a if a.endswith(b"/") else a + b"/"), ids + (i,), ok, out)
    return out

def spells(segs, s):
    """C05's reading of a name against the beginning of s: literal text verbatim, at every '#N' a
    decimal index < N (leading zeros allowed); returns what may follow"""
    rests = {s}
    for k, v in segs:
        nxt = set()
        for r in rests:
            if k == 'L':
                if r.startswith(v):
                    nxt.add(r[len(v):])
            else:
                j = 0
                while j < len(r) and 48 <= r[j] <= 57:
                    j += 1
                    if int(r[:j]) < v:
                        nxt.add(r[j:])
        rests = nxt
    return rests

def addressed(t, rel):
    """the ports a relative address names, by structural descent: at every level a port whose name
    spells the next part of the address; the address ends with the name of the port.
    -> [(ids, port, ok, alias)]  ok = every table on the way is table_text_ok;
    alias = on the way two siblings of which a '#N' meets a literal digit both spelled a beginning"""
    out = []
    def go(t, rel, ids, ok, alias):
        ok = ok and table_text_ok(t)
        hits = []
        for i, p in enumerate(t):
            r = _raw_segs(p)
            if r is None:
                continue
            for rest in spells(r[0], rel):
                hits.append((i, p, rest, _toks(r[0])))
        who = {}
        for i, p, rest, k in hits:
            who[i] = k
        idx = sorted(who)
        here = any(clash_kind(who[a], who[b]) == 'digit' for x, a in enumerate(idx) for b in idx[x + 1:])
        for i, p, rest, k in hits:
            if rest == b"":
                out.append((ids + (i,), p, ok, alias or here))
            elif p['sub'] is not None:
                go(p['sub'], rest, ids + (i,), ok, alias or here)
    go(t, rel, (), True, False)
    return out
