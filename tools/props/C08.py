"""C08: bundles compose and decompose losslessly, including nesting."""
from props.osc_common import *
from props.C02 import tree_bytes, gen_tree
import struct

HARNESS = ["h_osc.cpp"]
DRIVER = "OSC"
VARIANT = "asan"
RULE = ("bundle trees of 0..8 elements per level, each a generated message (C01's generator) or a nested bundle, depth "
        "0..4, time tags 0, 1, 2^64-1 and random; built bottom-up with rtosc_bundle; rtosc_bundle_p, _elements, _fetch, "
        "_size, _timetag and rtosc_message_length are read for every bundle of the tree; plus plain messages given to "
        "rtosc_bundle_p. Non-trivial = a bundle with >= 2 elements or nesting; distinct by case text.")
TRUSTED = ["harness/h_osc.cpp: rtosc_bundle through a fixed-arity switch; element buffers carry a zero word after the payload"]
ASSUMPTIONS = ["elements are well-formed (length a positive multiple of 4) and followed by a zero word in memory",
               "bundles have at most 8 direct elements in the tie (the theorems have no bound)"]
TECHNIQUE = ("Coq proof by structural induction over the element tree that the readers invert the builder + differential "
             "correspondence on generated nested bundles under ASan")
LEVEL_TEXT = ("Theorems in coq/Properties_C08.v over an inductive element tree (unbounded nesting and element count): the buffer "
              "is recognised as a bundle, element count, each element's offset/size/bytes, the time tag and the total length "
              "that rtosc_message_length reports; a message whose address is not '#bundle' is not a bundle. Tied to the code by "
              "building the same trees with the real rtosc_bundle and comparing every reader's result.")
LEVEL_NOTE = "Trusted: Coq kernel, extraction, driver, harness, generator. The C code is modelled by hand (coq/Osc/OscModel.v)."

def show_tree(t):
    if t[0] == "M":
        return "M" + t[1].hex()
    return "B%d(%s)" % (t[1], ",".join(show_tree(k) for k in t[2]))

def parse_tree(s, i=0):
    if s[i] == "M":
        j = i + 1
        while j < len(s) and s[j] in "0123456789abcdef":
            j += 1
        return ("M", bytes.fromhex(s[i + 1:j])), j
    j = s.index("(", i)
    tt = int(s[i + 1:j]); i = j + 1
    kids = []
    while s[i] != ")":
        k, i = parse_tree(s, i)
        kids.append(k)
        if s[i] == ",":
            i += 1
    return ("B", tt, kids), i + 1

def expected(t):
    """one record per bundle, DFS order"""
    if t[0] == "M":
        return ""
    b = tree_bytes(t)
    pos = 16
    es = []
    for k in t[2]:
        kb = tree_bytes(k)
        es.append("%d:%d" % (pos + 4, len(kb)))
        pos += 4 + len(kb)
    rec = "[r=%d p=1 n=%d tt=%d L=%d e=%s b=%s]" % (len(b), len(t[2]), t[1], len(b), ",".join(es) if es else "-", b.hex())
    return rec + "".join(expected(k) for k in t[2])

def gen(rng, tier, dist):
    out = []
    n = 1200 if tier == "quick" else 40000
    for _ in range(n):
        d = rng.choice([0, 1, 1, 2, 2, 3, 4])
        k = rng.choice([0, 1, 2, 3, 4, 5, 8])
        tt = rng.choice([0, 1, 2**64 - 1, rng.getrandbits(64)])
        t = ("B", tt, [gen_tree(rng, d) for _ in range(k)])
        dist["depth<=%d" % d] = dist.get("depth<=%d" % d, 0) + 1
        dist["elements=%d" % k] = dist.get("elements=%d" % k, 0) + 1
        out.append("bun " + show_tree(t))
    # subtree_serialize: a bundle of the captured replies of a 3-parameter object, every capacity
    for _ in range(3 if tier == "quick" else 40):
        vals = [rng.choice([0, 1, -1, 127, -128, 2**31 - 1, -2**31, rng.randint(-1000, 1000)]) for _ in range(3)]
        for cap in range(0, 76 + 9):
            out.append("sub %d %d %d %d" % (cap, vals[0], vals[1], vals[2]))
            dist["subtree-capacities"] = dist.get("subtree-capacities", 0) + 1
    # a bundle lying across the wrap of a ring: every split of small nested bundles
    from props.C02 import tree_bytes
    for _ in range(40 if tier == "quick" else 1500):
        t = ("B", rng.getrandbits(64), [gen_tree(rng, rng.choice([0, 1, 2])) for _ in range(rng.choice([0, 1, 2, 3]))])
        b = tree_bytes(t)
        if len(b) > 160:
            continue
        for cut in range(len(b) + 1):
            out.append("ring %s %d" % (b.hex(), cut))
            dist["ring-splits"] = dist.get("ring-splits", 0) + 1
    for _ in range(300 if tier == "quick" else 5000):
        a, tg, ar = gen_message(rng)
        if rng.random() < 0.3:
            a = rng.choice([b"/#bundle", b"/bundle", b"#bundl", b"#bundlE", b"#bundle1", b"/"])
        out.append("pm " + enc_spec(a, tg, ar).hex())
        dist["plain-messages"] = dist.get("plain-messages", 0) + 1
    return out

def spec_check(case, impl):
    f = case.split(" ")
    if impl.startswith("CRASH") or impl == "NOOUT":
        return "bundles: the implementation crashed (%s)" % impl[:300]
    if f[0] == "sub":
        cap = int(f[1]); vals = [int(x) for x in f[2:5]]
        els = [enc_spec(n, "i", [("4", v & 0xffffffff)]) for n, v in zip([b"/a", b"/bcd", b"/efghi"], vals)]
        B = b"#bundle\0" + struct.pack(">Q", 0xdeadbeef0a0b0c0d) + b"".join(struct.pack(">I", len(e)) + e for e in els)
        g = parse_fields(impl)
        if cap >= len(B):
            # the bundle at the front of the block; what is left behind it inside the block is the tie's business
            want_r, want_b = len(B), hx(B)
            if g.get("r") != str(want_r) or g.get("b", "")[:2 * len(B)] != want_b:
                return "bundles: subtree_serialize with capacity %d: got r=%s, expected the %d-byte bundle of the three replies" % (cap, g.get("r"), len(B))
        else:
            # does not fit: 0 is returned and nothing outside the block is touched (ASan); the block keeps its size
            if g.get("r") != "0" or (cap and len(g.get("b", "")) != 2 * cap):
                return "bundles: subtree_serialize with capacity %d < %d returned %s" % (cap, len(B), g.get("r"))
        return None
    if f[0] == "ring":
        n = len(f[1]) // 2
        if impl != "RL=%d" % n:
            return "bundles: a %d-byte bundle split over two ring segments at %s is measured as %s" % (n, f[2], impl)
        return None
    if f[0] == "pm":
        if impl != "p=0":
            return "bundles: a plain message is reported as a bundle (%s)" % impl
        return None
    t, _ = parse_tree(f[1])
    exp = expected(t)
    if impl != exp:
        return "bundles: readers disagree with the composed tree: got %s expected %s" % (impl[:400], exp[:400])
    return None

def nontrivial(case, impl):
    return case.startswith("bun") and (case.count("B") >= 2 or case.count(",") >= 1)
canon = canon
