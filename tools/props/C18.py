"""C18 plug-in: path utilities - '..' collapsing, lookup by address, child search.
(plug-in interface: see tools/props/C17.py)

Streams (formats in harness/h_C18.cpp):
  collapse <hexpath>
  lookup   <tree> <hexaddr;...> <hexname;...>
  search   <tree> <hexloc> <hexneedle> <opt> <bufsize> <reply_with_query>
The Spec oracle below is written from the property text over the generated
tree / path; it does not use the Coq model."""
import itertools, struct
from props import ports_common as pc
from props.ports_common import hx, unhx

HARNESS = ["h_C18.cpp"]
VARIANT = "asan"
DRIVER = "C18"

RULE = ("collapse: every absolute path of 1..6 components over {'..','a',''} plus random paths of 1..8 components over "
        "{'..','.','','a','bc','...','a..','..a','x.y'}; lookup: generated trees of depth 1..4 (literal and '#N' segments, "
        "multi-component names, argument parts, literal digits, clean and deliberately clashing sibling names) x every walked "
        "address plus mutated addresses, and families of siblings of which a '#N' meets a literal digit (leading zero = alias, "
        ">= N, canonical); search: the same trees x locations (root, sub-tree addresses with and without trailing '/', leaf "
        "addresses, missing) x needles (prefixes of child names, '', misses) x the three options, metadata of every length "
        "0..60 incl. NULL and \"\", duplicate names, names below a 'name/' entry.  Non-trivial = a path with '..', a tree "
        "with >= 2 levels or '#', a search returning >= 2 entries.")
TRUSTED = ["harness/h_C18.cpp builds rtosc::Ports tables at run time (names, metadata blocks in exact-size heap buffers) and "
           "calls Ports::collapsePath, Ports::apropos, Ports::operator[], both rtosc::path_search overloads",
           "tools/props/ports_common.py: tree generator and the Spec-side reading of names (expansion of '#N', spelling of "
           "an address by a name, structural descent)"]
ASSUMPTIONS = ["collapse: the path is absolute (starts with '/'); components may be empty",
               "lookup: demanded for every walked (port, address) whose tables - from the root to the port - hold names of "
               "the documented form (literal text, digits included, and '#N' with 1 <= N; sub-tree names end in '/') of which "
               "no concrete name is a prefix of a sibling's concrete name (the proviso of the text, nothing more). Failures "
               "where two siblings of which a '#N' meets a literal digit both spell the address are the known finding "
               "lookup-leading-zero-alias (= the complement of the side condition of C18_lookup_partial)",
               "search: every reply is checked for its shape, the origin of each (name, metadata) pair, the needle, the "
               "order the option asks for, and the OSC encoding of the reply message; the exact set of children is demanded "
               "for the root and for every location that names a sub-tree port by structural descent (tables on the way as "
               "for lookup). What a search at a leaf address, at an address naming nothing, or without the trailing '/' "
               "returns, the content of the two query strings, and operator[] are compared with the model only",
               "search: types/args buffers large enough for the addressed table (documented precondition of path_search); "
               "metadata blocks in the rMap/rProp/rDoc layout, NULL or \"\"; port names non-empty"]

# ------------------------------------------------------------------------------------
def spec_collapse(p):
    comps = p[1:].split(b"/")
    st = []
    for c in comps:
        if c == b"..":
            if st:
                st.pop()
        else:
            st.append(c)
    return b"".join(b"/" + c for c in st)

def str_key(b):
    return b  # bytes compare as unsigned chars, like strcmp

def below(e, x):
    return len(e) < len(x) and x.startswith(e) and e.endswith(b"/")

def blob_of(meta):
    if meta is None or meta[:1] == b"\0" or meta == b"":
        return (0, None)
    return (len(meta), meta)

def spec_search(children, needle, opt):
    """children: list of ports (the addressed table, or [the addressed leaf])"""
    found = [p for p in children if p['name'].startswith(needle)]
    if opt >= 1:
        found = sorted(found, key=lambda p: p['name'])   # stable; ties canonicalised later
    if opt == 2:
        names = [p['name'] for p in found]
        found = [p for p in found if not any(below(e, p['name']) for e in names)]
    return [(p['name'],) + blob_of(p['meta']) for p in found]

def canon_entries(es):
    """entries with equal names may come in any order (std::sort): sort each run"""
    out, i = [], 0
    while i < len(es):
        j = i
        while j < len(es) and es[j][0] == es[i][0]:
            j += 1
        out += sorted(es[i:j], key=lambda e: (e[1], e[2] or b""))
        i = j
    return out

def parse_entries(field):
    if field == "-":
        return []
    out = []
    for e in field.split(";"):
        n, l, d = e.split(":")
        out.append((None if n == "NULL" else unhx(n), int(l), None if d == "N" else unhx(d)))
    return out

def osc_pad(b):
    return b + b"\0" * (4 - len(b) % 4)

def spec_reply(entries, query=None):
    tags = b"," + (b"ss" if query else b"") + b"sb" * len(entries)
    m = osc_pad(b"/paths") + osc_pad(tags)
    for q in query or ():
        m += osc_pad(q)
    for n, l, d in entries:
        m += osc_pad(n)
        m += struct.pack(">i", l) + (d or b"") + b"\0" * ((4 - l % 4) % 4)
    return m

# ------------------------------------------------------------------------------------
COLL_SMALL = [b"..", b"a", b""]
COLL_BIG = [b"..", b"..", b"..", b".", b"", b"a", b"bc", b"...", b"a..", b"..a", b"x.y"]

def bump(dist, k, n=1):
    dist[k] = dist.get(k, 0) + n

def gen(rng, tier, dist):
    out = []
    # ---- collapse
    maxlen = 6 if tier == "quick" else 8
    for n in range(1, maxlen + 1):
        for cs in itertools.product(COLL_SMALL, repeat=n):
            out.append("collapse " + hx(b"".join(b"/" + c for c in cs)))
            bump(dist, "collapse-exhaustive")
    for _ in range(2000 if tier == "quick" else 60000):
        n = rng.randint(1, 8)
        cs = [rng.choice(COLL_BIG) for _ in range(n)]
        out.append("collapse " + hx(b"".join(b"/" + c for c in cs)))
        bump(dist, "collapse-random-%d" % n)
    # kept components LONGER than everything removed to their right (an in-place move whose source and
    # destination overlap), and long removed ones next to short kept ones
    LONG = [b"envelope", b"oscillator12", b"a_rather_long_component_name", b"x" * 40, b"ab", b"q"]
    for _ in range(400 if tier == "quick" else 8000):
        n = rng.randint(2, 7)
        cs = [rng.choice(LONG + [b"..", b"..", b"a", b""]) for _ in range(n)]
        out.append("collapse " + hx(b"".join(b"/" + c for c in cs)))
        bump(dist, "collapse-long-components")
    # ---- wide tables: 17..40 children matching the needle at the queried location (std::sort
    # leaves its insertion-sort regime above 16 elements: the order then depends on the
    # comparators alone), with 'name/' entries, names below them, duplicates
    for k in range(60 if tier == "quick" else 1500):
        n = rng.randint(17, 40)
        stems = ["%s%02d" % (rng.choice("pdq"), rng.randint(0, 30)) for _ in range(n)]
        tab = []
        for st in stems:
            r = rng.random()
            if r < 0.2:
                nm = st + "/"
            elif r < 0.45:
                nm = rng.choice(stems) + "/" + rng.choice("abc")      # below a (possibly present) 'name/' entry
            else:
                nm = st
            tab.append(pc.mk_port([('L', nm.encode())], rng.choice([b"", b":i", b"::f"]), pc.gen_meta(rng), None))
        if rng.random() < 0.5:
            tree, loc = tab, rng.choice([b"", b"/"])
        else:
            tree, loc = [pc.mk_port([('L', b"w/")], b"", None, tab)], b"/w/"
        needle = rng.choice([b"", b"", b"p", b"d", b"q"])
        if sum(1 for p in tab if p['name'].startswith(needle)) < 17:
            needle = b""
        for opt in (0, 1, 2):
            out.append("search %s %s %s %d 16384 %d" % (pc.enc_tree(tree), hx(loc), hx(needle), opt, 1 if rng.random() < 0.2 else 0))
            bump(dist, "search-wide-table-opt-%d" % opt)
    # ---- siblings of which a '#N' meets a literal digit: the index text of the literal sibling has
    # a leading zero (the two names alias: finding class lookup-leading-zero-alias), is >= N (no
    # alias: the lookup is demanded and must hold), or is canonical (a concrete prefix: outside the text)
    for k in range(40 if tier == "quick" else 1200):
        stem = rng.choice([b"a", b"v", b"os"])
        n = rng.choice([2, 4, 11])
        digs = rng.choice([b"01", b"00", b"003", b"9", str(n).encode(), str(n + 7).encode(), b"1", b"010"])
        if rng.random() < 0.5:
            tail = rng.choice([b"b", b"x", b"b/c"])
            ps = [pc.mk_port([('L', stem), ('E', n), ('L', tail)], rng.choice([b"", b":i"]), pc.gen_meta(rng), None),
                  pc.mk_port([('L', stem + digs + tail)], b"", pc.gen_meta(rng), None)]
        else:
            deep = [pc.mk_port([('L', b"w")], b"", pc.gen_meta(rng), None), pc.mk_port([('L', b"u")], b"", None, None)]
            ps = [pc.mk_port([('L', stem), ('E', n), ('L', b"/")], b"", None,
                             [pc.mk_port([('L', b"x")], b"", pc.gen_meta(rng), None)]),
                  pc.mk_port([('L', stem + digs + b"/")], b"", pc.gen_meta(rng),
                             [pc.mk_port([('L', b"y")], b":f", pc.gen_meta(rng), None),
                              pc.mk_port([('L', b"c/")], b"", None, deep)])]
        if rng.random() < 0.3:
            ps.reverse()
        if rng.random() < 0.5:
            ps.insert(rng.randint(0, 2), pc.mk_port([('L', b"zz")], b"", None, None))
        et = pc.enc_tree(ps)
        walked = [a for _, a, _, _ in pc.text_walk(ps)]
        out.append("lookup %s %s %s" % (et, ";".join(hx(a) for a in walked + [b"/" + stem + b"1", b"/zz"]), hx(stem)))
        bump(dist, "digit-facing-lookup-addresses", len(walked) + 2)
        for _, a, _, _ in pc.subtrees(ps):
            for opt in (0, 1, 2):
                out.append("search %s %s %s %d 4096 %d" % (et, hx(a), hx(rng.choice([b"", b"", b"w", b"y"])), opt,
                                                          1 if rng.random() < 0.3 else 0))
                bump(dist, "digit-facing-search")
    # ---- trees
    ntree = 700 if tier == "quick" else 25000
    for k in range(ntree):
        r = rng.random()
        dirty = True if r < 0.3 else ('digits' if r < 0.5 else False)
        depth = rng.choice([1, 2, 2, 3, 3, 4])
        t = pc.gen_tree(rng, depth, dirty, maxports=rng.choice([2, 3, 4, 5, 6]))
        et = pc.enc_tree(t)
        bump(dist, "tree-depth-%d-%s" % (depth, "dirty" if dirty is True else "digits" if dirty else "clean"))
        if dirty == 'digits':
            bump(dist, "names_ok-trees-with-literal-digits", 1 if pc.names_ok(t) else 0)
        bump(dist, "names_ok-trees", 1 if pc.names_ok(t) else 0)
        walked = pc.spec_walk(t)
        subs = pc.subtrees(t)
        # lookup: walked addresses (capped) + mutations
        addrs = [a for _, a, _, _ in walked]
        rng.shuffle(addrs)
        addrs = addrs[:24]
        extra = []
        for a in addrs[:6]:
            r = rng.random()
            if r < 0.3 and len(a) > 1:
                extra.append(a[:-1])
            elif r < 0.6:
                extra.append(a + rng.choice([b"/", b"a", b"0", b"x"]))
            else:
                extra.append(a[1:])
        for _, a, _, _ in subs[:6]:
            extra.append(a)
            extra.append(a[:-1])
        extra += [b"", b"/", b"/zz", b"zz"]
        names = []
        for p in t:
            nm = p['name']
            i = nm.find(b":")
            base = nm if i < 0 else nm[:i]
            names.append(base)
            if rng.random() < 0.3:
                names.append(nm)
            if rng.random() < 0.3 and len(base) > 1:
                names.append(base[:-1])
        names.append(b"self")
        out.append("lookup %s %s %s" % (et, ";".join(hx(a) for a in addrs + extra), ";".join(hx(n) for n in names)))
        bump(dist, "lookup-addresses", len(addrs) + len(extra))
        # search: the root, sub-tree addresses (what the text speaks about), and - for the
        # comparison with the model - a sub-tree address without its '/', a leaf, a miss
        sa = [a for _, a, _, _ in subs]
        rng.shuffle(sa)
        locs = [rng.choice([b"", b"/"])] + sa[:4]
        if sa and rng.random() < 0.5:
            locs.append(rng.choice(sa)[:-1])
        if walked and rng.random() < 0.6:
            locs.append(rng.choice(walked)[1])
        if rng.random() < 0.3:
            locs.append(rng.choice([b"/nonexistent", b"", b"/"]))
        rng.shuffle(locs)
        for loc in locs[:6]:
            tab = gen_resolve(t, loc)
            cands = [b""]
            if tab:
                for p in tab[0]:
                    nm = p['name']
                    cands.append(nm[:rng.randint(0, len(nm))])
                    cands.append(nm)
            cands.append(b"zz")
            needle = rng.choice(cands)
            for opt in (0, 1, 2):
                bufsize = rng.choice([4096, 4096, 4096, 64, 16, 0])
                rwq = 1 if rng.random() < 0.3 else 0
                out.append("search %s %s %s %d %d %d" % (et, hx(loc), hx(needle), opt, bufsize, rwq))
                bump(dist, "search-opt-%d" % opt)
                bump(dist, "search-reply-with-query", rwq)
    return out

def gen_resolve(t, loc):
    """generator only: the table a location leads to (to pick needles from its names)"""
    if loc in (b"", b"/"):
        return (t,)
    for ids, a, ok, p in pc.subtrees(t):
        if a == loc:
            return (p['sub'],)
    for ids, a, ok, p in pc.spec_walk(t):
        if a == loc:
            return ([p],)
    return None

def osc_decode(m):
    """own reader of an OSC message: (address, tags, [args]) or None if it is not well-formed"""
    def cstr(i):
        j = m.find(b"\0", i)
        if j < 0:
            return None
        k = (j // 4 + 1) * 4
        if k > len(m) or any(m[j:k]):
            return None
        return m[i:j], k
    r = cstr(0)
    if r is None:
        return None
    addr, i = r
    r = cstr(i)
    if r is None or r[0][:1] != b",":
        return None
    tags, i = r[0][1:], r[1]
    args = []
    for t in tags:
        if t == 115:
            r = cstr(i)
            if r is None:
                return None
            args.append(r[0]); i = r[1]
        elif t == 98:
            if i + 4 > len(m):
                return None
            l = struct.unpack(">i", m[i:i+4])[0]
            k = i + 4 + (l + 3) // 4 * 4
            if l < 0 or k > len(m) or any(m[i+4+l:k]):
                return None
            args.append(m[i+4:i+4+l]); i = k
        else:
            return None
    if i != len(m):
        return None
    return addr, tags, args

def all_ports(t):
    for p in t:
        yield p
        if p['sub'] is not None:
            yield from all_ports(p['sub'])

def canonical(t, ids, rel):
    """the port `ids` is reached with every name on the way spelled the way the walk spells it
    (pc.expand: indices 0..N-1 without leading zeros) and rel ends with the port's name"""
    rests = {rel}
    for k, i in enumerate(ids):
        p = t[i]
        r = pc._raw_segs(p)
        if r is None:
            return False
        rests = {x[len(a):] for x in rests for a in pc.expand(r[0]) if x.startswith(a)}
        if not rests:
            return False
        if k + 1 < len(ids):
            t = p['sub']
    return b"" in rests

def finding_answer(t, rel):
    """the port the known finding lookup-leading-zero-alias predicts for a relative address:
    apropos takes, level by level, the FIRST port in table order that spells the address (C05's
    reading, leading zeros accepted: pc.spells) - first among the names holding a '/', going
    down when the address continues and the port has sub-ports, then among all names for what is
    left - and never comes back to a later sibling.  -> ids, or None (NULL: the descent dead-ends)"""
    ids = ()
    while True:
        down = None
        for i, p in enumerate(t):
            r = pc._raw_segs(p)
            if r is None or b"/" not in p['name']:
                continue
            rests = pc.spells(r[0], rel)
            if rests:
                down = (i, p, min(rests, key=len))
                break
        if down is not None:
            i, p, rest = down
            if p['sub'] is not None and rest:
                t, rel, ids = p['sub'], rest, ids + (i,)
                continue
            return ids + (i,)
        for i, p in enumerate(t):
            r = pc._raw_segs(p)
            if r is not None and rel and b"" in pc.spells(r[0], rel):
                return ids + (i,)
        return None

def port_at(t, ids):
    p = None
    for i in ids:
        p = t[i]
        t = p['sub']
    return p

def search_candidates(t, loc):
    """the Spec's reading of a location (structural descent, pc.addressed): the tables whose
    children the search must return, or None when the text demands nothing (the location
    names no port, names a leaf, or a table on the way is outside the quantifier).
    When several ports spell the location (a#4b/ and a01b/ for /a01b/: an index with a leading
    zero, C05) the RIGHT one is the port the walk reports that address for (`canonical`); the
    others are what the known finding may answer with, never accepted here.
    -> (list of child tables, alias, [(ids, port)] of the other ports spelling the location)"""
    if loc in (b"", b"/"):
        return ([t], False, [])
    rel = loc[1:] if loc[:1] == b"/" else loc
    hits = pc.addressed(t, rel)
    if not hits or any(p['sub'] is None or not ok for _, p, ok, _ in hits):
        return None
    right = [h for h in hits if canonical(t, h[0], rel)] or hits
    return ([p['sub'] for _, p, _, _ in right], any(al for _, _, _, al in hits),
            [(ids, p) for ids, p, _, _ in hits if all(ids != h[0] for h in right)])

def lookup_failures(case, impl):
    """[(address, got, want, alias)] for the walked addresses of tables inside the text's proviso"""
    f = case.split(" ")
    t = pc.dec_tree(f[1])
    addrs = [unhx(a) for a in f[2].split(";")]
    got = impl.split(" ")[0][2:].split(";")
    if len(got) != len(addrs):
        return None
    want = {}
    for ids, a, ok, p in pc.text_walk(t):
        if ok:
            want[a] = pc.show_id(ids)
    out = []
    for a, g in zip(addrs, got):
        if a in want and g != want[a]:
            named = {pc.show_id(ids): al for ids, _, _, al in pc.addressed(t, a[1:])}
            # alias: the wanted port lies behind a level where two digit-facing siblings both spell the
            # beginning of the address, and the answer is exactly the one the finding predicts: the port
            # (or NULL) the first-match descent of finding_answer ends at - /a01b/x -> NULL only if a#4b/
            # has no x, /a01b/ itself -> port a#4b/, never NULL
            fa = finding_answer(t, a[1:])
            out.append((a, g, want[a], bool(named.get(want[a])) and g == ("-" if fa is None else pc.show_id(fa))))
    return out

# ------------------------------------------------------------------------------------
def spec_check(case, impl):
    f = case.split(" ")
    if impl.startswith("CRASH") or impl == "NOOUT":
        return "crash: the implementation did not answer (%s)" % impl[:200]
    if f[0] == "collapse":
        p = unhx(f[1])
        want = spec_collapse(p)
        m = dict(x.split("=") for x in impl.split(" "))
        got = None if m.get("str") in (None, "OUTSIDE") else unhx(m["str"])
        off = int(m.get("off", "-1"))
        if got != want:
            return "collapse: %r collapsed to %r, the components give %r" % (p, got, want)
        if off != len(p) - len(want):
            return "collapse-position: result at offset %d, expected %d (inside the same buffer)" % (off, len(p) - len(want))
        if unhx(m["buf"])[:off] != p[:off]:
            return "collapse-frame: bytes before the result were modified"
        return None
    if f[0] == "lookup":
        # the text: an address the walk reported is looked up to the port it was reported with,
        # provided no sibling's (concrete) name is a prefix of another's - demanded for every
        # walked pair whose tables satisfy that (pc.table_text_ok).  Nothing else is demanded
        # (operator[] and unwalked addresses are compared with the model only).
        fl = lookup_failures(case, impl)
        if fl is None:
            return "lookup-shape: %d answers for %d addresses" % (len(impl.split(" ")[0][2:].split(";")), len(f[2].split(";")))
        fl.sort(key=lambda x: x[3])        # a failure outside the known alias class first
        for a, g, w, alias in fl:
            return "lookup: apropos(%r) returned port %s, the walk reports it for port %s" % (a, g, w)
        return None
    if f[0] == "search":
        t = pc.dec_tree(f[1])
        loc, needle, opt, bufsize, rwq = unhx(f[2]), unhx(f[3]), int(f[4]), int(f[5]), f[6] == "1"
        # ---- demanded of every reply: shape, origin of the entries, order, encoding
        if not impl.startswith("q="):
            return "search-shape: the type string is not (ss)? (sb)* (%s)" % impl[:100]
        m = dict(x.split("=", 1) for x in impl.split(" "))
        got = parse_entries(m["e"])
        if int(m["n"]) != len(got):
            return "search-shape: %s entries announced, %d listed" % (m["n"], len(got))
        known = {(p['name'],) + blob_of(p['meta']) for p in all_ports(t)}
        for e in got:
            if e[0] is None:
                return "search-shape: an entry without a name inside the reported range"
            if not e[0].startswith(needle):
                return "search-prefix: entry %r does not start with the needle %r" % (e[0], needle)
            if (e[0], e[1], e[2] if e[1] else None) not in known:
                return "search-pair: entry %r is no port of the tree paired with its metadata bytes" % (e,)
        names = [e[0] for e in got]
        if opt >= 1 and names != sorted(names):
            return "search-%d: the entries are not in string order: %r" % (opt, names)
        if opt == 2 and any(below(x, y) for x in names for y in names):
            return "search-2: an entry lies below a returned 'name/' entry: %r" % (names,)
        ret, hexm = m["msg"].split(":")
        ret, msg = int(ret), unhx(hexm) if hexm else b""
        if ret:
            d = osc_decode(msg) if ret == len(msg) and ret <= bufsize else None
            if d is None:
                return "reply: %d bytes returned, not a well-formed OSC message in the %d-byte buffer" % (ret, bufsize)
            addr, tags, args = d
            k0 = 2 if tags[:2] == b"ss" else 0
            if addr != b"/paths" or tags[k0:] != b"sb" * ((len(tags) - k0) // 2) or len(tags) % 2:
                return "reply: address %r, type string %r: not /paths (ss)? (sb)*" % (addr, tags)
            pairs = [(args[i], len(args[i+1]), args[i+1] or None) for i in range(k0, len(args), 2)]
            flat = [(e[0], e[1], e[2] if e[1] else None) for e in got]
            if (pairs if opt == 0 else canon_entries(pairs)) != (flat if opt == 0 else canon_entries(flat)):
                return "reply: the message carries %r, the search reported %r" % (pairs, flat)
        elif len(spec_reply(got, (loc, needle) if rwq else None)) <= bufsize:
            return "reply: nothing returned although the %d-byte message fits the %d-byte buffer" % (
                len(spec_reply(got, (loc, needle) if rwq else None)), bufsize)
        # ---- the addressed port: exactly its direct children whose names start with the needle
        c = search_candidates(t, loc)
        if c is None:
            return None
        flat = [(e[0], e[1], e[2] if e[1] else None) for e in got]
        wants = []
        for tab in c[0]:
            if any(not p['name'] for p in tab):
                return None
            w = spec_search(tab, needle, opt)
            wants.append(w if opt == 0 else canon_entries(w))
        if (flat if opt == 0 else canon_entries(flat)) not in wants:
            return "search-%d: location %r needle %r returned %r, the children give %r" % (opt, loc, needle, flat, wants[0])
        return None
    return "generator: unknown stream"

def mirror_bits(t):
    """names_ok and the predicates of LookupSpec.v as the generator reads them (canon compares
    them with the values of the extracted Coq functions on every lookup case)"""
    rt = pc.roundtrip(t)
    return "".join("1" if rt and g(t) else "0" for g in
                   (pc.names_ok, pc.names_shape, pc.enums_pos, pc.sibling_prefix_free, pc.key_prefix_free, pc.no_digit_facing))

def canon(case, line):
    f = case.split(" ")
    if f[0] == "lookup" and line.startswith("a="):
        if " ok=" in line:
            return line
        return line + " ok=" + mirror_bits(pc.dec_tree(f[1]))
    if f[0] == "search" and line.startswith("q="):
        m = dict(x.split("=", 1) for x in line.split(" "))
        raw = parse_entries(m["e"])
        if f[4] == "0":
            return line                  # table order: nothing is unspecified
        es = canon_entries(raw)
        ret, hexm = m["msg"].split(":")
        if len({e[0] for e in es}) == len(es):
            return "q=%s n=%s e=%r msg=%s:%s" % (m["q"], m["n"], es, ret, hexm)
        # equal names with different metadata came in another order (std::sort is not
        # stable): compare the entries as a canonical list and the message by size
        return "q=%s n=%s e=%r msg=%s" % (m["q"], m["n"], es, ret)
    return line

def nontrivial(case, impl):
    f = case.split(" ")
    if f[0] == "collapse":
        return b"/.." in unhx(f[1])
    if f[0] == "lookup":
        return ",1," in f[1] or "23" in f[1]
    if f[0] == "search":
        return impl.startswith("q=") and int(impl.split(" ")[1][2:]) >= 2
    return False

def classify(case, impl, failure):
    """lookup-leading-zero-alias: the address is spelled by two siblings of which a '#N' meets a
    literal digit (a#4b / a01b: "01" is an index of a#4b, C05) and apropos answered with the other
    one - the complement of the side condition no_digit_facing of C18_lookup_partial"""
    f = case.split(" ")
    if failure.startswith("lookup:"):
        fl = lookup_failures(case, impl)
        if fl and all(x[3] for x in fl):
            return "lookup-leading-zero-alias"
    if failure.startswith("search-") and failure[7:8] in "012" and "returned" in failure:
        # the search half of the finding: the location is resolved by the first-match descent of
        # apropos (finding_answer).  It ends at the OTHER aliased sub-tree (/a01b/ with a#4b/ in
        # front of a01b/): the reply is exactly that table's child set; or it dead-ends inside the
        # other sub-tree (/a01/c/ with a#4/ -> {x}): NULL, the reply is empty.  Anything else - an
        # empty reply where the other table has matching children, a reply from a third table, a
        # wrong order - stays a violation.
        t, loc, needle, opt = pc.dec_tree(f[1]), unhx(f[2]), unhx(f[3]), int(f[4])
        c = search_candidates(t, loc)
        if c is None or not c[1]:
            return None
        try:
            got = parse_entries(dict(x.split("=", 1) for x in impl.split(" "))["e"])
        except Exception:
            return None
        flat = [(e[0], e[1], e[2] if e[1] else None) for e in got]
        fa = finding_answer(t, loc[1:] if loc[:1] == b"/" else loc)
        if fa is None:
            return "lookup-leading-zero-alias" if not flat else None
        if any(ids == fa for ids, _ in c[2]):
            tab = port_at(t, fa)['sub']
            if tab is not None and not any(not p['name'] for p in tab):
                w = spec_search(tab, needle, opt)
                if (flat if opt == 0 else canon_entries(flat)) == (w if opt == 0 else canon_entries(w)):
                    return "lookup-leading-zero-alias"
    return None

TECHNIQUE = ("Coq proofs (induction over the component list; invariants of the backward cursor pass; sortedness and "
             "permutation of the child list) about a hand-written model of collapsePath / apropos / path_search + "
             "differential correspondence against the real functions under ASan")
LEVEL_TEXT = ("collapsePath: for every absolute path (any number and length of components) the in-place backward pass returns "
              "a position inside the same buffer holding exactly the forward stack-machine result, bytes before it untouched "
              "(C18_collapse). path_search: for every addressed table the three options return exactly the children whose names "
              "start with the needle, paired with their metadata bytes - in table order / as a sorted permutation / as the sorted "
              "permutation of the names not below a 'name/' entry, duplicates kept (C18_search_*), and the reply is the C01 "
              "encoding of those pairs (C18_reply_wellformed); the addressed table is the children of the port the location names by "
              "structural descent with C05's spelling relation, for leaves and sub-trees at any depth (C18_addressed_port, "
              "C18_search_addressed). Lookup: the clause as written is false (C18_lookup_refuted: siblings a#4b / a01b, known "
              "finding lookup-leading-zero-alias); every address the walk reports is found by apropos for names of the documented "
              "shape whose concrete sibling names are prefix-free AND where no '#N' meets a literal digit of a sibling - four "
              "decidable conditions evaluated on every generated tree (C18_lookup_partial).")
LEVEL_NOTE = ("Trusted: Coq kernel, extraction, OCaml driver, harness, generator. The C++ code is modelled by hand "
              "(coq/Ports/PathModel.v, NameModel.v) and related to the model only by the correspondence run.")
