"""Generated applications for C12 / C13 (see harness/h_C12_app.h).

An application is described abstractly (class App: per level a table of port
descriptions) and rendered three ways:
  tree()  the run-time port tables for the harness (names + metadata blocks),
  flat()  the flat list of parameter ports for the Coq model's driver,
  and it is interpreted directly by the Python reference semantics below
  (class Ref), which is what the Spec oracles use.
"""
import struct

NA = 8          # backing length of leaf arrays
NARR = 3        # elements of the enumerated sub-tree
LAST = 2

def hx(b):
    if isinstance(b, str):
        b = b.encode("latin-1")
    return b.hex() if b else "-"

def f2b(x):
    return struct.unpack("<I", struct.pack("<f", x))[0]

def b2f(b):
    return struct.unpack("<f", struct.pack("<I", b))[0]

def fbits(b):
    return "%08x" % b

# ---------------------------------------------------------------------------
# port kinds:  c (rParam, char)  i (rParamI)  f (rParamF)  t (rToggle)
#              o (rOption)  s (rString)  ai af at ao (leaf arrays)
KIND_OF_FID = {"c0": "c", "c1": "c", "i0": "i", "i1": "i", "f0": "f", "f1": "f", "t0": "t", "t1": "t",
               "o0": "o", "o1": "o", "s0": "s", "s1": "s", "ai": "ai", "af": "af", "at": "at", "ao": "ao"}
ARGSPEC = {"c": "::c", "i": "::i", "f": "::f", "t": "::T:F", "o": "::i:c:S", "s": "::s",
           "ai": "::i", "af": "::f", "at": "::T:F", "ao": "::i:c:S"}
STRCAP = {"s0": 16, "s1": 6}

def pretty_float(b):
    """savefile text of a float default: the library's own exact form"""
    x = b2f(b)
    return "%s (%s)" % (("%.2f" % x), float_hex(x))

def float_hex(x):
    # C's %a for a float promoted to double
    return x.hex().replace("0x1.0000000000000p", "0x1p").replace("0x0.0p+0", "0x0p+0")

class Leaf:
    """a parameter port of one level's table"""
    def __init__(self, fid, name, n=1):
        self.fid = fid
        self.kind = KIND_OF_FID[fid]
        self.name = name
        self.n = n                # declared length (arrays), 1 otherwise
        self.min = None           # converted bounds (ints; float bit patterns for f)
        self.max = None
        self.mintext = None
        self.maxtext = None
        self.opts = []            # [(number, symbol)]
        self.default = None       # list of values (length n), or None
        self.presets = {}         # selector value -> list of values
        self.depends = None       # relative path text of "default depends"
        self.rdepends = []        # rDepends(...) entries
        self.extra_meta = b""
        self.rep = False          # uniform array default written as a repetition [Nxv]
        self.nodef = False        # no rDefault / rPreset at all: never saved
        self.init = None          # contents of a new instance when there is no default
        self.eb_leaf = None       # "enabled by" on the leaf itself (read by scan_deps only)
    def is_array(self):
        return self.kind in ("ai", "af", "at", "ao")
    def elem_kind(self):
        return {"ai": "i", "af": "f", "at": "t", "ao": "o"}.get(self.kind, self.kind)
    def portname(self):
        return self.name + ("#%d" % self.n if self.is_array() else "") + ARGSPEC[self.kind]

class Child:
    def __init__(self, fid, name):
        self.fid = fid            # sub | arr | ptr
        self.name = name
        self.enabled_by = None    # text of "enabled by" on the recursion port
        self.rdepends = []
    def portname(self):
        return self.name + ("#%d" % NARR if self.fid == "arr" else "") + "/"

class Level:
    def __init__(self):
        self.ports = []           # Leaf | Child, in table order
        self.selector = None      # fid
        self.enabler = None       # fid (t0|t1) governing ptr
        self.ptr_init = False
        self.self_enabled_by = None   # rSelf(..., rEnabledBy(x)) of this level's table

def val_text(kind, v):
    """text of one value in a metadata default (what a developer writes)"""
    if kind in ("c",):
        return char_text(v)
    if kind in ("i", "ai"):
        return "%d" % v
    if kind in ("f", "af"):
        return ftext(b2f(v))        # defaults are exact three-decimal numbers
    if kind in ("t", "at"):
        return "true" if v else "false"
    if kind in ("o", "ao"):
        return "%d" % v
    if kind == "s":
        return string_text(v)
    raise ValueError(kind)

def char_text(v):
    esc = {7: "a", 8: "b", 9: "t", 10: "n", 11: "v", 12: "f", 13: "r", 39: "'", 92: "\\"}
    if v in esc:
        return "'\\%s'" % esc[v]
    return "'%c'" % v

def float_text(b):
    x = b2f(b)
    return float_hex(x)

def string_text(s):
    out = '"'
    for ch in s:
        c = chr(ch)
        if c == '"':
            out += '\\"'
        elif c == "\\":
            out += "\\\\"
        elif c == "\n":
            out += "\\n"
        elif c == "\t":
            out += "\\t"
        else:
            out += c
    return out + '"'

def default_text(p, vals, opts_symbolic=False):
    k = p.elem_kind()
    def one(v):
        if k == "o" and opts_symbolic:
            for num, sym in p.opts:
                if num == v:
                    return sym
        return val_text(k, v)
    if p.is_array():
        # a uniform default may be written as a repetition: rDefault([8x0])
        if getattr(p, "rep", False) and len(vals) >= 2 and all(v == vals[0] for v in vals):
            return "[%dx%s]" % (len(vals), one(vals[0]))
        return "[" + " ".join(one(v) for v in vals) + "]"
    return one(vals[0])

def meta_block(items):
    """items: list of (key, value|None) -> bytes"""
    out = b""
    for k, v in items:
        out += b":" + k.encode("latin-1") + b"\0"
        if v is not None:
            out += b"=" + (v if isinstance(v, bytes) else v.encode("latin-1")) + b"\0"
    return out + b"\0"

class App:
    def __init__(self):
        self.levels = [Level() for _ in range(LAST + 1)]
        self.sym_defaults = False

    # -- rendering for the harness ------------------------------------------
    def leaf_meta(self, p):
        items = [("parameter", None)]
        if p.mintext is not None:
            items.append(("min", p.mintext))
        if p.maxtext is not None:
            items.append(("max", p.maxtext))
        if p.kind in ("o", "ao"):
            items.append(("enumerated", None))
        for num, sym in p.opts:
            items.append(("map %d" % num, sym))
        if p.kind == "s":
            items.append(("length", "%d" % STRCAP[p.fid]))
        if p.eb_leaf is not None:
            items.append(("enabled by", p.eb_leaf))
        if p.depends is not None:
            items.append(("default depends", p.depends))
        for sv in sorted(p.presets):
            items.append(("default %d" % sv, default_text(p, p.presets[sv], self.sym_defaults)))
        if p.default is not None:
            items.append(("default", default_text(p, p.default, self.sym_defaults)))
        if p.rdepends:
            items.append(("depends", "".join(d + "," for d in p.rdepends)))
        items.append(("documentation", "d"))
        return meta_block(items)

    def child_meta(self, c):
        items = []
        if c.enabled_by is not None:
            items.append(("enabled by", c.enabled_by))
        if c.rdepends:
            items.append(("depends", "".join(d + "," for d in c.rdepends)))
        items.append(("documentation", "d"))
        return meta_block(items)

    def tree(self):
        if getattr(self, "static", False):
            # the harness uses its compiled tables; the model gets the same tables as text
            ports = static_macro_ports()
            def item(n, m):
                fid = "sub" if n.endswith("/") else ("subp" if n.endswith(":") and "::" not in n else "x")
                return "p,%s,%s,%s" % (fid, hx(n), hx(m))
            l0 = ";".join(item(n, m) for n, m in ports[:15])
            l1 = ";".join(item(n, m) for n, m in ports[15:])
            return "static@" + l0 + "|" + l1 + "|"
        out = []
        for lv in self.levels:
            items = []
            if lv.selector:
                items.append("s," + lv.selector)
            if lv.enabler:
                items.append("e," + lv.enabler)
            items.append("n,%d" % (1 if lv.ptr_init else 0))
            if lv.self_enabled_by is not None:
                items.append("p,self,%s,%s" % (hx("self:"), hx(meta_block(
                    [("internal", None), ("class", "Node"), ("enabled by", lv.self_enabled_by),
                     ("documentation", "port metadata")]))))
            for p in lv.ports:
                if isinstance(p, Leaf):
                    items.append("p,%s,%s,%s" % (p.fid, hx(p.portname()), hx(self.leaf_meta(p))))
                    if p.default is not None or p.presets or p.nodef:
                        items.append("d,%s,%s" % (p.fid, ":".join(field_text(p, v) for v in self.initial(lv, p))))
                else:
                    items.append("p,%s,%s,%s" % (p.fid, hx(p.portname()), hx(self.child_meta(p))))
                    if p.fid == "sub":
                        items.append("p,subp,%s,%s" % (hx(p.name + ":"), hx(meta_block(
                            [("internal", None), ("documentation", "get obj pointer")]))))
            # preset table of the selector
            if lv.selector:
                vals = set()
                for p in lv.ports:
                    if isinstance(p, Leaf) and p.depends is not None:
                        vals |= set(p.presets)
                for sv in sorted(vals):
                    for p in lv.ports:
                        if isinstance(p, Leaf) and p.depends is not None:
                            vs = p.presets.get(sv, p.default)
                            items.append("r,%d,%s,%s" % (sv, p.fid, ":".join(field_text(p, v) for v in pad(p, vs))))
                for p in lv.ports:
                    if isinstance(p, Leaf) and p.depends is not None and p.default is not None:
                        items.append("r,*,%s,%s" % (p.fid, ":".join(field_text(p, v) for v in pad(p, p.default))))
            out.append(";".join(items))
        return "|".join(out)

    def selector_leaf(self, lv):
        for p in lv.ports:
            if isinstance(p, Leaf) and p.fid == lv.selector:
                return p
        return None

    def initial(self, lv, p):
        """initial field contents (backing arrays have NA elements)"""
        if p.nodef:
            return pad(p, p.init)
        if p.depends is not None:
            sel = self.selector_leaf(lv)
            sv = sel.default[0]
            vs = p.presets.get(sv, p.default)
        else:
            vs = p.default
        return pad(p, vs)

def pad(p, vs):
    if p.is_array():
        return list(vs) + [zero_of(p.elem_kind())] * (NA - len(vs))
    return list(vs)

def zero_of(kind):
    return b"" if kind == "s" else 0

def field_text(p, v):
    k = p.elem_kind()
    if k == "f":
        return fbits(v)
    if k == "s":
        return hx(bytes(v))
    return "%d" % v

# ---------------------------------------------------------------------------
# flattening: one FlatPort per address the walk can reach
class FlatPort:
    def __init__(self, path, leaf, level):
        self.path = path
        self.leaf = leaf
        self.level = level
        self.sel = None       # flat index of the selector
        self.hard = []        # flat indices of toggles of pointer sub-trees above
        self.soft = []        # flat indices of "enabled by" toggles of embedded sub-trees above
        self.dirs = []        # [(directory path without trailing '/', Child)] from the root down
        self.rdeps = []       # flat indices named by rDepends / a leaf's own "enabled by"

def sv(kind, v):
    """scalar text of the case-line value syntax"""
    if kind in ("i", "ai", "o", "ao"):
        return "i%d" % v
    if kind == "c":
        return "c%d" % v
    if kind in ("f", "af"):
        return "f" + fbits(v)
    if kind in ("t", "at"):
        return "T" if v else "F"
    if kind == "s":
        return "s" + hx(bytes(v))
    raise ValueError(kind)

def flatten(app):
    flat = []
    dirs = {}     # path without trailing slash -> Child
    def visit(T, base, hard, soft, chain):
        lv = app.levels[T]
        mine = []
        for p in lv.ports:
            if isinstance(p, Leaf):
                fp = FlatPort(base + p.name, p, T)
                fp.hard = list(hard)
                fp.soft = list(soft)
                fp.dirs = list(chain)
                flat.append(fp)
                mine.append(fp)
        byfid = {fp.leaf.fid: flat.index(fp) for fp in mine}
        byname = {fp.leaf.name: flat.index(fp) for fp in mine}
        for fp in mine:
            if fp.leaf.depends is not None and lv.selector in byfid:
                fp.sel = byfid[lv.selector]
            fp.rdeps = sorted({byname[x] for x in list(fp.leaf.rdepends) + ([fp.leaf.eb_leaf] if fp.leaf.eb_leaf else [])
                               if x in byname})
        # rSelf(..., rEnabledBy(x)): everything in this table except x itself
        if lv.self_enabled_by is not None and lv.self_enabled_by in byname:
            g = byname[lv.self_enabled_by]
            for fp in mine:
                if flat.index(fp) != g:
                    fp.soft = fp.soft + [g]
            soft = soft + [g]
        for c in lv.ports:
            if isinstance(c, Child) and T < LAST:
                names = [c.name] if c.fid != "arr" else [c.name + str(i) for i in range(NARR)]
                for nm in names:
                    h2, s2 = list(hard), list(soft)
                    if c.fid == "ptr":
                        if lv.enabler and lv.enabler in byfid:
                            h2.append(byfid[lv.enabler])
                        elif not lv.ptr_init:
                            dirs[base + nm] = c
                            continue          # never exists
                    elif c.enabled_by is not None:
                        eb = c.enabled_by
                        if "/" in eb:         # "<child>/<toggle>": the toggle lives inside
                            inner = eb.split("/")[1]
                            s2 = s2 + [("inner", inner)]
                        elif eb in byname:
                            s2 = s2 + [byname[eb]]
                    dirs[base + nm] = c
                    visit(T + 1, base + nm + "/", h2, s2, chain + [(base + nm, c)])
    visit(0, "/", [], [], [])
    # resolve ("inner", name) guards: the toggle of that name in the first table below
    bypath = {fp.path: i for i, fp in enumerate(flat)}
    for i, fp in enumerate(flat):
        res = []
        for g in fp.soft:
            if isinstance(g, tuple):
                # find the directory that introduced it: the shallowest dir of fp whose child declares it
                for d, c in fp.dirs:
                    if c.enabled_by is not None and "/" in c.enabled_by and c.enabled_by.split("/")[1] == g[1]:
                        gi = bypath.get(d + "/" + g[1])
                        if gi is not None and gi != i and gi not in res:
                            res.append(gi)
            elif g not in res:
                res.append(g)
        fp.soft = res
    return flat, dirs

def elem_model_kind(p):
    return {"c": "c", "i": "i", "f": "f", "t": "t", "o": "o", "s": "s%d" % STRCAP.get(p.fid, 0),
            "ai": "b", "af": "f", "at": "t", "ao": "o"}[p.kind]

def value_text(p, vals):
    return ":".join(sv(p.kind, v) for v in vals) if vals else "-"

def flat_text(flat):
    out = []
    for fp in flat:
        p = fp.leaf
        opts = "+".join("%d=%s" % (n, hx(s)) for n, s in p.opts) if p.opts else "-"
        table = "+".join("%d=%s" % (k, value_text(p, v)) for k, v in sorted(p.presets.items())) if (p.presets and p.depends is not None) else "-"
        out.append(",".join([
            hx(fp.path), elem_model_kind(p), "1" if p.is_array() else "0", "%d" % p.n,
            "-" if p.min is None else "%d" % p.min, "-" if p.max is None else "%d" % p.max,
            opts, value_text(p, p.default) if not p.nodef else "-",
            "-" if fp.sel is None else "%d" % fp.sel, table,
            ".".join("%d" % g for g in fp.hard) if fp.hard else "-",
            ".".join("%d" % g for g in fp.soft) if fp.soft else "-",
            "1" if p.nodef else "0", value_text(p, p.init) if p.nodef else "-"]))
    return ";".join(out) if out else "-"

def apro_text(app, flat, dirs):
    def ov(x):
        return "n" if x is None else "h" + (x.encode("latin-1").hex())
    out = []
    for fp in flat:
        p = fp.leaf
        dep = "".join(d + "," for d in p.rdepends) if p.rdepends else None
        out.append("%s,%s,%s,%s" % (hx(fp.path), ov(p.eb_leaf), ov(dep), ov(p.depends)))
    for d, c in dirs.items():
        dep = "".join(x + "," for x in c.rdepends) if c.rdepends else None
        for path in (d, d + "/"):
            out.append("%s,%s,%s,%s" % (hx(path), ov(c.enabled_by), ov(dep), "n"))
    return ";".join(out) if out else "-"

# ---------------------------------------------------------------------------
# reference semantics (Python; independent of the Coq model)
def wrap8(x):
    return (x + 128) % 256 - 128

def fnan(b):
    return (b & 0x7fffffff) > 0x7f800000

def fkey(b):
    return b if b < 0x80000000 else -(b - 0x80000000)

def clamp_int(v, lo, hi):
    if lo is not None and v < lo:
        v = lo
    if hi is not None and v > hi:
        v = hi
    return v

class Ref:
    def __init__(self, app):
        self.app = app
        self.flat, self.dirs = flatten(app)
        self.bypath = {fp.path: i for i, fp in enumerate(self.flat)}
        self.st = [self.initial(i) for i in range(len(self.flat))]

    def default_under(self, i, selval):
        p = self.flat[i].leaf
        if self.flat[i].sel is not None and selval is not None and selval in p.presets:
            return list(p.presets[selval])
        return list(p.default)

    def initial(self, i):
        fp = self.flat[i]
        if fp.leaf.nodef:
            return list(fp.leaf.init)
        if fp.sel is None:
            return list(fp.leaf.default)
        return self.default_under(i, self.flat[fp.sel].leaf.default[0])

    def default_of(self, i, st=None):
        st = self.st if st is None else st
        fp = self.flat[i]
        if fp.sel is None:
            return list(fp.leaf.default)
        return self.default_under(i, st[fp.sel][0])

    def on(self, i, st=None):
        st = self.st if st is None else st
        return bool(st[i][0])

    def exists(self, i, st=None):
        return all(self.on(g, st) for g in self.flat[i].hard)

    def live(self, i, st=None):
        return self.exists(i, st) and all(self.on(g, st) for g in self.flat[i].soft)

    def store(self, p, v):
        """stored value for an incoming (tag, value); None if the port does not take it"""
        k = p.elem_kind()
        tag, x = v
        if k == "c" and tag == "c":
            lo = None if p.min is None else wrap8(p.min)
            hi = None if p.max is None else wrap8(p.max)
            return clamp_int(wrap8(x), lo, hi)
        if k == "i" and tag == "i":
            if p.kind == "ai":
                lo = None if p.min is None else wrap8(p.min)
                hi = None if p.max is None else wrap8(p.max)
                return clamp_int(wrap8(x), lo, hi)
            return clamp_int(x, p.min, p.max)
        if k == "f" and tag == "f":
            if fnan(x):
                return x
            if p.min is not None and fkey(x) < fkey(p.min):
                x = p.min
            if p.max is not None and fkey(x) > fkey(p.max):
                x = p.max
            return x
        if k == "t" and tag in ("T", "F"):
            return 1 if tag == "T" else 0
        if k == "o" and tag in ("i", "c"):
            return clamp_int(x, p.min, p.max)
        if k == "o" and tag == "S":
            for n, s in p.opts:
                if s.encode("latin-1") == bytes(x):
                    return n
            return -2147483648
        if k == "s" and tag == "s":
            return bytes(x)[:STRCAP[p.fid] - 1]
        return None

    def send(self, i, k, v):
        fp = self.flat[i]
        p = fp.leaf
        if k >= p.n:
            return False
        nv = self.store(p, v)
        if nv is None:
            return False
        if not self.exists(i):
            return False          # below an absent pointer sub-tree no leaf port is reached
        was_on = self.on(i)
        self.st[i] = list(self.st[i])
        self.st[i][k] = nv
        # preset selector
        for j, fq in enumerate(self.flat):
            if fq.sel == i:
                self.st[j] = self.default_of(j)
        # enabler of a pointer sub-tree, switched on
        if not was_on and self.on(i):
            for j, fq in enumerate(self.flat):
                if i in fq.hard:
                    self.st[j] = self.initial(j)
        return True

def feq(kind, a, b):
    """equality of stored values as the library compares them (floats: C ==)"""
    if kind in ("f", "af"):
        if fnan(a) or fnan(b):
            return False
        return fkey(a) == fkey(b) or (a & 0x7fffffff) == 0 and (b & 0x7fffffff) == 0
    return a == b

def shown_scalar(p, v):
    k = p.elem_kind()
    if k == "o":
        for n, s in p.opts:
            if n == v:
                return "S" + hx(s)
        return "i%d" % v
    return sv(p.kind, v)

def expected_line(p, path, cur, dfl):
    """(address, least number of values, all values shown) of the line a port
    with value cur and default dfl must produce, or None when it must not be saved"""
    k = p.kind
    if len(cur) == len(dfl) and all(feq(k, a, b) for a, b in zip(cur, dfl)):
        return None
    shown = [shown_scalar(p, v) for v in cur]
    if p.is_array():
        last = max(i for i in range(len(cur)) if i >= len(dfl) or not feq(k, cur[i], dfl[i]))
        return (path + "~[", last + 1, shown)
    return (path, len(shown), shown)

def parse_dump(ref, text):
    """harness / model dump -> ({path: [field texts]}, flags)"""
    vals, flags = {}, []
    if text == "-":
        return vals, flags
    for tok in text.split(","):
        if "=" not in tok:
            flags.append(tok)
            continue
        path, v = tok.split("=", 1)
        if v == "NULL":
            continue
        vals[path] = v.split(":")
    return vals, flags

def field_values(p, texts):
    k = p.elem_kind()
    out = []
    for t in texts:
        if k == "f":
            out.append(int(t, 16))
        elif k == "s":
            out.append(b"" if t == "-" else bytes.fromhex(t))
        else:
            out.append(int(t))
    return out

# ---------------------------------------------------------------------------
# generators
STEMS = ["vol", "pan", "gain", "mode", "tune", "cut", "res", "att", "dec", "sus", "rel", "lvl",
         "wet", "dry", "mix", "key", "osc2f", "p9v", "type", "shape", "b1t", "x", "yy", "Pz"]
KIDS = ["part", "fx", "kit", "voice", "env", "lfo", "sub3", "q"]
# long names (18..34 characters): with them an address alone takes 20..105 columns, so a saved line reaches the
# 80 columns of the default print options right behind its address (the first array element / the only value
# goes to a line of its own) or the address itself is longer than a line
LONG_STEMS = ["amplitude_envelope_sustain_level", "filter_cutoff_frequency_tracking", "oscillator_two_fine_detune",
              "stereo_pan_randomness", "velocity_sensing_function", "portamento_time_stretch_updown", "resonance_bandwidth_scale",
              "harmonic_magnitude_profile_type", "lfo_start_phase_randomness", "global_fine_detune_cents_x",
              "punch_strength_and_velocity", "unison_vibrato_speed_hz", "keyboard_shift_octaves", "Pminimal_note_key_limit",
              "noise_generator_colour_tilt", "envelope_free_mode_points_dt", "formant_vowel_sequence_pos", "b1t_crusher_resolution_bits"]
LONG_KIDS = ["additive_synth_voice_params", "effects_insertion_chain_unit", "modulation_matrix_routing_tab",
             "sub_oscillator_harmonic_bank", "global_amplitude_envelope_gen", "frequency_lfo_parameters_set",
             "kit_item_layer_settings", "padsynth_sample_builder_cfg"]
SYMS = ["lin", "log", "exp", "off", "saw", "sqr", "tri", "Part1", "m_2", "hi5"]
STR_ALPHA = [c for c in b'abcXYZ 019"\n%\\\'/#:,[]-_.\t']

def nice_float(rng):
    return rng.choice([-8.0, -2.5, -1.0, -0.125, 0.0, 0.25, 0.5, 1.0, 1.5, 3.75, 16.0, 100.0, 1000.5])

def ftext(x):
    s = "%.3f" % x
    return s

def prefix_free(names, n):
    return all(not (n.startswith(m) or m.startswith(n)) for m in names)

def gen_level(rng, T, app, opts):
    lv = app.levels[T]
    names = []
    leafnames = []
    def fresh_name(pool, leaf=False):
        # a leaf whose name extends the name of another leaf of the table ("gain", "gainmode"):
        # whole-name comparisons must not be replaced by prefix comparisons anywhere
        if leaf and leafnames and rng.random() < opts.get("p_prefix_name", 0.0):
            n = rng.choice(leafnames) + rng.choice(["x", "mode", "q"])
            if all(not m.startswith(n) for m in names):
                names.append(n)
                leafnames.append(n)
                return n
        for _ in range(50):
            n = rng.choice(pool)
            if prefix_free(names, n):
                names.append(n)
                if leaf:
                    leafnames.append(n)
                return n
        n = "n%dq" % len(names)
        names.append(n)
        return n
    STEMS, KIDS = (LONG_STEMS, LONG_KIDS) if opts.get("long_names") else (globals()["STEMS"], globals()["KIDS"])
    fids = list(KIND_OF_FID)
    rng.shuffle(fids)
    nleaf = rng.choice([1, 2, 3, 3, 4, 5, 6]) if T > 0 else rng.choice([2, 3, 4, 5, 6, 8])
    chosen = sorted(fids[:nleaf], key=lambda f: list(KIND_OF_FID).index(f))
    # a selector with dependents
    want_sel = rng.random() < opts.get("p_sel", 0.5)
    if want_sel:
        s = rng.choice(["i0", "o0"])
        if s not in chosen:
            chosen.append(s)
        lv.selector = s
    want_ptr = T < LAST and rng.random() < opts.get("p_ptr", 0.5)
    en = None
    if want_ptr and rng.random() < 0.8:
        en = rng.choice(["t0", "t1"])
        if en not in chosen:
            chosen.append(en)
        lv.enabler = en
    elif want_ptr:
        lv.ptr_init = rng.random() < 0.7
    leaves = []
    for fid in chosen:
        p = Leaf(fid, fresh_name(STEMS, leaf=True))
        k = p.kind
        if p.is_array():
            p.n = rng.choice([1, 2, 3, 4, 8])
            p.rep = p.n >= 2 and rng.random() < 0.5
        ek = p.elem_kind()
        if ek == "c":
            p.min, p.max, p.mintext, p.maxtext = 0, 127, "0", "127"      # what rParam itself declares
            p.default = [rng.choice([39, 64, 65, 92, 97, 126])] if rng.random() < 0.3 else [rng.randint(33, 126)]
        elif ek == "i":
            r = rng.random()
            if p.kind == "ai":
                lo, hi = rng.choice([(None, None), (0, 127), (-128, 127), (-5, 5), (-100, -3)])
            else:
                lo, hi = rng.choice([(None, None), (0, 127), (-1000, 1000), (-5, 5), (None, 10), (-7, None),
                                     (-2147483648, 2147483647), (-300, -100)])
            if fid == lv.selector:
                lo, hi = rng.choice([(0, 3), (0, 7), (-2, 5), (None, None)])
            p.min, p.max = lo, hi
            p.mintext = None if lo is None else "%d" % lo
            p.maxtext = None if hi is None else "%d" % hi
            def rnd():
                a = -50 if lo is None else lo
                b = 50 if hi is None else hi
                if p.kind == "ai":
                    a, b = max(a, -128), min(b, 127)
                return rng.randint(a, b)
            p.default = [rnd() for _ in range(p.n)]
            if fid == lv.selector:
                p.default = [rng.choice([0, 0, 1, 2])]
        elif ek == "f":
            if rng.random() < 0.3:
                lo = hi = None
            else:
                a, b = sorted([nice_float(rng), nice_float(rng)])
                lo, hi = a, b
                if rng.random() < 0.3:
                    lo = None
                elif rng.random() < 0.3:
                    hi = None
            p.mintext = None if lo is None else ftext(lo)
            p.maxtext = None if hi is None else ftext(hi)
            p.min = None if lo is None else f2b(lo)
            p.max = None if hi is None else f2b(hi)
            def rndf():
                for _ in range(30):
                    x = nice_float(rng)
                    if (lo is None or x >= lo) and (hi is None or x <= hi):
                        return f2b(x)
                return f2b(lo if lo is not None else hi)
            p.default = [rndf() for _ in range(p.n)]
        elif ek == "t":
            p.default = [rng.choice([0, 0, 1]) for _ in range(p.n)]
            if fid == en:
                p.default = [1 if rng.random() < 0.25 else 0]
        elif ek == "o":
            n = rng.choice([2, 3, 4, 6])
            syms = rng.sample(SYMS, n)
            start = rng.choice([0, 0, 0, 1, -2])
            p.opts = [(start + i, syms[i]) for i in range(n)]
            if p.is_array() or rng.random() < 0.5:      # arrays: rOptionsBound (a number without symbol would make a mixed array)
                p.min, p.max = start, start + n - 1
                p.mintext, p.maxtext = "%d" % p.min, "%d" % p.max
            p.default = [rng.randint(start, start + n - 1) for _ in range(p.n)]
            if fid == lv.selector:
                p.default = [start]
        elif ek == "s":
            cap = STRCAP[fid]
            p.default = [bytes(rng.choice(b"abcxyz 12") for _ in range(rng.randint(0, min(cap - 1, 6))))]
        if p.rep:
            p.default = [p.default[0]] * p.n
        if fid not in (lv.selector, en) and rng.random() < opts.get("p_nodef", 0.08):
            p.nodef = True            # a parameter without rDefault
            p.init = p.default
            p.default = None
        leaves.append(p)
    # dependents of the selector
    if lv.selector:
        sel = [p for p in leaves if p.fid == lv.selector][0]
        cands = [p for p in leaves if p.fid != lv.selector and p.fid != en and p.kind != "s" and not p.nodef]
        rng.shuffle(cands)
        keys = [sel.default[0] + d for d in range(0, rng.choice([1, 2, 3]))]
        if rng.random() < 0.5:
            keys = keys[1:] or keys         # the initial selection falls back to the plain default
        for p in cands[:rng.choice([1, 1, 2, 3])]:
            p.depends = sel.name
            for kk in keys:
                q = gen_value_in_range(rng, p)
                if p.rep:
                    q = [q[0]] * p.n
                p.presets[kk] = q
    # declared dependencies between the leaves of this table (rDepends lists,
    # several keys naming the same port, chains and diamonds): leaf k may name
    # leaves in front of it (acyclic by construction)
    if len(leaves) >= 5 and rng.random() < opts.get("p_chain", 0.0):
        # one long chain: leaf k names exactly the leaf in front of it (no short cuts), so that the
        # first and the last are joined only through all the others (C13: files where the ports in
        # between have no line - the recursion of scan_deps through >= 3 absent ports)
        order = list(leaves)
        rng.shuffle(order)
        order.sort(key=lambda q: 0 if q.fid == lv.selector else 1)
        for k in range(1, len(order)):
            order[k].rdepends = [order[k - 1].name]
    elif rng.random() < opts.get("p_rdep", 0.0):
        order = list(leaves)
        rng.shuffle(order)
        order.sort(key=lambda q: 0 if q.fid == lv.selector else 1)      # "default depends" edges point at the selector
        for k in range(1, len(order)):
            p = order[k]
            if rng.random() < 0.6:
                m = rng.choice([1, 1, 2, 2, 3, 4])
                p.rdepends = [q.name for q in rng.sample(order[:k], min(m, k))]
                if rng.random() < 0.3:
                    p.rdepends.append(rng.choice(p.rdepends))          # the same port twice
            if p.depends is not None and rng.random() < 0.5 and p.depends in [q.name for q in order[:k]]:
                p.rdepends = p.rdepends + [p.depends]                   # rDepends and rDefaultDepends name one port
            if rng.random() < 0.25 and p.fid != lv.selector:
                tg = p.rdepends[0] if (p.rdepends and rng.random() < 0.7) else None
                if tg is None:
                    tg = rng.choice(order[:k]).name
                p.eb_leaf = tg                                          # "enabled by" on a leaf (scan_deps reads it)
    lv.ports = list(leaves)
    # rSelf(..., rEnabledBy(x)): the table's own switch
    # (on the ROOT table only when opts["p_self0"] asks for it: scan_deps reaches the root's "self:" from the
    #  iteration of a root-level port, rel2abs("self:", "/x") = "/self:" - the walk never visits "" as a directory)
    if (T > 0 and rng.random() < opts.get("p_self", 0.0)) or \
       (T == 0 and opts.get("p_self0", 0.0) and rng.random() < opts["p_self0"]):
        # (a switch whose own default depended on a selector it disables would make the application
        #  ill formed: the selector is not saved while the switch is off - wf_app, notes/C12.md stage 4)
        togg = [p for p in leaves if p.kind == "t" and p.fid != lv.enabler and p.depends is None]
        if togg:
            tg = rng.choice(togg)
            lv.self_enabled_by = tg.name
            # every other port of the table waits for this switch (scan_deps reads the "self:" port of the
            # directory), so the switch must not wait for one of them: cyclic metadata (D31)
            if not opts.get("cyclic"):
                tg.rdepends, tg.eb_leaf = [], None
    # children
    if T < LAST:
        kinds = []
        if want_ptr:
            kinds.append("ptr")
        if rng.random() < opts.get("p_sub", 0.5):
            kinds.append("sub")
        if rng.random() < opts.get("p_arr", 0.4):
            kinds.append("arr")
        for kf in kinds:
            c = Child(kf, fresh_name(KIDS))
            lo = 0
            if kf == "ptr" and lv.enabler:
                c.enabled_by = [p for p in leaves if p.fid == lv.enabler][0].name
            elif kf in ("sub", "arr") and (kf == "sub" or opts.get("inner_arr", True)) and rng.random() < opts.get("p_inner", 0.0):
                # the switch lives inside the sub-tree: "enabled by" = "<child>/<toggle>"
                nxt = app.levels[T + 1]
                togg = [p for p in nxt.ports if isinstance(p, Leaf) and p.kind == "t" and p.fid != nxt.enabler
                        and p.depends is None]
                if togg:
                    tg = rng.choice(togg)
                    if nxt.self_enabled_by is not None and not opts.get("cyclic"):
                        # the sub-tree's table has its own switch (rSelf): both forms name that one port
                        # (two different switches would wait for each other)
                        tg = [p for p in togg if p.name == nxt.self_enabled_by][0]
                    # (an enumerated sub-tree names the switch through its own name: "arr#3/tg" - every
                    #  element is switched by the port of that name inside itself)
                    c.enabled_by = c.portname() + tg.name
                    # every port of the sub-tree waits for this switch (its parent's "enabled by"), so the
                    # switch must not itself wait for a port of the sub-tree: the metadata would be cyclic
                    # (D31, notes/C12.md stage 4) unless opts["cyclic"] asks for exactly that
                    if not opts.get("cyclic"):
                        tg.rdepends, tg.eb_leaf = [], None
            elif kf in ("sub", "arr") and rng.random() < opts.get("p_soft", 0.0):
                togg = [p for p in leaves if p.kind == "t" and p.fid != lv.enabler]
                if togg:
                    tg = rng.choice(togg)
                    if rng.random() < opts.get("p_ext", 0.5) and tg.name != lv.self_enabled_by:
                        # the toggle's name extends the sub-tree's name (fx_on / fx/, kit0n / kit#3/): a lookup
                        # of the sub-tree's address without its '/' would find the leaf by prefix
                        rename_leaf(lv, leaves, names, tg, c.name + rng.choice(["_on", "on", "0n"]))
                        lo = lv.ports.index(tg) + 1 if rng.random() < 0.8 else 0
                    c.enabled_by = tg.name
            lv.ports.insert(rng.randint(lo, len(lv.ports)), c)

def rename_leaf(lv, leaves, names, leaf, new):
    """give a leaf of the table under construction another name; every reference inside the table follows"""
    old = leaf.name
    leaf.name = new
    if old in names:
        names[names.index(old)] = new
    else:
        names.append(new)
    for q in leaves:
        q.rdepends = [new if x == old else x for x in q.rdepends]
        if q.eb_leaf == old:
            q.eb_leaf = new
        if q.depends == old:
            q.depends = new
    for c in lv.ports:
        if isinstance(c, Child) and c.enabled_by == old:
            c.enabled_by = new
    if lv.self_enabled_by == old:
        lv.self_enabled_by = new

def gen_value_in_range(rng, p):
    """a full value (list) inside the declared range"""
    ek = p.elem_kind()
    out = []
    for _ in range(p.n):
        if ek == "c":
            out.append(rng.randint(33, 126))
        elif ek == "i":
            lo = -50 if p.min is None else p.min
            hi = 50 if p.max is None else p.max
            if p.kind == "ai":
                lo, hi = max(lo, -128), min(hi, 127)
            out.append(rng.randint(lo, min(hi, lo + 400)))
        elif ek == "f":
            for _ in range(40):
                x = nice_float(rng)
                if (p.min is None or x >= b2f(p.min)) and (p.max is None or x <= b2f(p.max)):
                    break
            else:
                x = b2f(p.min if p.min is not None else p.max)
            out.append(f2b(x))
        elif ek == "t":
            out.append(rng.choice([0, 1]))
        elif ek == "o":
            out.append(rng.choice([n for n, _ in p.opts]))
        elif ek == "s":
            out.append(b"pre")
    return out

def gen_app(rng, opts=None):
    opts = opts or {}
    app = App()
    app.sym_defaults = rng.random() < 0.5
    for T in (2, 1, 0):
        gen_level(rng, T, app, opts)
    return app

INT_EXTREMES = [-2147483648, 2147483647, -1, 0, 1, 127, 128, -128, -129, 255, 256, 65536]
FLT_SPECIAL = [0x00000000, 0x80000000, 0x00000001, 0x80000001, 0x7f7fffff, 0xff7fffff, 0x3f800000, 0xbf800000,
               0x3dcccccd, 0x00800000, 0x4b000000]      # finite values only (inf: see notes)

FLT_NONFINITE = [0x7f800000, 0xff800000]                   # +inf, -inf (a NaN compares unequal to itself: "the same state" is not defined for it)
UNKNOWN_SYMS = [b"zzz", b"none", b"Sine"]                    # in no generated map (SYMS are lower case words)

def near_default_floats(p, k=0):
    """bit patterns next to the default of element k of a float port, inside the declared range"""
    if getattr(p, "default", None) is None:
        return []
    d = p.default[min(k, len(p.default) - 1)]
    if fnan(d):
        return []
    cands = []
    if d & 0x7fffffff == 0:
        for m in (0x00800000, 0x00000001, 0x00000002, f2b(1e-8)):
            cands += [m, m | 0x80000000]
    else:
        for dlt in (1, 2, -1, -2):
            b = d + dlt
            if (b ^ d) & 0x80000000 == 0 and (b & 0x7f800000) != 0x7f800000 and (b & 0x7fffffff) != 0:
                cands.append(b)
    lo = None if p.min is None else b2f(p.min)
    hi = None if p.max is None else b2f(p.max)
    return [b for b in cands if (lo is None or b2f(b) >= lo) and (hi is None or b2f(b) <= hi)]

def gen_incoming(rng, p, exotic=0.0, k=0):
    """(tag, value) of a random parameter message for one element of p.
    exotic > 0 (C12 only): with that probability a float port is sent a non-finite value and a scalar option
    port a symbol that is not in its map - legal messages whose states the savefile does not carry
    (finding classes nonfinite-float / option-outside-range, notes/C12.md stage 6)"""
    ek = p.elem_kind()
    if exotic and ek in ("f", "o") and rng.random() < exotic:
        if ek == "f":
            return ("f", rng.choice(FLT_NONFINITE))
        if not p.is_array():
            return ("S", rng.choice(UNKNOWN_SYMS))
    if ek == "c":
        return ("c", rng.choice([rng.randint(0, 127), rng.randint(0, 127), rng.randint(-128, 127), 0, 127, 39, 92, 10]))
    if ek == "i":
        r = rng.random()
        if r < 0.25:
            return ("i", rng.choice(INT_EXTREMES))
        cands = [rng.randint(-200, 200)]
        for b in (p.min, p.max):
            if b is not None:
                cands += [b, b - 1, b + 1, b + rng.randint(-3, 3)]
        if p.min is not None and p.max is not None and p.min <= p.max:
            cands += [rng.randint(p.min, p.max)] * 3
        v = rng.choice(cands)
        return ("i", max(-2147483648, min(2147483647, v)))
    if ek == "f":
        r = rng.random()
        near = near_default_floats(p, k) if r < 0.25 else []
        if near:
            # a state that differs from the default by next to nothing: one and two units in the last place,
            # around 0.0 the smallest normal, a denormal and 1e-8 (a comparison with a tolerance instead of
            # == would not save the parameter)
            return ("f", rng.choice(near))
        if r < 0.2:
            return ("f", rng.choice(FLT_SPECIAL))
        if r < 0.5:
            return ("f", f2b(nice_float(rng)))
        if r < 0.7 and (p.min is not None or p.max is not None):
            b = rng.choice([x for x in (p.min, p.max) if x is not None])
            return ("f", rng.choice([b, f2b(b2f(b) + 0.5), f2b(b2f(b) - 0.5)]))
        return ("f", f2b(rng.uniform(-20, 20)))
    if ek == "t":
        return (rng.choice(["T", "F"]), None)
    if ek == "o":
        r = rng.random()
        if r < 0.35:
            return ("S", rng.choice(p.opts)[1].encode("latin-1"))
        nums = [n for n, _ in p.opts]
        return (rng.choice(["i", "i", "c"]), rng.choice(nums + [min(nums) - 1, max(nums) + 1, max(nums) + 5]))
    if ek == "s":
        if getattr(p, "default", None) and rng.random() < 0.3:
            # a string that shares a prefix with the default (differs only further back)
            d = bytes(p.default[0])
            k = rng.randint(0, len(d))
            return ("s", d[:k] + bytes(rng.choice(b"abcxyz 12") for _ in range(rng.choice([0, 1, 1, 2, 3]))))
        n = rng.choice([0, 1, 2, 3, 5, 7, 15, 20])
        return ("s", bytes(rng.choice(STR_ALPHA) for _ in range(n)))
    raise ValueError(ek)

def op_text(path, v):
    tag, x = v
    if tag in ("T", "F"):
        return "%s=%s" % (path, tag)
    if tag in ("i", "c"):
        return "%s=%s%d" % (path, tag, x)
    if tag == "f":
        return "%s=f%s" % (path, fbits(x))
    return "%s=%s%s" % (path, tag, bytes(x).hex())      # 's' / 'S' (never empty hex "-")

def mop_text(i, k, v):
    tag, x = v
    if tag in ("T", "F"):
        s = tag
    elif tag in ("i", "c"):
        s = "%s%d" % (tag, x)
    elif tag == "f":
        s = "f" + fbits(x)
    else:
        s = tag + hx(bytes(x))
    return "%d.%d.%s" % (i, k, s)

def gen_ops(rng, ref, nops, bias_guards=True, focus=False, exotic=0.0, fill=0.0):
    """random parameter messages; returns (ops text, model ops text) and leaves ref in the reached state.
    focus: the first messages switch one guard (switch of a pointer sub-tree / 'enabled by' toggle) on and
    write two of the ports it governs, so that the saved file holds a dependency among its lines"""
    ops, mops = [], []
    flat = ref.flat
    if not flat:
        return "-", "-"
    guards = sorted({g for fp in flat for g in fp.hard + fp.soft})
    sels = sorted({fp.sel for fp in flat if fp.sel is not None})
    plan, n_on = [], 1
    if focus and guards:
        # switches that govern ports of their own directory (rSelf, "name/toggle" forms) are rarer: half of
        # the focused files are about one of them
        dirn = lambda i: flat[i].path.rsplit("/", 1)[0]
        own = [g for g in guards if any(g in fp.hard + fp.soft and dirn(j) == dirn(g) for j, fp in enumerate(flat))]
        g = rng.choice(own) if (own and rng.random() < 0.5) else rng.choice(guards)
        below = [i for i, fp in enumerate(flat) if g in fp.hard + fp.soft]
        plan = [g] + rng.sample(below, min(len(below), 2))
        # nested guards: a switch that is itself governed by another switch (a self-enabled sub-tree inside an
        # enabled / pointer sub-tree).  Both switches on, the inner one first in the plan's file order, then a
        # port below the inner one: the inner switch's line depends on the outer switch's line through the
        # directories ABOVE the one it governs
        nested = [(g1, g2) for g2 in guards for g1 in flat[g2].hard + flat[g2].soft if g1 != g2]
        nested_own = [(g1, g2) for g1, g2 in nested if g2 in own]
        if nested and rng.random() < 0.6:
            g1, g2 = rng.choice(nested_own) if (nested_own and rng.random() < 0.7) else rng.choice(nested)
            below2 = [i for i, fp in enumerate(flat) if g2 in fp.hard + fp.soft and i != g1]
            plan = [g1, g2] + rng.sample(below2, min(len(below2), 1))
            n_on = 2
    if fill and rng.random() < fill:
        # every element of one float array gets a value of its own: a line of up to 8 lossless floats
        # ("1.50 (0x1.8p+0)" each) is longer than the 80 columns of the default options, so the printer's
        # line breaks - and the column it starts counting at - show in the saved text
        arrs = [i for i, fp in enumerate(flat) if fp.leaf.kind == "af" and fp.leaf.n >= 4 and ref.exists(i)]
        if arrs:
            i = rng.choice(arrs)
            p = flat[i].leaf
            for k in range(p.n):
                for _ in range(20):
                    x = f2b(nice_float(rng) + k) if rng.random() < 0.5 else f2b(rng.uniform(-20, 20))
                    if (p.min is None or b2f(x) >= b2f(p.min)) and (p.max is None or b2f(x) <= b2f(p.max)):
                        break
                v = ("f", x)
                ops.append(op_text(flat[i].path + str(k), v))
                mops.append(mop_text(i, k, v))
                ref.send(i, k, v)
    if fill and rng.random() < fill:
        # one int array holds  x a a+d a+2d ...  with x not the predecessor of a: the printer must keep the second
        # value of the run ("x a a+d ... b"; "x a ... b" would be read with the step x -> a) - the array loop's
        # `prev` argument of rtosc_print_arg_val
        arrs = [i for i, fp in enumerate(flat) if fp.leaf.kind == "ai" and fp.leaf.n >= 7 and ref.exists(i)]
        if arrs:
            i = rng.choice(arrs)
            p = flat[i].leaf
            lo = -128 if p.min is None else max(p.min, -128)
            hi = 127 if p.max is None else min(p.max, 127)
            d = rng.choice([1, 1, 2, 3, -1, -2])
            span = abs(d) * (p.n - 2)
            if hi - lo >= span + 1:
                a = rng.randint(lo, hi - span) if d > 0 else rng.randint(lo + span, hi)
                xs = [x for x in range(lo, hi + 1) if x != a - d and x != a]
                vals = [rng.choice(xs)] + [a + d * j for j in range(p.n - 1)]
                for k, x in enumerate(vals):
                    v = ("i", x)
                    ops.append(op_text(flat[i].path + str(k), v))
                    mops.append(mop_text(i, k, v))
                    ref.send(i, k, v)
    for n_op in range(nops):
        r = rng.random()
        if n_op < len(plan):
            i = plan[n_op]
        elif bias_guards and guards and r < 0.2:
            i = rng.choice(guards)
        elif bias_guards and sels and r < 0.35:
            i = rng.choice(sels)
        else:
            i = rng.randrange(len(flat))
        p = flat[i].leaf
        k = rng.randrange(p.n) if p.is_array() else 0
        v = gen_incoming(rng, p, exotic, k)
        if n_op < n_on and plan and v[0] in ("T", "F"):
            v = ("T", None)
        if flat[i].sel is None and i in sels and v[0] in ("i", "c") and rng.random() < 0.7:
            # selectors mostly inside their table
            keys = sorted({kk for fq in flat if fq.sel == i for kk in fq.leaf.presets})
            if keys:
                v = (v[0], rng.choice(keys + [keys[-1] + 1]))
        path = flat[i].path + (str(k) if p.is_array() else "")
        if v[0] in ("s", "S") and len(bytes(v[1])) == 0:
            ops.append("%s=%s" % (path, v[0]))
        else:
            ops.append(op_text(path, v))
        mops.append(mop_text(i, k, v))
        ref.send(i, k, v)
    return (";".join(ops) or "-"), (";".join(mops) or "-")

# ---------------------------------------------------------------------------
# reading a case line back (the oracles work from the case line alone)
class _L:
    pass

def parse_scalar_text(t):
    if t[0] in "ic":
        return int(t[1:])
    if t[0] == "f":
        return int(t[1:], 16)
    if t == "T":
        return 1
    if t == "F":
        return 0
    if t[0] in "sS":
        return b"" if t[1:] in ("", "-") else bytes.fromhex(t[1:])
    raise ValueError(t)

def parse_value_text(t):
    return [] if t == "-" else [parse_scalar_text(x) for x in t.split(":")]

def parse_flat(text):
    flat = []
    if text == "-":
        return flat
    for item in text.split(";"):
        f = item.split(",")
        p = _L()
        path = "" if f[0] == "-" else bytes.fromhex(f[0]).decode("latin-1")
        mk, arr = f[1], f[2] == "1"
        p.fid = "s0"
        if mk[0] == "s":
            p.kind = "s"
            p.fid = "s0" if mk == "s16" else "s1"
        elif mk == "b":
            p.kind = "ai"
        else:
            p.kind = ("a" + mk) if arr else mk
        p.n = int(f[3])
        p.min = None if f[4] == "-" else int(f[4])
        p.max = None if f[5] == "-" else int(f[5])
        p.opts = [] if f[6] == "-" else [(int(kv.split("=")[0]), bytes.fromhex(kv.split("=")[1]).decode("latin-1") if kv.split("=")[1] != "-" else "")
                                         for kv in f[6].split("+")]
        p.default = parse_value_text(f[7])
        p.presets = {} if f[9] == "-" else {int(kv.split("=")[0]): parse_value_text(kv.split("=")[1]) for kv in f[9].split("+")}
        p.depends = None if f[8] == "-" else "x"
        p.is_array = (lambda a: (lambda: a))(arr)
        p.elem_kind = (lambda k: (lambda: {"ai": "i", "af": "f", "at": "t", "ao": "o"}.get(k, k)))(p.kind)
        fp = FlatPort(path, p, 0)
        fp.sel = None if f[8] == "-" else int(f[8])
        fp.hard = [] if f[10] == "-" else [int(x) for x in f[10].split(".")]
        fp.soft = [] if f[11] == "-" else [int(x) for x in f[11].split(".")]
        p.nodef = len(f) > 12 and f[12] == "1"
        p.init = parse_value_text(f[13]) if p.nodef else None
        flat.append(fp)
    return flat

def ref_from_flat(flat):
    r = Ref.__new__(Ref)
    r.app = None
    r.flat, r.dirs = flat, {}
    r.bypath = {fp.path: i for i, fp in enumerate(flat)}
    r.st = [r.initial(i) for i in range(len(flat))]
    return r

def parse_meta(b):
    """metadata block -> {key: value bytes | None}"""
    out = {}
    parts = b.split(b"\0")
    k = 0
    while k < len(parts) and parts[k].startswith(b":"):
        key = parts[k][1:].decode("latin-1")
        if k + 1 < len(parts) and parts[k + 1].startswith(b"="):
            out[key] = parts[k + 1][1:]
            k += 2
        else:
            out[key] = None
            k += 1
    return out

def metas_of_tree(tree):
    """{(level, port name in front of # / :): metadata dict} of the tree field of a case line"""
    if tree.startswith("static@"):
        tree = tree[7:]
    out = {}
    for t, lvl in enumerate(tree.split("|")):
        for item in lvl.split(";"):
            g = item.split(",")
            if len(g) == 4 and g[0] == "p":
                name = bytes.fromhex(g[2]).decode("latin-1") if g[2] != "-" else ""
                stem = name.split("#")[0].split(":")[0].split("/")[0]
                if name.endswith("/") or g[1] in ("subp", "self"):
                    continue
                out[(t, stem)] = parse_meta(bytes.fromhex(g[3]) if g[3] != "-" else b"")
    return out

def kv_fields(line):
    out = {}
    for tok in line.split(" "):
        if "=" in tok:
            k, v = tok.split("=", 1)
            out[k] = v
    return out

def state_from_dump(ref, text):
    """dump -> (per-port value list or None when the object is absent, flags)"""
    vals, flags = parse_dump(ref, text)
    st = []
    for fp in ref.flat:
        if fp.path in vals:
            st.append(field_values(fp.leaf, vals[fp.path]))
        else:
            st.append(None)
    return st, flags

def expected_lines_of_state(ref, st):
    """what a savefile of the dumped state must contain: one line per live port
    whose value differs from the default the state selects;
    {address (with ~[ for arrays): (least number of values, all values)}"""
    out = {}
    full = [x if x is not None else ref.initial(j) for j, x in enumerate(st)]
    for i, fp in enumerate(ref.flat):
        if st[i] is None:
            continue
        if not all(st[g] is not None and bool(st[g][0]) for g in fp.hard + fp.soft):
            continue
        if fp.leaf.nodef:
            continue              # a parameter without any default is not saved
        dfl = ref.default_of(i, full)
        l = expected_line(fp.leaf, fp.path, st[i], dfl)
        if l is not None:
            out[l[0]] = (l[1], l[2])
    return out

def check_lines(ref, st, lines_text):
    """the Spec on the saved lines: exactly the differing live parameters, each
    with its current values (an array may stop behind its last differing element)"""
    want = expected_lines_of_state(ref, st)
    got = {}
    if lines_text != "-":
        for l in lines_text.split("|"):
            parts = l.split("~")
            key = parts[0] + ("~[" if len(parts) > 1 and parts[1] == "[" else "")
            vals = parts[2:] if key.endswith("~[") else parts[1:]
            if key in got:
                return "an address is saved twice: %s" % parts[0]
            got[key] = vals
    extra = sorted(set(got) - set(want))
    missing = sorted(set(want) - set(got))
    if extra or missing:
        return "saved addresses differ from {parameter != its default}: unexpected %s, missing %s" % (extra[:3], missing[:3])
    for key, vals in got.items():
        least, allv = want[key]
        if len(vals) < least or vals != allv[:len(vals)]:
            return "the line of %s carries %s, the parameter holds %s" % (key, vals[:8], allv[:8])
    return None

def states_equal(ref, sa, sb):
    """every port that exists in A exists in B with the same contents (floats: ==)"""
    for i, fp in enumerate(ref.flat):
        # below a switched-off "enabled by" toggle the walk does not go: not part of the saved state
        if not all(sa[g] is not None and bool(sa[g][0]) for g in fp.soft):
            continue
        if fp.leaf.nodef and sa[i] is not None and sb[i] is not None:
            continue              # not saved by design (no default to compare with)
        if (sa[i] is None) != (sb[i] is None):
            return "%s exists in one instance only" % fp.path
        if sa[i] is None:
            continue
        if len(sa[i]) != len(sb[i]) or not all(feq(fp.leaf.kind, a, b) for a, b in zip(sa[i], sb[i])):
            return "%s is %r in the saved instance and %r after loading" % (fp.path, sa[i], sb[i])
    return None

# ---------------------------------------------------------------------------
# the macro-made application of harness/h_C12_app.h (tree description "static"),
# described by hand: what the port-sugar macros are documented to produce
def _sleaf(kind, name, default, n=1, **kw):
    fid = {"i": "i0", "o": "o0", "f": "f0", "t": "t0", "ai": "ai"}[kind]
    p = Leaf(fid, name, n)
    p.default = list(default)
    for k, v in kw.items():
        setattr(p, k, v)
    return p

def static_app():
    app = App()
    app.static = True
    l0, l1 = app.levels[0], app.levels[1]
    opts = [(i, s) for i, s in enumerate(["oa", "ob", "oc", "od", "oe", "og", "oh", "oi", "oj", "ok"])]
    l0.ports = [
        _sleaf("i", "m0", [10]),
        _sleaf("i", "m1", [11], rdepends=["m0"]),
        _sleaf("i", "m2", [12], rdepends=["m0", "m1"]),
        _sleaf("i", "m3", [13], rdepends=["m2", "m1", "m0"]),
        _sleaf("i", "m4", [14], rdepends=["m0", "m1", "m2", "m3"], min=-100, max=100),
        _sleaf("i", "m5", [15], rdepends=["m4", "m3", "m2", "m1", "m0"]),
        _sleaf("i", "m6", [16], rdepends=["m5", "m4", "m3", "m2", "m1", "m0"]),
        _sleaf("o", "mo", [0], opts=opts),
        _sleaf("i", "mp", [29], depends="mo", presets={0: [20], 1: [21], 2: [22], 3: [23], 4: [24]}),
        _sleaf("i", "mq", [30], depends="mo", presets={2: [32], 3: [33], 4: [34], 5: [35]},
               rdepends=["mp", "m0", "m1", "m6"]),
        _sleaf("f", "mf", [f2b(0.5)], min=f2b(-1.5), max=f2b(2.5)),
        _sleaf("t", "ms_on", [0]),
        _sleaf("ai", "ma", [3, 3, 3, 3], n=4),
    ]
    l0.selector = "o0"
    c = Child("sub", "ms")
    c.enabled_by = "ms_on"
    l0.ports.append(c)
    l1.ports = [_sleaf("i", "sa", [1]), _sleaf("i", "sb", [2], rdepends=["sa"])]
    return app

def static_macro_ports():
    """(name, metadata block) of every port of the macro-made tables, in table order"""
    P, D = ("parameter", None), ("documentation", "d")
    def dep(*xs):
        return ("depends", "".join(x + "," for x in xs))
    out = [
        ("m0::i", [P, ("default", "10"), D]),
        ("m1::i", [P, ("default", "11"), dep("m0"), D]),
        ("m2::i", [P, dep("m0", "m1"), ("default", "12"), D]),
        ("m3::i", [P, ("default", "13"), dep("m2", "m1", "m0"), D]),
        ("m4::i", [P, ("min", "-100"), ("max", "100"), ("scale", "linear"), ("default", "14"), dep("m0", "m1", "m2", "m3"), D]),
        ("m5::i", [P, ("default", "15"), dep("m4", "m3", "m2", "m1", "m0"), D]),
        ("m6::i", [P, ("default", "16"), dep("m5", "m4", "m3", "m2", "m1", "m0"), D]),
        ("mo::i:c:S", [P, ("enumerated", None)] +
         [("map %d" % i, s) for i, s in enumerate(["oa", "ob", "oc", "od", "oe", "og", "oh", "oi", "oj", "ok"])] +
         [("default", "oa"), D]),
        ("mp::i", [P, ("default depends", "mo")] + [("default %d" % i, "%d" % (20 + i)) for i in range(5)] + [("default", "29"), D]),
        ("mq::i", [P, ("default depends", "mo")] + [("default %d" % i, "%d" % (30 + i)) for i in range(2, 6)] +
         [("default", "30"), dep("mp", "m0", "m1", "m6"), D]),
        ("mf::f", [P, ("min", "-1.5"), ("max", "2.5"), ("scale", "linear"), ("default", "0.5"), D]),
        ("ms_on::T:F", [P, ("default", "false"), D]),
        ("ma#4::i", [P, ("default", "[4x3]"), D]),
        ("ms/", [("enabled by", "ms_on"), D]),
        ("ms:", [("internal", None), ("documentation", "get obj pointer")]),
        ("sa::i", [P, ("default", "1"), D]),
        ("sb::i", [P, ("default", "2"), dep("sa"), D]),
    ]
    return [(n, meta_block(items)) for n, items in out]

def macro_cases():
    return ["macro %d %s %s" % (k, hx(n), hx(m)) for k, (n, m) in enumerate(static_macro_ports())]

def macro_check(case, impl):
    f = case.split(" ")
    want = "name=%s meta=%s" % (f[2], f[3])
    if impl != want:
        kv = kv_fields(impl)
        got = bytes.fromhex(kv.get("meta", "")) if kv.get("meta", "-") != "-" else b""
        return "macros: port %s: the macros produced %r, their documentation calls for %r" % (
            bytes.fromhex(f[2]).decode("latin-1"), got, bytes.fromhex(f[3]))
    return None
