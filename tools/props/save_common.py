"""Generated applications for C12 / C13 (see harness/h_C12_app.h).

An application is described abstractly (class App: per level a table of port
descriptions) and rendered three ways:
  tree()  the run-time port tables for the harness (names + metadata blocks),
  flat()  the flat list of parameter ports for the Coq model's driver,
  and it is interpreted directly by the Python reference semantics below
  (class Ref), which is what the Spec oracles use.
"""
import struct

NA = 8          # backing length of leaf arrays
NARR = 3        # elements of the enumerated sub-tree
LAST = 2

def hx(b):
    if isinstance(b, str):
        b = b.encode("latin-1")
    return b.hex() if b else "-"

def f2b(x):
    return struct.unpack("<I", struct.pack("<f", x))[0]

def b2f(b):
    return struct.unpack("<f", struct.pack("<I", b))[0]

def fbits(b):
    return "%08x" % b

# ---------------------------------------------------------------------------
# port kinds:  c (rParam, char)  i (rParamI)  f (rParamF)  t (rToggle)
#              o (rOption)  s (rString)  ai af at ao (leaf arrays)
KIND_OF_FID = {"c0": "c", "c1": "c", "i0": "i", "i1": "i", "f0": "f", "f1": "f", "t0": "t", "t1": "t",
               "o0": "o", "o1": "o", "s0": "s", "s1": "s", "ai": "ai", "af": "af", "at": "at", "ao": "ao"}
ARGSPEC = {"c": "::c", "i": "::i", "f": "::f", "t": "::T:F", "o": "::i:c:S", "s": "::s",
           "ai": "::i", "af": "::f", "at": "::T:F", "ao": "::i:c:S"}
STRCAP = {"s0": 16, "s1": 6}

def pretty_float(b):
    """savefile text of a float default: the library's own exact form"""
    x = b2f(b)
    return "%s (%s)" % (("%.2f" % x), float_hex(x))

def float_hex(x):
    # C's %a for a float promoted to double
    return x.hex().replace("0x1.0000000000000p", "0x1p").replace("0x0.0p+0", "0x0p+0")

class Leaf:
    """a parameter port of one level's table"""
    def __init__(self, fid, name, n=1):
        self.fid = fid
        self.kind = KIND_OF_FID[fid]
        self.name = name
        self.n = n                # declared length (arrays), 1 otherwise
        self.min = None           # converted bounds (ints; float bit patterns for f)
        self.max = None
        self.mintext = None
        self.maxtext = None
        self.opts = []            # [(number, symbol)]
        self.default = None       # list of values (length n), or None
        self.presets = {}         # selector value -> list of values
        self.depends = None       # relative path text of "default depends"
        self.rdepends = []        # rDepends(...) entries
        self.extra_meta = b""
    def is_array(self):
        return self.kind in ("ai", "af", "at", "ao")
    def elem_kind(self):
        return {"ai": "i", "af": "f", "at": "t", "ao": "o"}.get(self.kind, self.kind)
    def portname(self):
        return self.name + ("#%d" % self.n if self.is_array() else "") + ARGSPEC[self.kind]

class Child:
    def __init__(self, fid, name):
        self.fid = fid            # sub | arr | ptr
        self.name = name
        self.enabled_by = None    # text of "enabled by" on the recursion port
        self.rdepends = []
    def portname(self):
        return self.name + ("#%d" % NARR if self.fid == "arr" else "") + "/"

class Level:
    def __init__(self):
        self.ports = []           # Leaf | Child, in table order
        self.selector = None      # fid
        self.enabler = None       # fid (t0|t1) governing ptr
        self.ptr_init = False
        self.self_enabled_by = None   # rSelf(..., rEnabledBy(x)) of this level's table

def val_text(kind, v):
    """text of one value in a metadata default (what a developer writes)"""
    if kind in ("c",):
        return char_text(v)
    if kind in ("i", "ai"):
        return "%d" % v
    if kind in ("f", "af"):
        return float_text(v)
    if kind in ("t", "at"):
        return "true" if v else "false"
    if kind in ("o", "ao"):
        return "%d" % v
    if kind == "s":
        return string_text(v)
    raise ValueError(kind)

def char_text(v):
    esc = {7: "a", 8: "b", 9: "t", 10: "n", 11: "v", 12: "f", 13: "r", 39: "'", 92: "\\"}
    if v in esc:
        return "'\\%s'" % esc[v]
    return "'%c'" % v

def float_text(b):
    x = b2f(b)
    return float_hex(x)

def string_text(s):
    out = '"'
    for ch in s:
        c = chr(ch)
        if c == '"':
            out += '\\"'
        elif c == "\\":
            out += "\\\\"
        elif c == "\n":
            out += "\\n"
        elif c == "\t":
            out += "\\t"
        else:
            out += c
    return out + '"'

def default_text(p, vals, opts_symbolic=False):
    k = p.elem_kind()
    def one(v):
        if k == "o" and opts_symbolic:
            for num, sym in p.opts:
                if num == v:
                    return sym
        return val_text(k, v)
    if p.is_array():
        return "[" + " ".join(one(v) for v in vals) + "]"
    return one(vals[0])

def meta_block(items):
    """items: list of (key, value|None) -> bytes"""
    out = b""
    for k, v in items:
        out += b":" + k.encode("latin-1") + b"\0"
        if v is not None:
            out += b"=" + (v if isinstance(v, bytes) else v.encode("latin-1")) + b"\0"
    return out + b"\0"

class App:
    def __init__(self):
        self.levels = [Level() for _ in range(LAST + 1)]
        self.sym_defaults = False

    # -- rendering for the harness ------------------------------------------
    def leaf_meta(self, p):
        items = [("parameter", None)]
        if p.mintext is not None:
            items.append(("min", p.mintext))
        if p.maxtext is not None:
            items.append(("max", p.maxtext))
        if p.kind in ("o", "ao"):
            items.append(("enumerated", None))
        for num, sym in p.opts:
            items.append(("map %d" % num, sym))
        if p.kind == "s":
            items.append(("length", "%d" % STRCAP[p.fid]))
        if p.depends is not None:
            items.append(("default depends", p.depends))
        for sv in sorted(p.presets):
            items.append(("default %d" % sv, default_text(p, p.presets[sv], self.sym_defaults)))
        if p.default is not None:
            items.append(("default", default_text(p, p.default, self.sym_defaults)))
        if p.rdepends:
            items.append(("depends", "".join(d + "," for d in p.rdepends)))
        items.append(("documentation", "d"))
        return meta_block(items)

    def child_meta(self, c):
        items = []
        if c.enabled_by is not None:
            items.append(("enabled by", c.enabled_by))
        if c.rdepends:
            items.append(("depends", "".join(d + "," for d in c.rdepends)))
        items.append(("documentation", "d"))
        return meta_block(items)

    def tree(self):
        out = []
        for lv in self.levels:
            items = []
            if lv.selector:
                items.append("s," + lv.selector)
            if lv.enabler:
                items.append("e," + lv.enabler)
            items.append("n,%d" % (1 if lv.ptr_init else 0))
            if lv.self_enabled_by is not None:
                items.append("p,self,%s,%s" % (hx("self:"), hx(meta_block(
                    [("internal", None), ("class", "Node"), ("enabled by", lv.self_enabled_by),
                     ("documentation", "port metadata")]))))
            for p in lv.ports:
                if isinstance(p, Leaf):
                    items.append("p,%s,%s,%s" % (p.fid, hx(p.portname()), hx(self.leaf_meta(p))))
                    if p.default is not None or p.presets:
                        items.append("d,%s,%s" % (p.fid, ":".join(field_text(p, v) for v in self.initial(lv, p))))
                else:
                    items.append("p,%s,%s,%s" % (p.fid, hx(p.portname()), hx(self.child_meta(p))))
                    if p.fid == "sub":
                        items.append("p,subp,%s,%s" % (hx(p.name + ":"), hx(meta_block(
                            [("internal", None), ("documentation", "get obj pointer")]))))
            # preset table of the selector
            if lv.selector:
                vals = set()
                for p in lv.ports:
                    if isinstance(p, Leaf) and p.depends is not None:
                        vals |= set(p.presets)
                for sv in sorted(vals):
                    for p in lv.ports:
                        if isinstance(p, Leaf) and p.depends is not None:
                            vs = p.presets.get(sv, p.default)
                            items.append("r,%d,%s,%s" % (sv, p.fid, ":".join(field_text(p, v) for v in pad(p, vs))))
                for p in lv.ports:
                    if isinstance(p, Leaf) and p.depends is not None and p.default is not None:
                        items.append("r,*,%s,%s" % (p.fid, ":".join(field_text(p, v) for v in pad(p, p.default))))
            out.append(";".join(items))
        return "|".join(out)

    def selector_leaf(self, lv):
        for p in lv.ports:
            if isinstance(p, Leaf) and p.fid == lv.selector:
                return p
        return None

    def initial(self, lv, p):
        """initial field contents (backing arrays have NA elements)"""
        if p.depends is not None:
            sel = self.selector_leaf(lv)
            sv = sel.default[0]
            vs = p.presets.get(sv, p.default)
        else:
            vs = p.default
        return pad(p, vs)

def pad(p, vs):
    if p.is_array():
        return list(vs) + [zero_of(p.elem_kind())] * (NA - len(vs))
    return list(vs)

def zero_of(kind):
    return b"" if kind == "s" else 0

def field_text(p, v):
    k = p.elem_kind()
    if k == "f":
        return fbits(v)
    if k == "s":
        return hx(bytes(v))
    return "%d" % v
