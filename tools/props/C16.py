"""C16 plug-in: argument-value comparison is a coherent order, blind to range
compression.  (Plug-in interface: see tools/props/C17.py.)

Case lines (list syntax: harness/h_C16.cpp)
  laws <L1> ... <Lk>            all k*k results of rtosc_arg_vals_cmp (sign) and _eq
  comp <addr> <B> <V0> ... <Vn> V0..Vn are the same values, V0 written out, the others
                                with some runs compressed; per variant: eq/cmp against B
                                (both directions), against V0, what the iterator yields,
                                the bytes of rtosc_avmessage

The oracle below is written from the property text only: it expands ranges
itself (N x value; start + i*delta), knows numeric / lexicographic / bytewise
order for single values, and otherwise checks laws.
"""
import re, struct, itertools

HARNESS = ["h_C16.cpp"]
VARIANT = "asan"
TIMEOUT = 2400

RULE = ("laws: 2..7 argument lists per case (0..6 values each, every type i c r h t f d m s S b T F N I, "
        "arrays of every element type and 0..4 elements, values from small sets incl. INT_MIN/MAX, +-0, inf, "
        "NULL and empty strings, blobs that are zero-extended prefixes of each other, time tag 1); the lists of a "
        "case are mutations of one another (one value changed, truncated, extended, array type changed, runs "
        "compressed) so that ties and prefixes are frequent; all k*k comparisons are evaluated and every pair and "
        "triple is checked.  comp: one list written out plus up to 7 of the ways of compressing its constant runs "
        "(N x value, also N x array) and arithmetic runs (range with delta: i c h f d and booleans), inside arrays "
        "too; all ways when there are at most 48.  Every run has one block with every pair of 55 boundary bit patterns of f and d (zeros, denormals, "
        "1-ulp neighbours, max, inf, NaNs) as single values.  Thorough adds an exhaustive block: every list of length <= 3 over a "
        "9-value universe (820 lists, all 5.5e8 triples via bit sets) and every list of length <= 2 over 27 values.  "
        "Half of all cases carry #alias=1|2|3: blob data and strings of all lists of the case then share storage in the "
        "harness (prefix views with the same data pointer, overlapping views data+k, suffix views of strings, interned "
        "equal contents); every rtosc_arg_val_t is pre-filled with a byte pattern that differs from slot to slot (padding, "
        "unselected union members); cmp(x,x)/eq(x,x) are called on the same object.  "
        "Non-trivial = the case has a tie between differently written lists, a proper prefix, an array or a compressed run.")
TRUSTED = ["harness/h_C16.cpp builds rtosc_arg_val_t arrays (exact-size heap copies, or shared storage under #alias) from the case text and calls "
           "rtosc_arg_vals_eq/_cmp (opt = NULL), rtosc_arg_val_itr_init/_get/_next and rtosc_avmessage",
           "tools/props/C16.py: expansion of compressed runs, numeric/lexicographic/bytewise order of single values, "
           "OSC encoding of a flat list (the independent Spec oracle)",
           "coq/ArgVal/AvFloat.v: Flocq 4.1 binary32/binary64 as the float arithmetic of the extracted model "
           "(ranges with a float delta); the stdlib-only theorems hold for every float arithmetic, the C16_*_IEEE / "
           "C16_*_flocq* theorems are about this instance and carry Flocq's four standard axioms (classical reals, "
           "functional extensionality)",
           "the C compiler's float ==, <, +, * being IEEE 754 binary32/binary64 round-to-nearest-even (tied by the run)"]
ASSUMPTIONS = ["comparison options are NULL (tolerance 0)",
               "the proved laws (C16_*_partial) assume no NaN among the compared values; with a NaN they are false of "
               "model and code (C16_nan_refuted, finding class nan-in-list).  NaN lists are generated and judged: "
               "'cmp = 0 exactly when eq', iteration, message and equal treatment of all ways of writing hold for them "
               "too and stay violations; a failure of reflexivity / antisymmetry / transitivity / 'same values compare "
               "0' is the known finding only if the first difference the comparison meets is the NaN",
               "ranges are finite (repeat count >= 1): an endless range compares equal to every list it is a "
               "prefix pattern of, which is not transitive by design",
               "ranges with delta have delta and start of one type among c i h f d or both boolean, N x value repeats "
               "a single value or a whole array, strings are NUL-free, blob length = size of its data"]

# ---------------------------------------------------------------------------
# abstract values: ('i',n) ('c',n) ('r',n) ('h',n) ('t',n) ('f',bits) ('d',bits) ('m',bytes)
#                  ('s',bytes|None) ('S',bytes|None) ('b',bytes) ('T',) ('F',) ('N',) ('I',)
#                  ('a', elemtype_code, (elements...))
I32MIN, I32MAX = -2**31, 2**31 - 1
I64MIN, I64MAX = -2**63, 2**63 - 1

def f32(x):
    try:
        return struct.unpack("<f", struct.pack("<f", x))[0]
    except OverflowError:
        return float("inf") if x > 0 else float("-inf")
def f32bits(x): return struct.unpack("<I", struct.pack("<f", x))[0]
def bits32f(b): return struct.unpack("<f", struct.pack("<I", b))[0]
def f64bits(x): return struct.unpack("<Q", struct.pack("<d", x))[0]
def bits64f(b): return struct.unpack("<d", struct.pack("<Q", b))[0]
def isnan32(b): return (b & 0x7fffffff) > 0x7f800000
def isnan64(b): return (b & 0x7fffffffffffffff) > 0x7ff0000000000000
def isfin32(b): return (b & 0x7f800000) != 0x7f800000
def isfin64(b): return (b & 0x7ff0000000000000) != 0x7ff0000000000000

def hx(b): return b.hex() if b else "-"

def tok(v):
    t = v[0]
    if t in "icrht": return "%s:%d" % (t, v[1])
    if t == "f": return "f:%08x" % v[1]
    if t == "d": return "d:%016x" % v[1]
    if t == "m": return "m:" + v[1].hex()
    if t in "sS": return "%s:%s" % (t, "N" if v[1] is None else hx(v[1]))
    if t == "b": return "b:" + hx(v[1])
    return t

def parse_tok(s):
    f = s.split(":")
    t = f[0]
    if t in "icrht": return (t, int(f[1]))
    if t in "fd": return (t, int(f[1], 16))
    if t == "m": return (t, bytes.fromhex(f[1]))
    if t in "sS": return (t, None if f[1] == "N" else (b"" if f[1] == "-" else bytes.fromhex(f[1])))
    if t == "b": return (t, b"" if f[1] == "-" else bytes.fromhex(f[1]))
    if t in "TFNI": return (t,)
    raise ValueError(s)

def plain(vals):
    """the written-out slots of a list of abstract values"""
    out = []
    for v in vals:
        if v[0] == "a":
            body = plain(v[2])
            out.append("a:%d:%d" % (v[1], len(body)))
            out += body
        else:
            out.append(tok(v))
    return out

def show(tokens): return ",".join(tokens) if tokens else "-"

# --- what a compressed run stands for (property text: N x value; start + i*delta)
def wrap32(x): return ((x + 2**31) % 2**32) - 2**31
def wrap64(x): return ((x + 2**63) % 2**64) - 2**63

def range_elem(t, delta, start, i):
    """i-th element of the range (integers: two's complement wrap-around), None when not defined"""
    if t in "ic":
        return (t, wrap32(start + i * delta))
    if t == "h":
        return (t, wrap64(start + i * delta))
    if t == "f":
        return (t, f32bits(f32(bits32f(start) + f32(f32(float(i)) * bits32f(delta)))))
    if t == "d":
        return (t, f64bits(bits64f(start) + float(i) * bits64f(delta)))
    return None

def bool_range_elem(dt, st, i):
    # start XOR (i != 0 AND delta)   [arg-val-math: from_int, mult = and, add = xor]
    flip = (i != 0) and dt == "T"
    return ("T",) if ((st == "T") != flip) else ("F",)

class Malformed(Exception):
    pass

def expand(tokens):
    """denotation of a slot list; raises Malformed outside the stated layout"""
    vals, p = [], 0
    def one(p):
        s = tokens[p]
        if s.startswith("a:"):
            _, ety, ln = s.split(":")
            ln = int(ln)
            if p + 1 + ln > len(tokens): raise Malformed()
            return ("a", int(ety), tuple(expand(tokens[p + 1:p + 1 + ln]))), p + 1 + ln
        if s.startswith("R:"): raise Malformed()
        return parse_tok(s), p + 1
    while p < len(tokens):
        s = tokens[p]
        if s.startswith("R:"):
            _, n, hd = s.split(":")
            n, hd = int(n), int(hd)
            if n < 1: raise Malformed()
            if hd == 0:
                v, q = one(p + 1)
                vals += [v] * n
                p = q
            else:
                d, st = parse_tok(tokens[p + 1]), parse_tok(tokens[p + 2])
                if d[0] in "TF" and st[0] in "TF":
                    es = [bool_range_elem(d[0], st[0], i) for i in range(n)]
                elif d[0] == st[0] and d[0] in "cihfd":
                    es = [range_elem(d[0], d[1], st[1], i) for i in range(n)]
                else:
                    raise Malformed()
                if any(e is None for e in es): raise Malformed()
                vals += es
                p += 3
        else:
            v, p = one(p)
            vals.append(v)
    return vals

def has_nan(vals):
    for v in vals:
        if v[0] == "f" and isnan32(v[1]): return True
        if v[0] == "d" and isnan64(v[1]): return True
        if v[0] == "a" and has_nan(v[2]): return True
    return False

def has_array(vals): return any(v[0] == "a" for v in vals)

# --- order of single values as the property text states it ------------------
def sign(x): return (x > 0) - (x < 0)

def cmp_simple(a, b):
    """expected sign for two values of one type, None where the text says nothing"""
    if a[0] != b[0]: return None
    t = a[0]
    if t in "ich": return sign(a[1] - b[1])                       # numbers numerically
    if t == "f":
        if isnan32(a[1]) or isnan32(b[1]): return None
        x, y = bits32f(a[1]), bits32f(b[1]); return (x > y) - (x < y)
    if t == "d":
        if isnan64(a[1]) or isnan64(b[1]): return None
        x, y = bits64f(a[1]), bits64f(b[1]); return (x > y) - (x < y)
    if t in "sS":
        if a[1] is None or b[1] is None: return None
        return (a[1] > b[1]) - (a[1] < b[1])                      # lexicographically (bytes)
    if t == "b": return (a[1] > b[1]) - (a[1] < b[1])             # bytewise, proper prefix first
    if t == "t":
        if a[1] == 1 or b[1] == 1:                                # 'immediately' before every other
            return 0 if a[1] == b[1] else (-1 if a[1] == 1 else 1)
        return sign(a[1] - b[1])
    return None

def expected_sign(la, lb):
    """sign the text fixes for two lists: equal written-out prefix, then two
    values of one ordered type that differ"""
    for x, y in zip(la, lb):
        # a NaN (also inside an array) ends what the text fixes: the comparison does
        # not get past it as "equal", whatever the bits
        if has_nan([x]) or has_nan([y]): return None
        if x == y: continue
        if x[0] == "a" or y[0] == "a": return None
        c = cmp_simple(x, y)
        if c is None: return None
        if c != 0: return c
    return None

# --- OSC encoding of a flat list (arrays are not part of the text) --------
def pad4(b): return b + b"\0" * (4 - len(b) % 4)
def osc_message(addr, vals):
    out = pad4(addr) + pad4(b"," + "".join(v[0] for v in vals).encode())
    for v in vals:
        t = v[0]
        if t in "icr": out += struct.pack(">i", v[1])
        elif t == "f": out += struct.pack(">I", v[1])
        elif t == "h": out += struct.pack(">q", v[1])
        elif t in "td": out += struct.pack(">Q", v[1])
        elif t == "m": out += v[1]
        elif t in "sS":
            if v[1] is None: return None
            out += pad4(v[1])
        elif t == "b":
            out += struct.pack(">i", len(v[1])) + v[1] + b"\0" * ((4 - len(v[1]) % 4) % 4)
    return out

def show_vals(vals, sep=","):
    if not vals: return "-"
    out = []
    for v in vals:
        if v[0] == "a": out.append("a:%d[%s]" % (v[1], show_vals(v[2], ";")))
        else: out.append(tok(v))
    return sep.join(out)

# ---------------------------------------------------------------------------
# generators
F32 = [0x00000000, 0x80000000, 0x3f000000, 0x3f800000, 0x3fc00000, 0x40000000, 0x40200000, 0xbf800000,
       0x3dcccccd, 0x7f800000, 0xff800000, 0x00000001, 0x7f7fffff]
F64 = [0x0000000000000000, 0x8000000000000000, 0x3fe0000000000000, 0x3ff0000000000000, 0x3ff8000000000000,
       0x4000000000000000, 0xbff0000000000000, 0x3fb999999999999a, 0x7ff0000000000000, 0xfff0000000000000]
UNIV = {
    "i": [("i", x) for x in (-2, -1, 0, 1, 2, 3, 4, 5, I32MAX, I32MIN)],
    "c": [("c", x) for x in (0, 65, 66, 67, 97)],
    "r": [("r", x) for x in (0, 1, -1, 16711680)],
    "h": [("h", x) for x in (-1, 0, 1, 2, 3, I64MAX, I64MIN, 2**32)],
    "t": [("t", x) for x in (0, 1, 2, 3, 2**64 - 1, 2**32)],
    "f": [("f", x) for x in F32],
    "d": [("d", x) for x in F64],
    "m": [("m", bytes.fromhex(x)) for x in ("00000000", "00000001", "01000000", "ff000000", "00ff0000", "90407f00")],
    "s": [("s", x) for x in (None, b"", b"a", b"ab", b"abc", b"b", b"a\xff", b"\xff")],
    "S": [("S", x) for x in (None, b"", b"a", b"ab", b"b")],
    "b": [("b", bytes.fromhex(x)) for x in ("", "00", "01", "0102", "010200", "01020000", "0103", "ff", "0100")],
    "T": [("T",)], "F": [("F",)], "N": [("N",)], "I": [("I",)],
}
TYPES = list(UNIV.keys())
NANS = [("f", 0x7fc00000), ("f", 0xffc00001), ("d", 0x7ff8000000000000)]
ARR_TYPES = [ord(c) for c in "icrhtfdmsSbTFNI "]

def rnd_simple(rng, t=None, nan_ok=True):
    if nan_ok and rng.random() < 0.004:
        return rng.choice(NANS)
    t = t or rng.choice(TYPES)
    if t in "TF" and rng.random() < 0.5:
        t = rng.choice("TF")
    return rng.choice(UNIV[t])

def rnd_run(rng, maxlen, t=None):
    """a short sequence of simple values of one type, often a constant or an arithmetic run"""
    t = t or rng.choice(TYPES)
    n = rng.randint(1, maxlen)
    r = rng.random()
    if r < 0.3:
        return [rnd_simple(rng, t, False)] * n
    if r < 0.6 and t in "ichfdTF":
        if t in "TF":
            st = rng.choice("TF")
            return [bool_range_elem("T", st, i) for i in range(n)]
        if t in "ich":
            big = I64MAX if t == "h" else I32MAX
            start = rng.choice([-2, -1, 0, 1, 2, 5, 100, big - 3, big - 1, big, -big - 1, -big + 1])
            if t == "c" and rng.random() < 0.7: start = rng.choice([65, 66, 97])
            delta = rng.choice([-2, -1, 0, 1, 1, 2, 3, (big + 1) // 2, -(big + 1) // 2, big, -big - 1, 65537])
            es = [range_elem(t, delta, start, i) for i in range(n)]
        elif t == "f":
            start, delta = rng.choice(F32[:9]), rng.choice(F32[:9])
            es = [range_elem(t, delta, start, i) for i in range(n)]
        else:
            start, delta = rng.choice(F64[:8]), rng.choice(F64[:8])
            es = [range_elem(t, delta, start, i) for i in range(n)]
        if all(e is not None for e in es):
            return es
    return [rnd_simple(rng, t if rng.random() < 0.8 else None) for _ in range(n)]

def arr_type_for(rng, elems):
    if not elems:
        return rng.choice(ARR_TYPES)
    r = rng.random()
    if r < 0.45: return ord(elems[0][0])
    if r < 0.9: return ord(elems[-1][0])
    return rng.choice(ARR_TYPES)

def rnd_array(rng):
    n = rng.choice([0, 0, 1, 1, 2, 2, 3, 3, 4, 4])
    t = rng.choice(TYPES)
    elems = []
    while len(elems) < n:
        elems += rnd_run(rng, n - len(elems), t if rng.random() < 0.9 else None)
    elems = elems[:n]
    return ("a", arr_type_for(rng, elems), tuple(elems))

def rnd_list(rng, maxn=6):
    n = rng.choice([0, 1, 1, 2, 2, 3, 3, 4, 5, 6][:maxn + 4])
    n = min(n, maxn)
    vals = []
    while len(vals) < n:
        r = rng.random()
        if r < 0.22:
            a = rnd_array(rng)
            vals += [a] * (1 if rng.random() < 0.7 else rng.randint(2, 3))
        else:
            vals += rnd_run(rng, n - len(vals))
    return vals[:n]

def with_nan(rng, vals):
    """the list with a NaN put in: in place of a value, appended, inside an array,
    or as a run of 2..3 (so that 'N x NaN' is among the ways of writing it)"""
    vals = list(vals)
    nan = rng.choice(NANS)
    r = rng.random()
    if not vals or r < 0.2:
        return (vals + [nan])[:6] if len(vals) < 6 else [nan] + vals[1:]
    k = rng.randrange(len(vals))
    if r < 0.55:
        vals[k] = nan
    elif r < 0.75:
        vals = (vals[:k] + [nan] * rng.randint(2, 3) + vals[k + 1:])[:6]
    else:
        v = vals[k]
        es = list(v[2]) if v[0] == "a" else []
        es.insert(rng.randint(0, len(es)), nan)
        vals[k] = ("a", ord(nan[0]) if rng.random() < 0.7 else rng.choice(ARR_TYPES), tuple(es[:4]))
    if not has_nan(vals): vals[0] = nan
    return vals

def mutate(rng, vals):
    vals = list(vals)
    r = rng.random()
    if not vals or r < 0.12:
        return vals + rnd_list(rng, 2)
    k = rng.randrange(len(vals))
    if r < 0.3:
        return vals[:k]                                          # proper prefix
    if r < 0.45:
        return vals + [rng.choice(vals)]
    v = vals[k]
    if v[0] == "a":
        es = list(v[2])
        q = rng.random()
        if q < 0.35:
            # same elements, another element type (T/F matter)
            cand = [84, 70, 78, 73, 83, 105, 32, v[1]]
            vals[k] = ("a", rng.choice(cand), v[2])
        elif q < 0.55 and es:
            vals[k] = ("a", v[1], tuple(es[:-1]))
        elif q < 0.75:
            es.append(rnd_simple(rng, es[-1][0] if es else None))
            vals[k] = ("a", v[1], tuple(es))
        elif es:
            j = rng.randrange(len(es))
            es[j] = rnd_simple(rng, es[j][0])
            vals[k] = ("a", arr_type_for(rng, es), tuple(es))
        else:
            vals[k] = rnd_array(rng)
    else:
        q = rng.random()
        if q < 0.7:
            vals[k] = rnd_simple(rng, v[0])                      # same type, maybe another value
        elif q < 0.85:
            vals[k] = rnd_simple(rng)
        else:
            vals[k] = ("a", ord(v[0]), (v,))
    return vals

# --- every way of compressing the runs of a list ---------------------------
def delta_for(run):
    """delta tokens under which the range (start = run[0], n = len(run)) is exactly this run"""
    t = run[0][0]
    out = []
    if any(v[0] == "a" for v in run): return out
    if all(v[0] in "TF" for v in run):
        for dt in "TF":
            if all(bool_range_elem(dt, run[0][0], i) == run[i] for i in range(len(run))):
                out.append(dt)
        return out
    if any(v[0] != t for v in run) or t not in "cihfd": return out
    if len(run) == 1:
        cands = [UNIV[t][1][1], UNIV[t][2][1]]
    elif t in "ci":
        cands = [wrap32(run[1][1] - run[0][1])]
    elif t == "h":
        cands = [wrap64(run[1][1] - run[0][1])]
    elif t == "f":
        if not all(isfin32(v[1]) for v in run): return out
        cands = [f32bits(f32(bits32f(run[1][1]) - bits32f(run[0][1])))]
    else:
        if not all(isfin64(v[1]) for v in run): return out
        cands = [f64bits(bits64f(run[1][1]) - bits64f(run[0][1]))]
    for d in cands:
        if t in "ci" and not (I32MIN <= d <= I32MAX): continue
        if t == "h" and not (I64MIN <= d <= I64MAX): continue
        if t == "f" and not isfin32(d): continue
        if t == "d" and not isfin64(d): continue
        if all(range_elem(t, d, run[0][1], i) == run[i] for i in range(len(run))):
            out.append(tok((t, d)))
    return out

def elem_ways(v, cap):
    """ways of writing one value (an array: every way of compressing its elements)"""
    if v[0] != "a":
        return [[tok(v)]]
    out = []
    for body in itertools.islice(ways(list(v[2]), 0, cap), cap):
        out.append(["a:%d:%d" % (v[1], len(body))] + body)
    return out

def ways(vals, p, cap):
    """generator over the slot lists that denote vals[p:]"""
    if p == len(vals):
        yield []
        return
    v = vals[p]
    heads = elem_ways(v, cap)
    # written out
    for h in heads:
        for rest in ways(vals, p + 1, cap):
            yield h + rest
    # N x value (N >= 1)
    k = 1
    while p + k <= len(vals) and vals[p + k - 1] == v:
        for h in heads:
            for rest in ways(vals, p + k, cap):
                yield ["R:%d:0" % k] + h + rest
        k += 1
    # range with delta
    if v[0] != "a":
        k = 1
        while p + k <= len(vals):
            ds = delta_for(vals[p:p + k])
            if not ds and k > 1: break
            for d in ds:
                for rest in ways(vals, p + k, cap):
                    yield ["R:%d:1" % k, d, tok(v)] + rest
            k += 1

def random_way(rng, vals, greedy=0.5):
    out, p = [], 0
    while p < len(vals):
        v = vals[p]
        def head():
            if v[0] != "a": return [tok(v)]
            body = random_way(rng, list(v[2]), greedy)
            return ["a:%d:%d" % (v[1], len(body))] + body
        opts = [("plain", 1, None)]
        k = 1
        while p + k <= len(vals) and vals[p + k - 1] == v:
            opts.append(("rep", k, None)); k += 1
        if v[0] != "a":
            k = 1
            while p + k <= len(vals):
                ds = delta_for(vals[p:p + k])
                if not ds and k > 1: break
                for d in ds: opts.append(("delta", k, d))
                k += 1
        if rng.random() < greedy:
            m = max(o[1] for o in opts)
            opts = [o for o in opts if o[1] == m]
        kind, k, d = rng.choice(opts)
        if kind == "plain": out += head()
        elif kind == "rep": out += ["R:%d:0" % k] + head()
        else: out += ["R:%d:1" % k, d, tok(v)]
        p += k
    return out

def some_ways(rng, vals, want, cap=48):
    """plain first, then up to want-1 other ways (all of them when there are at most cap)"""
    pl = plain(vals)
    pool = []
    for w in itertools.islice(ways(vals, 0, cap + 1), cap + 1):
        if w != pl: pool.append(w)
    if len(pool) >= cap:
        pool = []
        for _ in range(want * 3):
            w = random_way(rng, vals, rng.choice([0.2, 0.5, 0.9]))
            if w != pl and w not in pool: pool.append(w)
    rng.shuffle(pool)
    return [pl] + pool[:want - 1], len(pool)

ADDRS = [b"/a", b"/ab", b"/abc", b"/abcd", b"/x/y"]

def bump(dist, k, n=1): dist[k] = dist.get(k, 0) + n

def gen_laws(rng, dist):
    k = rng.choice([2, 3, 3, 3, 4, 5, 7])
    base = rnd_list(rng)
    if rng.random() < 0.03:
        base = with_nan(rng, base)            # finding class nan-in-list
    lists = [base]
    while len(lists) < k:
        r = rng.random()
        if r < 0.7: lists.append(mutate(rng, rng.choice(lists)))
        elif r < 0.85: lists.append(rnd_list(rng))
        else: lists.append(list(rng.choice(lists)))
    toks = []
    for l in lists:
        if rng.random() < 0.45:
            w = random_way(rng, l, rng.choice([0.2, 0.6, 0.95]))
            if w != plain(l): bump(dist, "laws:compressed-lists")
            toks.append(w)
        else:
            toks.append(plain(l))
    bump(dist, "laws:k=%d" % k)
    al = alias_field(rng, dist)
    bump(dist, "laws:lists-with-array", sum(1 for l in lists if has_array(l)))
    bump(dist, "laws:empty-lists", sum(1 for l in lists if not l))
    bump(dist, "laws:lists-with-nan", sum(1 for l in lists if has_nan(l)))
    return "laws " + " ".join(show(t) for t in toks) + al

def alias_field(rng, dist):
    """half of the cases let blob data and strings of all their lists share storage
    (harness only; the model compares contents)"""
    if rng.random() < 0.5:
        bump(dist, "alias=0 (own buffers)")
        return ""
    k = rng.choice([1, 1, 2, 3])
    bump(dist, "alias=%d" % k)
    return " #alias=%d" % k

def gen_comp(rng, dist, want):
    vals = rnd_list(rng)
    if rng.random() < 0.5 and vals:
        # make sure there is something to compress
        k = rng.randrange(len(vals))
        v = vals[k]
        vals = vals[:k] + [v] * rng.randint(2, 3) + vals[k + 1:]
        vals = vals[:6]
    if rng.random() < 0.03:
        vals = with_nan(rng, vals)
    vs, npool = some_ways(rng, vals, want)
    b = mutate(rng, vals) if rng.random() < 0.8 else rnd_list(rng)
    btok = random_way(rng, b, 0.5) if rng.random() < 0.4 else plain(b)
    bump(dist, "comp:variants", len(vs))
    bump(dist, "comp:values-with-nan", 1 if has_nan(vals) else 0)
    bump(dist, "comp:ways<=48" if npool < 48 else "comp:ways-sampled")
    bump(dist, "comp:with-delta-range", 1 if any(t.endswith(":1") and t.startswith("R:") for v in vs for t in v) else 0)
    bump(dist, "comp:with-repeated-array", 1 if any(v[i].startswith("R:") and v[i].endswith(":0") and v[i + 1].startswith("a:")
                                                   for v in vs for i in range(len(v) - 1)) else 0)
    return "comp %s %s %s" % (rng.choice(ADDRS).hex(), show(btok), " ".join(show(v) for v in vs)) + alias_field(rng, dist)

def all_lists(univ, maxlen):
    out = []
    for n in range(maxlen + 1):
        for c in itertools.product(univ, repeat=n):
            out.append(list(c))
    return out

U9 = [("i", 0), ("i", 1), ("T",), ("F",), ("b", b"\x01"), ("b", b"\x01\x00"),
      ("a", 84, ()), ("a", 78, (("N",),)), ("a", 70, (("T",), ("F",)))]
U27 = ([("i", -1), ("i", 0), ("h", 0), ("c", 65), ("r", 0), ("t", 1), ("t", 0), ("t", 2),
        ("f", 0), ("f", 0x80000000), ("f", 0x3f800000), ("d", 0), ("m", b"\0\0\0\1"),
        ("s", None), ("s", b""), ("s", b"a"), ("S", b"a"), ("b", b""), ("b", b"\0"), ("N",), ("I",), ("T",),
        ("a", 70, ()), ("a", 84, ()), ("a", 78, ()), ("a", 84, (("F",), ("T",))), ("a", 105, (("i", 0),))])

def float_block():
    """every pair of boundary patterns of f and d as single values: the model's
    order key of the bit patterns against the hardware comparison"""
    m32 = [0x00000000, 0x00000001, 0x007fffff, 0x00800000, 0x00800001, 0x3f7fffff, 0x3f800000, 0x3f800001,
           0x40490fdb, 0x4b800000, 0x7f7ffffe, 0x7f7fffff, 0x7f800000]
    m64 = [0x0000000000000000, 0x0000000000000001, 0x000fffffffffffff, 0x0010000000000000, 0x3fefffffffffffff,
           0x3ff0000000000000, 0x3ff0000000000001, 0x400921fb54442d18, 0x4340000000000000, 0x7feffffffffffffe,
           0x7fefffffffffffff, 0x7ff0000000000000]
    vals = [("f", x | sg) for x in m32 for sg in (0, 0x80000000)]
    vals += [("f", 0x7fc00000), ("f", 0x7f800001), ("f", 0xffffffff)]
    vals += [("d", x | sg) for x in m64 for sg in (0, 0x8000000000000000)]
    vals += [("d", 0x7ff8000000000000), ("d", 0xfff0000000000001)]
    return "laws " + " ".join(tok(v) for v in vals)

def gen(rng, tier, dist):
    out = [float_block()]
    bump(dist, "laws:float-boundary-block")
    nl, nc, want = (5000, 1800, 6) if tier == "quick" else (150000, 50000, 8)
    for _ in range(nl): out.append(gen_laws(rng, dist))
    for _ in range(nc): out.append(gen_comp(rng, dist, want))
    if tier == "thorough":
        out.append("laws " + " ".join(show(plain(l)) for l in all_lists(U9, 3)))
        out.append("laws " + " ".join(show(plain(l)) for l in all_lists(U27, 2)))
        bump(dist, "laws:exhaustive-blocks", 2)
    else:
        out.append("laws " + " ".join(show(plain(l)) for l in all_lists(U9, 2)))
        bump(dist, "laws:exhaustive-blocks", 1)
    # the same blocks with shared storage, and all blobs / strings of the universe against each other
    out.append(out[-1] + " #alias=1")
    singles = [v for t in "bsS" for v in UNIV[t]]
    for k in (1, 2, 3):
        out.append("laws " + " ".join(tok(v) for v in singles) + " #alias=%d" % k)
    bump(dist, "laws:alias-blocks", 4)
    # cases the oracle would say nothing about (see SILENT): none are generated
    bump(dist, "oracle-silent cases generated", sum(1 for c in out if oracle_silent(c)))
    return out

def oracle_silent(case):
    f = [x for x in case.split(" ")[1:] if x and not x.startswith("#")]
    try:
        if case.startswith("laws "):
            for x in f: expand([] if x == "-" else x.split(","))
        elif case.startswith("comp "):
            vs = [expand([] if x == "-" else x.split(",")) for x in f[1:]]
            if any(v != vs[1] for v in vs[2:]): return True
        return False
    except (Malformed, ValueError, IndexError):
        return True

# ---------------------------------------------------------------------------
# the Spec on the implementation's output
def parse_laws(case, impl):
    f = case.split(" ")[1:]
    lists = []
    for x in f:
        if x.startswith("#") or x == "": break
        lists.append([] if x == "-" else x.split(","))
    m = dict(p.split("=") for p in impl.split(" "))
    return lists, m["cmp"], m["eq"]

def laws_on(idx, k, C, E, vals, lists, kinds=None):
    """the laws on the lists with the indices idx; kinds limits the laws looked at"""
    def want(kd): return kinds is None or kd in kinds
    if want("reflexive"):
        for i in idx:
            if C[i][i] != 0 or not E[i][i]:
                return "reflexive: cmp(x,x)=%d eq(x,x)=%d for x=%s" % (C[i][i], E[i][i], show(lists[i]))
    for i in idx:
        for j in idx:
            if want("antisymmetric") and C[i][j] != -C[j][i]:
                return "antisymmetric: cmp(a,b)=%d cmp(b,a)=%d a=%s b=%s" % (C[i][j], C[j][i], show(lists[i]), show(lists[j]))
            if want("eq-iff-cmp0") and E[i][j] != (C[i][j] == 0):
                return "eq-iff-cmp0: cmp(a,b)=%d eq(a,b)=%d a=%s b=%s" % (C[i][j], E[i][j], show(lists[i]), show(lists[j]))
            if want("compression") and vals[i] == vals[j] and C[i][j] != 0:
                return "compression: same values compare %d a=%s b=%s" % (C[i][j], show(lists[i]), show(lists[j]))
            if want("order"):
                e = expected_sign(vals[i], vals[j])
                if e is not None and e != C[i][j]:
                    return "order: cmp(a,b)=%d, the values say %d a=%s b=%s" % (C[i][j], e, show(lists[i]), show(lists[j]))
    if not want("transitive"):
        return None
    # transitive: a<=b and b<=c -> a<=c, strict if one of them is; via bit sets
    le = [0] * k
    lt = [0] * k
    for i in idx:
        for j in idx:
            if C[i][j] <= 0: le[i] |= 1 << j
            if C[i][j] < 0: lt[i] |= 1 << j
    for a in idx:
        for b in idx:
            if not (le[a] >> b) & 1: continue
            bad = le[b] & ~le[a]
            if not bad and (lt[a] >> b) & 1: bad = le[b] & ~lt[a]
            if not bad: bad = lt[b] & ~lt[a]
            if bad:
                c = bad.bit_length() - 1
                return "transitive: cmp(a,b)=%d cmp(b,c)=%d cmp(a,c)=%d a=%s b=%s c=%s" % (
                    C[a][b], C[b][c], C[a][c], show(lists[a]), show(lists[b]), show(lists[c]))
    return None

def check_laws(case, impl):
    lists, cm, em = parse_laws(case, impl)
    k = len(lists)
    if len(cm) != k * k or len(em) != k * k:
        return "output: malformed result"
    sg = {"-": -1, "0": 0, "+": 1}
    if any(ch not in sg for ch in cm):
        return "output: malformed result"
    try:
        vals = [expand(t) for t in lists]
    except Malformed:
        SILENT["laws:list outside the stated layout"] = SILENT.get("laws:list outside the stated layout", 0) + 1
        return None
    ok = [not has_nan(v) for v in vals]
    C = [[sg[cm[i * k + j]] for j in range(k)] for i in range(k)]
    E = [[em[i * k + j] == "1" for j in range(k)] for i in range(k)]
    # 1. every law on the NaN-free lists
    r = laws_on([i for i in range(k) if ok[i]], k, C, E, vals, lists)
    if r or all(ok):
        return r
    # 2. the lists holding a NaN as well.  The property text makes no exception for
    #    them, so nothing is dropped: "0 exactly when equal" must (and does) hold with
    #    NaN too; a failure of reflexivity / antisymmetry / "same values compare 0" /
    #    transitivity that step 1 did not see involves a NaN list - that is the
    #    finding class nan-in-list (classify() re-derives it from the case).
    #    The order of two lists is judged as well when it is decided before the first
    #    NaN (expected_sign stops at a NaN).
    allidx = list(range(k))
    r = laws_on(allidx, k, C, E, vals, lists, kinds=("eq-iff-cmp0", "order"))
    if r: return r
    return laws_on(allidx, k, C, E, vals, lists, kinds=("reflexive", "antisymmetric", "compression", "transitive"))

def check_comp(case, impl):
    f = case.split(" ")
    addr = bytes.fromhex(f[1])
    vtok = [([] if x == "-" else x.split(",")) for x in f[3:] if x and not x.startswith("#")]
    parts = impl.split(" | ")
    if len(parts) != len(vtok):
        return "output: malformed result"
    try:
        vals = expand(vtok[0])
        for t in vtok[1:]:
            if expand(t) != vals:
                # not variants of one list (hand-written case): nothing to say
                SILENT["comp:not variants of one list"] = SILENT.get("comp:not variants of one list", 0) + 1
                return None
        bvals = expand([] if f[2] == "-" else f[2].split(","))
    except Malformed:
        SILENT["comp:list outside the stated layout"] = SILENT.get("comp:list outside the stated layout", 0) + 1
        return None
    nan = has_nan(vals)
    exp_it = show_vals(vals)
    exp_msg = None
    if not has_array(vals):
        m = osc_message(addr, vals)
        exp_msg = "ERR" if m is None else m.hex()
        if not vtok[0]: exp_msg = "-"      # rtosc_avmessage is not called with 0 values
    first = None
    nanfail = None
    for t, p in zip(vtok, parts):
        g = p.split(" ")
        if len(g) != 3 or not g[1].startswith("it=") or not g[2].startswith("msg="):
            return "output: malformed result %r" % p[:80]
        if first is None: first = g
        if g[0][:6] != first[0][:6]:
            return "compression: eq/cmp against %s differ: %s for %s, %s for %s" % (f[2], first[0], show(vtok[0]), g[0], show(t))
        if g[0][6:] != "s01":
            msg = "compression: b=%s does not compare equal to a=%s (%s)" % (show(t), show(vtok[0]), g[0])
            if not nan: return msg
            # with a NaN among the values: reported last (class nan-in-list), after
            # everything that must hold with NaN too
            if nanfail is None: nanfail = msg
        if g[1][3:] != exp_it:
            return "iteration: %s yields %s, its values are %s" % (show(t), g[1][3:], exp_it)
        if g[2] != first[2]:
            return "message: %s gives %s, %s gives %s" % (show(vtok[0]), first[2][4:], show(t), g[2][4:])
        if exp_msg is not None and g[2][4:] != exp_msg:
            return "message: %s gives %s, its values encode as %s" % (show(t), g[2][4:], exp_msg)
    if True:
        # also with a NaN among the values: expected_sign stops at the first NaN
        e = expected_sign(vals, bvals)
        got = {"-": -1, "0": 0, "+": 1}.get(first[0][4])
        if e is not None and got != e:
            return "order: cmp(a,b)=%s, the values say %d a=%s b=%s" % (first[0][4], e, show(vtok[0]), f[2])
    return nanfail

def spec_check(case, impl):
    if impl is None or impl.startswith("CRASH") or impl == "NOOUT":
        return "crash: %s" % (impl or "")[:300]
    if impl == "BADCASE":
        return None
    try:
        if case.startswith("laws "): return check_laws(case, impl)
        if case.startswith("comp "): return check_comp(case, impl)
    except (ValueError, KeyError, IndexError) as e:
        return "output: cannot evaluate (%s)" % e
    return None

def nontrivial(case, impl):
    if " " not in case: return False
    body = case.split(" ", 1)[1]
    if "R:" in body or "a:" in body: return True
    if case.startswith("laws ") and impl and "cmp=" in impl:
        f = [x for x in body.split(" ") if x and not x.startswith("#")]
        cm = impl.split(" ")[0][4:]
        k = len(f)
        if len(cm) == k * k:
            for i in range(k):
                for j in range(k):
                    if i != j and f[i] != f[j] and (cm[i * k + j] == "0" or f[j].startswith(f[i] + ",")):
                        return True
    return False

NAN_KINDS = ("reflexive", "antisymmetric", "compression", "transitive")

def first_difference(va, vb):
    """walks two written-out lists like the comparison does: 'nan' when the first
    position where they do not hold the same non-NaN value is a float/double pair
    with a NaN on either side, 'equal' when there is no such position, 'other' when
    something else (type, value, length) decides first"""
    for x, y in zip(va, vb):
        if x[0] != y[0]: return "other"
        if x[0] == "f" and (isnan32(x[1]) or isnan32(y[1])): return "nan"
        if x[0] == "d" and (isnan64(x[1]) or isnan64(y[1])): return "nan"
        if x[0] == "a":
            if x[1] != y[1]: return "other"
            r = first_difference(list(x[2]), list(y[2]))
            if r != "equal": return r
        elif x != y:
            return "other"
    return "equal" if len(va) == len(vb) else "other"

def classify(case, impl, failure):
    """nan-in-list: reflexivity, antisymmetry, transitivity or 'two ways of writing the
    same values compare 0' fails and, for two DIFFERENT lists among those the failure
    names (for reflexivity: the one list against itself), the first difference the
    comparison meets is a NaN.
    That implies 'not all_nonan' of a named list, the negation of the side condition
    of the C16_*_partial theorems; it is narrower, so a NaN list whose comparison is
    decided before the NaN is reached is still judged.  'cmp = 0 exactly when eq' is
    never in the class.  Decided from the case text only: the lists the failure names
    (x= a= b= c=) must be lists of the case."""
    kind = failure.split(":")[0]
    if kind not in NAN_KINDS:
        return None
    named = re.findall(r"\b[xabc]=(\S+)", failure)
    f = [x for x in case.split(" ")[1:] if x and not x.startswith("#")]
    inputs = set(f[1:] if case.startswith("comp ") else f)
    if not named or any(n not in inputs for n in named):
        return None
    try:
        vs = [expand([] if n == "-" else n.split(",")) for n in named]
    except (Malformed, ValueError, IndexError):
        return None
    if kind == "reflexive":
        # one list against itself: the walk meets a NaN (nothing else can differ)
        pairs = [(0, 0)] if len(vs) == 1 else []
    elif kind in ("antisymmetric", "compression"):
        # the two lists named, against each other - never a list against itself
        pairs = [(0, 1)] if len(vs) == 2 else []
    else:
        # transitive names a, b, c: cmp(a,b), cmp(b,c), cmp(a,c) are the comparisons
        # the failure rests on; one of them must be decided at a NaN
        pairs = [(0, 1), (1, 2), (0, 2)] if len(vs) == 3 else []
    for i, j in pairs:
        if first_difference(vs[i], vs[j]) == "nan":
            return "nan-in-list"
    return None

# cases the oracle says nothing about (hand-written corpus lines outside the layout the
# theorems speak of); reported in the evidence, expected 0 for generated cases
SILENT = {}
def extra_evidence(ctx):
    return {"oracle_silent": dict(SILENT), "oracle_silent_total": sum(SILENT.values())}

def minimise(case, impl, failure, run):
    """laws: keep only the lists the failure names"""
    if not case.startswith("laws "): return case, impl, failure
    extra = "".join(" " + x for x in case.split(" ")[1:] if x.startswith("#"))
    lists = [x for x in case.split(" ")[1:] if x and not x.startswith("#")]
    k = len(lists)
    if k <= 3: return case, impl, failure
    kind = failure.split(":")[0]
    for n in (1, 2, 3):
        for sub in itertools.combinations(range(k), n):
            c2 = "laws " + " ".join(lists[i] for i in sub) + extra
            o2 = run([c2])[0]
            f2 = spec_check(c2, o2)
            if f2 and f2.split(":")[0] == kind:
                return c2, o2, f2
        if k > 40 and n == 2: break
    return case, impl, failure

TECHNIQUE = ("Coq proofs about a cursor-level model of the arg-val iterator, range_arg, eq_single/cmp_single and "
             "the eq/cmp loops (simulation against a relational denotation of the flat layout, then order laws on "
             "lexicographic keys) + differential correspondence against the real functions under ASan/UBSan + an "
             "independent Python oracle for the laws, the per-type order, iteration and message bytes")
LEVEL_TEXT = ("For every pair/triple of well-formed argument-value lists (unbounded length, every type, arrays - also "
              "nested - and every finite 'N x value' / range-with-delta compression; no NaN) the model's "
              "rtosc_arg_vals_cmp is the lexicographic comparison of the keys of the written-out values and "
              "rtosc_arg_vals_eq is 'that comparison says equal' (C16_cmp_is_key_order_partial, C16_eq_is_key_equality_partial); hence "
              "reflexive, antisymmetric (cmp b a = -cmp a b), transitive incl. the strict cases, eq <-> cmp = 0 "
              "(C16_refl/antisym/trans/eq_iff_cmp0 _partial: side condition 'no NaN', which cannot be dropped: C16_nan_refuted); numbers numerically, strings lexicographically, blobs bytewise with "
              "a proper prefix first, 'immediately' first (C16_numeric_*, C16_lexicographic, C16_blob_prefix, "
              "C16_immediately_first).  The float order key and the model's ==/> on bit patterns are proved to be the "
              "IEEE 754 comparison of Flocq (Bcompare/Beqb/Bltb on b32_of_bits/b64_of_bits) for all bit patterns, NaN "
              "= unordered, +0 == -0 (C16_float/double_key_is_IEEE_order, _nan_is_IEEE_unordered, _eq_gt_are_IEEE, "
              "C16_numeric_float/double_IEEE).  Two ways of writing the same values give the same eq/cmp against every "
              "list, compare equal to each other, iterate to exactly those values and build the same message, which is "
              "the OSC 1.0 encoding enc_spec (C01's Spec encoder) of the tags and payloads of the written-out values, a "
              "top-level array being the bare tag 'a' (C16_compress_invariant_partial, C16_iterate_message, "
              "C16_message_is_osc_encoding, C16_payload_tags_agree, C16_denote_functional).  range_arg is start + i*delta: "
              "wrapping for i c h, and for the Flocq instance of the float arithmetic binary32/64 round-to-nearest-even "
              "with its real-number meaning when nothing overflows (C16_range_arg, C16_range_arg_flocq32/64[_real]).  "
              "The 26 stdlib-only theorems hold for every float arithmetic F and are Closed under the global context; "
              "the 13 Flocq theorems list Flocq's four standard axioms.  Proved about the code after the fix: commits "
              "(D14, D15, D22, D23, D24 and the wrap fix); the functions before the fixes and their refuting witnesses "
              "are in coq/ArgVal/AvRegress.v.")
LEVEL_NOTE = ("Trusted: Coq kernel, extraction (ExtrOcamlBasic), Flocq 4.1 as float arithmetic of the extracted model only, "
              "OCaml driver, harness, generator and Python oracle. The C code is modelled by hand (coq/ArgVal/AvModel.v) "
              "and related to the model only by the correspondence run.")
