"""C13 plug-in: loading a savefile does not depend on the order of its lines.
(Interface: see props/C17.py; application family: save_common.py; harness and
model driver are shared with C12.)"""
import itertools, re
from props import save_common as sc

HARNESS = ["h_C12.cpp"]
VARIANT = "asan"
DRIVER = "C12"
TIMEOUT = 1500

RULE = ("savefiles of generated applications (C12's family: preset selectors with dependent defaults, toggles that "
        "allocate a pointer sub-tree, enabled-by on embedded sub-trees (also by a port inside the sub-tree, and tables switched as a whole by one of their own ports: rSelf(.., rEnabledBy(x)) - one level down and, for every 4th application, on the ROOT table handed to load_from_file), rDepends lists, up to 3 levels, enumerated "
        "sub-trees) in states reached by 3..12 random parameter messages; the message lines are permuted: ALL "
        "permutations up to 6 lines (quick: always up to 4 lines, for every 4th file up to 6), random permutations "
        "beyond; plus sub-files from which depended-on lines (selectors, switches together with their sub-tree) are "
        "removed.  Observed per permutation: return value, the order in which the loader hands the messages out "
        "(savefile_dispatcher_t::on_dispatch), every field afterwards.  Non-trivial = a group with at least 2 lines "
        "of which one depends on another.")
TRUSTED = ["harness/h_C12.cpp (perm stream): splitting the real savefile into message lines, re-assembling permuted files, "
           "the recording savefile_dispatcher_t subclass",
           "tools/props/save_common.py: the apropos table handed to the model (exact path -> metadata of the port it denotes)"]
ASSUMPTIONS = ["addresses in a file are distinct (what save_to_file produces)",
               "sibling names are prefix-free, except that a leaf's name may extend a sub-tree's name (fx_on beside fx/): Ports::apropos finds the port a path denotes (C18's sibling condition)",
               "a sub-file keeps, for every line below a pointer sub-tree, the line of the switch that allocates it"]

def deps_of(ref, i):
    fp = ref.flat[i]
    return ([fp.sel] if fp.sel is not None else []) + list(fp.hard) + list(fp.soft) + list(getattr(fp, "rdeps", []))

_DIST = {}

def gen(rng, tier, dist):
    global _DIST
    _DIST = dist
    n = 300 if tier == "quick" else 4000
    out = list(sc.macro_cases())
    dist["macro-made metadata blocks"] = len(out)
    for c in range(n):
        static = c % 5 == 4
        inner = rng.random() < 0.3      # a switch inside the sub-tree it enables (sub/ and arr#3/)
        opts = {"p_soft": 0.6 if rng.random() < 0.5 else 0.0, "p_sel": 0.8, "p_ptr": 0.7,
                "p_rdep": 0.7, "p_nodef": 0.03, "p_inner": 0.6 if inner else 0.0, "p_arr": 0.7 if inner else 0.4,
                "p_self": 0.8 if rng.random() < 0.3 else 0.0}
        # the ROOT table switched as a whole by one of its own toggles (rSelf(.., rEnabledBy(on)) on the table
        # handed to load_from_file): every line of the file waits for the line of /on
        opts["p_self0"] = 0.9 if c % 4 == 1 else 0.0
        # every 6th application: a table whose leaves form one long dependency chain
        # leaves whose names extend a sibling's name (whole-name comparisons in scan_deps)
        opts["p_prefix_name"] = 0.5 if c % 4 == 3 else 0.0
        opts["p_chain"] = 0.9 if c % 3 == 2 else 0.0
        app = sc.static_app() if static else sc.gen_app(rng, opts)
        ref = sc.Ref(app)
        if not ref.flat:
            continue
        if static:
            dist["macro-made application"] = dist.get("macro-made application", 0) + 1
        tree, flat, apro = app.tree(), sc.flat_text(ref.flat), sc.apro_text(app, ref.flat, ref.dirs)
        nops = rng.choice([3, 4, 5, 6, 8, 12]) if not opts["p_chain"] else rng.choice([8, 12, 16])
        # files with a dependency among their lines: every third application, and all those with a switch inside
        # the directory it governs (rSelf / "name/toggle")
        ops, mops = sc.gen_ops(rng, ref, nops, focus=(c % 3 == 0 or opts["p_self"] > 0 or opts["p_inner"] > 0 or opts["p_self0"] > 0))
        if app.levels[0].self_enabled_by is not None:
            dist["root table with rSelf(.., rEnabledBy)"] = dist.get("root table with rSelf(.., rEnabledBy)", 0) + 1
        st = [list(v) if ref.exists(i) else None for i, v in enumerate(ref.st)]
        want = sc.expected_lines_of_state(ref, st)
        paths = sorted((k[:-2] if k.endswith("~[") else k) for k in want)
        paths.sort(key=lambda p: p + " ")
        k = len(paths)
        idx_of = {p: j for j, p in enumerate(paths)}
        port_of = {p: ref.bypath[p] for p in paths}
        groups = []
        full = list(range(k))
        exhaustive_upto = 6 if (tier != "quick" or c % 4 == 0) else 4
        def perms_of(ixs, cap):
            if len(ixs) <= exhaustive_upto and len(ixs) <= 6:
                return [list(p) for p in itertools.permutations(ixs)]
            outp = [list(ixs), list(reversed(ixs))]
            for _ in range(cap - 2):
                q = list(ixs)
                rng.shuffle(q)
                outp.append(q)
            return outp
        groups.append(perms_of(full, 24 if tier == "quick" else 60))
        # sub-files: drop depended-on lines
        depended = sorted({idx_of[ref.flat[d].path] for p in paths for d in deps_of(ref, port_of[p])
                           if ref.flat[d].path in idx_of})
        for _ in range(2):
            if not depended:
                break
            drop = set(rng.sample(depended, rng.randint(1, len(depended))))
            # a dropped switch takes the lines of its pointer sub-tree with it
            changed = True
            while changed:
                changed = False
                for p in paths:
                    j = idx_of[p]
                    if j in drop:
                        continue
                    for h in ref.flat[port_of[p]].hard:
                        hp = ref.flat[h].path
                        if hp in idx_of and idx_of[hp] in drop:
                            drop.add(j)
                            changed = True
            keep = [j for j in full if j not in drop]
            if rng.random() < 0.3 and len(keep) > 2:
                keep.remove(rng.choice(keep))
                # keep it closed under switches again
                keep = [j for j in keep if all(ref.flat[h].path not in idx_of or idx_of[ref.flat[h].path] in keep
                                               for h in ref.flat[port_of[paths[j]]].hard)]
            groups.append(perms_of(keep, 8))
        # sub-files in which two lines are joined ONLY through three or more ports whose lines are
        # dropped (the order has to hold through every port without a line, however many there are)
        graph = {i: deps_of(ref, i) for i in range(len(ref.flat))}
        line_ix = {port_of[p]: idx_of[p] for p in paths}
        def bfs(src):
            dd, queue = {src: 0}, [src]
            while queue:
                x = queue.pop(0)
                for y in graph[x]:
                    if y not in dd:
                        dd[y] = dd[x] + 1
                        queue.append(y)
            return dd
        reach = {i: bfs(i) for i in line_ix}
        cand = [(dI, aI) for dI in sorted(line_ix) for aI, dl in sorted(reach[dI].items()) if dl >= 4 and aI in line_ix]
        rng.shuffle(cand)
        for dI, aI in cand[:2]:
            mid = {x for x in reach[dI] if x not in (dI, aI) and aI in (reach[x] if x in reach else bfs(x))}
            drop = {line_ix[x] for x in mid if x in line_ix}
            changed = True
            while changed:
                changed = False
                for p in paths:
                    j = idx_of[p]
                    if j in drop:
                        continue
                    for h in ref.flat[port_of[p]].hard:
                        hp = ref.flat[h].path
                        if hp in idx_of and idx_of[hp] in drop:
                            drop.add(j)
                            changed = True
            if line_ix[dI] in drop or line_ix[aI] in drop or len(mid) < 3:
                continue
            keep = [j for j in full if j not in drop]
            groups.append(perms_of(keep, 8))
            # ... and the two ends alone, in both orders
            two = [line_ix[aI], line_ix[dI]]
            if all(ref.flat[h].path not in idx_of or idx_of[ref.flat[h].path] in two
                   for j in two for h in ref.flat[port_of[paths[j]]].hard):
                groups.append([two, list(reversed(two))])
            dist["files with two lines joined only through >= 3 ports without a line"] = \
                dist.get("files with two lines joined only through >= 3 ports without a line", 0) + 1
        gtxt = ";".join("/".join((".".join("%d" % j for j in pm) or "-") for pm in g) for g in groups)
        # edges the oracle checks: (dependee path, dependent path)
        # (also the references of ports without a line that can be reached from a line: the order
        #  has to hold through them - "including files where a depended-on port is itself absent")
        eset, todo, seen_i = set(), [port_of[p] for p in paths], set()
        while todo:
            i = todo.pop()
            if i in seen_i:
                continue
            seen_i.add(i)
            for d in deps_of(ref, i):
                eset.add((ref.flat[d].path, ref.flat[i].path))
                todo.append(d)
        edges = sorted(eset)
        etxt = ",".join("%s>%s" % e for e in edges) or "-"
        out.append("perm %s %s %s %s %s %s %d %s" % (tree, flat, ops, gtxt, apro, mops, k, etxt))
        dist["lines=%d" % min(k, 9)] = dist.get("lines=%d" % min(k, 9), 0) + 1
        dist["loads"] = dist.get("loads", 0) + sum(len(g) for g in groups)
        dist["files with a dependency among their lines"] = dist.get("files with a dependency among their lines", 0) + \
            (1 if any(a in idx_of and b in idx_of for a, b in edges) else 0)
    return out

def canon(case, line):
    if line.startswith("UNDECLARED "):
        # the model driver evaluated `declared a (apropos_of_tree root)` for this application and it does
        # not hold (hypothesis of C13_perm_invariant / C12's sorted pipeline): shown as a disagreement
        return line[:200]
    if " cond=" in line:
        # the model driver's evaluation of wf_app / full_conditions / ranked for this case (C12.count_cond)
        from props import C12 as _c12
        _c12.count_cond(line, _DIST)
    r = parse_out(line)
    if r is None:
        return line
    def nd(d):
        return d if d == "=" else (",".join(sorted(t for t in d.split(",") if not t.endswith("=NULL"))) or "-")
    return "n=%d " % r[0] + ";".join("!".join("BAD" if p is None else "%s@%s@%s" % ("NEG" if p[0] < 0 else p[0], ">".join(p[1]) or "-", nd(p[2]))
                                              for p in g) for g in r[1])

def parse_out(line):
    line = re.sub(r" cond=\S+$", "", line)
    m = re.match(r"n=(\d+) (.*)$", line)
    if not m:
        return None
    groups = []
    for g in m.group(2).split(";"):
        ps = []
        for pm in g.split("!"):
            f = pm.split("@")
            if len(f) != 3:
                ps.append(None)
            else:
                ps.append((int(f[0]), [] if f[1] == "-" else f[1].split(">"), f[2]))
        groups.append(ps)
    return int(m.group(1)), groups

def spec_check(case, impl):
    if case.startswith("macro "):
        return sc.macro_check(case, impl)
    if impl.startswith("CRASH") or impl == "NOOUT" or impl.startswith("BADCASE"):
        return "crash: " + impl[:300]
    f = case.split(" ")
    r = parse_out(impl)
    if r is None:
        return "crash: unreadable output " + impl[:200]
    n, groups = r
    want_n = int(f[7])
    if n != want_n:
        return "lines: the savefile has %d message lines, the state calls for %d" % (n, want_n)
    edges = [] if f[8] == "-" else [tuple(e.split(">")) for e in f[8].split(",")]
    refs = {}
    for a, b in edges:
        refs.setdefault(b, []).append(a)
    perms = [[([] if pm == "-" else [int(x) for x in pm.split(".")]) for pm in g.split("/")] for g in f[4].split(";")]
    # every group and every permutation the case asks for has a result
    if len(groups) != len(perms):
        return "crash: %d groups of permutations asked for, %d in the output" % (len(perms), len(groups))
    for gi, g in enumerate(groups):
        if len(g) != len(perms[gi]):
            return "crash: group %d has %d permutations, the output %d" % (gi, len(perms[gi]), len(g))
    for gi, g in enumerate(groups):
        if any(p is None for p in g):
            return "crash: unreadable group " + impl[:200]
        ret0, order0, dump0 = g[0]
        for pi, (ret, order, dump) in enumerate(g):
            want_len = len(perms[gi][pi])
            if ret != want_len:
                return "count: permutation %s of %d lines reported %d" % (perms[gi][pi], want_len, ret)
            if ret != ret0:
                return "count: permutations of the same lines report %d and %d" % (ret0, ret)
            if pi > 0 and dump != "=":
                return "state: permutations %s and %s of the same lines leave different states" % (perms[gi][0], perms[gi][pi])
            if sorted(order) != sorted(order0) or len(order) != want_len:
                return "order: the loader handed out %d of %d messages (%s)" % (len(order), want_len, ">".join(order))
            pos = {p: j for j, p in enumerate(order)}
            for b in order:
                # everything b refers to, directly or through ports that have no line in this file
                todo, seen = list(refs.get(b, [])), set()
                while todo:
                    a = todo.pop()
                    if a in seen or a == b:
                        continue
                    seen.add(a)
                    if a in pos:
                        if pos[a] > pos[b]:
                            return "order: %s is applied after %s, which depends on it%s (file order %s)" % (
                                a, b, "" if a in refs.get(b, []) else " through ports without a line", perms[gi][pi])
                    else:
                        todo += refs.get(a, [])
    return None

def nontrivial(case, impl):
    f = case.split(" ")
    if f[0] == "macro":
        return True
    if f[8] == "-" or int(f[7]) < 2:
        return False
    r = parse_out(impl)
    if r is None:
        return False
    present = set(r[1][0][0][1]) if r[1] and r[1][0] and r[1][0][0] else set()
    return any(a in present and b in present for a, b in (e.split(">") for e in f[8].split(",")))

def classify(case, impl, failure):
    return None

TECHNIQUE = ("Coq proof about a code-shaped model of scan_deps (string surgery over the three metadata keys, recursion "
             "through ports without a line) and of the Kahn sort (queue seeded in file order, counters, dependees in map "
             "order) + differential correspondence of the hand-out order, return value and final state against "
             "rtosc::load_from_file for all permutations of real savefiles")
LEVEL_TEXT = ("The sort as coded is proved correct for ALL inputs: on acyclic (ranked) edges the fuel suffices, the hand-out order is a "
              "permutation of the messages and respects every edge (C13_kahn, C13_topo over the edges scan_deps produces); two "
              "dependency-respecting orders of the same lines give the same state and count when independent messages commute "
              "(C13_linear_extensions_agree); for C12's abstract application the commutation is proved, so permuting the lines of a file "
              "changes neither the state nor the count (C13_perm_invariant: wf_app, metadata declares the dependencies - decidable, "
              "C13_declared_computed, evaluated in the tie -, acyclic edges); C13_edges_complete, C13_edges_complete_self (the self: port of every "
              "directory above a line: rSelf(.., rEnabledBy(x))), C13_same_edges full at model level; an entry naming a port inside an enumerated "
              "sub-tree resolves below the line's own expanded address (resolve_entry).  Stage 6: references THROUGH ports without a line give edges "
              "(C13_edges_complete_through, the recursive call of scan_deps); permutations of a file give the same REPORTED value "
              "(C13_perm_invariant_reported: dispatch_printed's return value, not only orders of equal length); wf_app, full_conditions and ranked "
              "are evaluated in decidable form on every generated file (C13_ranked_computed, C12_*_computed) and counted into input_distribution.")
LEVEL_NOTE = "apropos (C18) and the metadata lookup (C17) enter the model as a function argument; the application semantics are C12's abstract application"
