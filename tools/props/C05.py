"""C05 plug-in: path-pattern matching follows the documented pattern language.

Case lines (hex fields, '-' = empty string):
  one   <pattern> <address> <types> <ast>
  sweep <pattern> <alphabet> <maxlen> <first> <t1,t2,...> <ast>
<ast> is the pattern as data (what the generator rendered the pattern from):
  seg.seg...;S|N;T<t1>,<t2>..|-      seg = L<hex> | E<digits hex> | A<a1>,<a2>..
The Spec oracle below works on <ast> only (full backtracking over the choices
the property text allows); it never looks at the pattern string and shares no
code with the Coq model.
"""
import itertools

HARNESS = ["h_C05.cpp"]
VARIANT = "asan"
TIMEOUT = 3000

ALPH = b"abc0129/#*,"           # 11 letters
TYPES9 = [b"", b"i", b"ii", b"iii", b"f", b"if", b"fi", b"s", b"is"]
TSPECS = [None, [b"i"], [b"", b"i"], [b"i", b"ii"], [b"ii", b"i"], [b"i", b""],
          [b"if", b"i", b"f"], [b"s"], [b"iii", b""], [b""]]

RULE = ("exhaustive small scope: every well-formed pattern built from 1..3 segments over literals "
        "{a b ab a/ 1 /}, enumerations {#2 #10 #01}, alternatives {{a,b} {ab,b} {a/,b} {1,a} {a,ab} {,a}} "
        "(3-segment patterns from an 8-block subset), with and without trailing '/', ten ':types' specs "
        "round-robin, against EVERY address over the 11-letter alphabet 'abc0129/#*,' up to length 4 (quick) "
        "/ 5 (thorough) and 9 type strings; plus random larger patterns (up to 6 segments, 9-digit N, "
        "leading zeros, alternatives that are prefixes of each other) with addresses spelled from the "
        "pattern and mutated (index N-1/N/N+1, character dropped/added/changed, '/' dropped/added) and "
        "type strings equal to / extending / truncating an alternative.  Non-trivial = the pattern has an "
        "enumeration or alternatives or >= 2 segments and (sweep) at least one address matches.")
TRUSTED = ["harness/h_C05.cpp: builds the shortest well-formed message pad4z(address) ++ pad4z(',' types) in an "
           "exact-size heap block and calls rtosc_match_path / rtosc_match / the RTOSC_VERIF accessors of "
           "arg_matcher and Port_Matcher::rtosc_match_args",
           "tools/props/C05.py: the Python Spec oracle (backtracking over the pattern AST; generative "
           "enumeration of a pattern's language for the sweeps)"]
ASSUMPTIONS = ["address NUL-free and without ':' (ports.h:193); every N of a pattern has at "
               "most 9 digits; pattern of the documented form (wf_pat in coq/Match/PatSpec.v): literals "
               "without NUL : { * #, text after '#N' does not start with a digit, alternatives without NUL , }"]

# ---------------------------------------------------------------------------
def hx(b):
    return b.hex() if b else "-"

def unhx(h):
    return b"" if h == "-" else bytes.fromhex(h)

def render_segs(segs):
    out = b""
    for k, v in segs:
        if k == "L":
            out += v
        elif k == "E":
            out += b"#" + v
        elif k == "S":
            out += b"*"
        else:
            out += b"{" + b",".join(v) + b"}"
    return out

def render(ast):
    segs, sub, types = ast
    out = render_segs(segs) + (b"/" if sub else b"")
    if types is not None:
        out += b"".join(b":" + t for t in types)
    return out

def enc_ast(ast):
    segs, sub, types = ast
    ss = []
    for k, v in segs:
        ss.append(k + (",".join(hx(a) for a in v) if k == "A" else ("" if k == "S" else hx(v))))
    return "%s;%s;%s" % (".".join(ss) if ss else "_", "S" if sub else "N",
                         "-" if types is None else "T" + ",".join(hx(t) for t in types))

def dec_ast(s):
    a, b, c = s.split(";")
    segs = []
    if a != "_":
        for e in a.split("."):
            if e[0] == "S":
                segs.append(("S", b""))
            elif e[0] == "A":
                segs.append(("A", [unhx(x) for x in e[1:].split(",")]))
            else:
                segs.append((e[0], unhx(e[1:])))
    return (segs, b == "S", None if c == "-" else [unhx(x) for x in c[1:].split(",")])

def isdig(c):
    return 48 <= c <= 57

def wf(ast):
    """wf_pat of PatSpec.v"""
    segs, sub, types = ast
    for i, (k, v) in enumerate(segs):
        if k == "L":
            if not v or any(c in b"\0:{*#" for c in v):
                return False
            if i > 0 and segs[i - 1][0] == "E" and isdig(v[0]):
                return False
        elif k == "E":
            if not v or not all(isdig(c) for c in v) or len(v) > 9:
                return False
        elif k == "S":
            if i != len(segs) - 1:          # '*' only as the last segment (star_wf)
                return False
        else:
            if not v or any(c in b"\0,}" for a in v for c in a):
                return False
    if not sub and segs and segs[-1][0] == "L" and segs[-1][1].endswith(b"/"):
        return False
    if types is not None and (not types or any(c in b"\0:" for t in types for c in t)):
        return False
    return True

def prefix_free(alts):
    return not any(a != b and b.startswith(a) for a in alts for b in alts)

def alts_prefix_free(ast):
    return all(prefix_free(v) for k, v in ast[0] if k == "A")

def enum_delimited(ast):
    segs = ast[0]
    for i in range(len(segs) - 1):
        if segs[i][0] == "E":
            k, v = segs[i + 1]
            if k == "E":
                return False
            if k == "A" and any((not a) or isdig(a[0]) for a in v):
                return False
    return True

def addr_ok(addr):
    return b"\0" not in addr and b":" not in addr

# ---- the Spec, by backtracking over every choice the text allows ------------
def spell_ends(segs, addr, pos=0, i=0):
    """all positions where a spelling of segs[i:] that starts at pos can end"""
    if i == len(segs):
        return {pos}
    k, v = segs[i]
    out = set()
    if k == "L":
        if addr.startswith(v, pos):
            out |= spell_ends(segs, addr, pos + len(v), i + 1)
    elif k == "S":                      # any text without '/'
        e = pos
        out |= spell_ends(segs, addr, e, i + 1)
        while e < len(addr) and addr[e] != 47:
            e += 1
            out |= spell_ends(segs, addr, e, i + 1)
    elif k == "E":
        n = int(v)
        e = pos
        while e < len(addr) and isdig(addr[e]):
            e += 1
            if int(addr[pos:e]) < n:
                out |= spell_ends(segs, addr, e, i + 1)
    else:
        for a in v:
            if addr.startswith(a, pos):
                out |= spell_ends(segs, addr, pos + len(a), i + 1)
    return out

def spec_path(ast, addr):
    """set of admissible *path_end offsets (empty = no match)"""
    segs, sub, types = ast
    ends = spell_ends(segs, addr)
    if sub:
        return {e + 1 for e in ends if addr[e:e + 1] == b"/"}
    return {e for e in ends if e == len(addr)}

def spec_types(ast, ty):
    """'must' (equal to an alternative / no restriction), 'mustnot' (neither
    equal to nor an extension of one), 'free' (a proper extension)"""
    types = ast[2]
    if types is None or ty in types:
        return "must"
    if any(ty.startswith(t) for t in types):
        return "free"
    return "mustnot"

def language(segs, alph, maxlen):
    """every string over alph of length <= maxlen spelled by segs"""
    digs = [bytes([c]) for c in alph if isdig(c)]
    cur = {b""}
    for k, v in segs:
        nxt = set()
        if k == "L":
            opts = [v]
        elif k == "A":
            opts = list(v)
        else:
            n = int(v)
            opts = []
            for l in range(1, maxlen + 1):
                for t in itertools.product(digs, repeat=l):
                    s = b"".join(t)
                    if int(s) < n:
                        opts.append(s)
        for x in cur:
            for o in opts:
                if len(x) + len(o) <= maxlen and all(c in alph for c in o):
                    nxt.add(x + o)
        cur = nxt
    return cur

_cache = {}
def expected_sweep(astf, alph, maxlen):
    key = (astf, alph, maxlen)
    if key not in _cache:
        if len(_cache) > 64:
            _cache.clear()
        ast = dec_ast(astf)
        segs, sub, types = ast
        exp = {}
        for x in language(segs, alph, maxlen):
            if not sub:
                exp.setdefault(x, set()).add(len(x))
            elif 47 in alph:
                base = x + b"/"
                for l in range(0, maxlen - len(base) + 1):
                    for t in itertools.product(alph, repeat=l):
                        exp.setdefault(base + bytes(t), set()).add(len(base))
        _cache[key] = (ast, exp)
    return _cache[key]

# ---------------------------------------------------------------------------
def parse_one(impl):
    d = dict(kv.split("=") for kv in impl.split(" "))
    ret, pe = d["mp"].split(":")
    m, mpe = d["m"].split(":")
    return (None if ret == "N" else int(ret)), int(pe), int(m), int(mpe), int(d["am"]), int(d["pm"])

def check_types_bit(ast, ty, bit, what):
    st = spec_types(ast, ty)
    if st == "must" and not bit:
        return "types-missing: %s rejects type string '%s' which equals an alternative" % (what, ty.decode())
    if st == "mustnot" and bit:
        return ("types-spurious: %s accepts type string '%s', neither equal to nor an extension of an alternative"
                % (what, ty.decode()))
    return None

def spec_check(case, impl):
    f = case.split(" ")
    if impl.startswith("CRASH") or impl in ("NOOUT", "BADCASE"):
        return "crash: " + impl[:300]
    if f[0] == "one":
        ast = dec_ast(f[4])
        addr, ty = unhx(f[2]), unhx(f[3])
        try:
            ret, pe, m, mpe, am, pm = parse_one(impl)
        except Exception:
            return "crash: unparsable output " + impl[:100]
        ends = spec_path(ast, addr)
        pathlen = len(render_segs(ast[0])) + (1 if ast[1] else 0)
        if ends and ret is None:
            return "missing-match: address spells the pattern (path end %s) but rtosc_match_path returns NULL" % sorted(ends)
        if not ends and ret is not None:
            return "spurious-match: rtosc_match_path matches an address that does not spell the pattern"
        if ends:
            if pe not in ends:
                return "path-end: *path_end = %d, the Spec allows %s" % (pe, sorted(ends))
            if ret != pathlen:
                return "arg-pattern: returned pattern offset %d, the path part ends at %d" % (ret, pathlen)
            r = check_types_bit(ast, ty, m, "rtosc_match")
            if r:
                return r
            if mpe != pe:
                return "path-end: rtosc_match wrote %d, rtosc_match_path %d" % (mpe, pe)
        else:
            if m:
                return "spurious-match: rtosc_match is true although the path does not match"
        for nm, bit in (("arg_matcher", am), ("Port_Matcher::rtosc_match_args", pm)):
            r = check_types_bit(ast, ty, bit, nm)
            if r:
                return r
        return None
    if f[0] == "sweep":
        alph, maxlen, first = unhx(f[2]), int(f[3]), int(f[4])
        tys = [unhx(x) for x in f[5].split(",")]
        ast, exp = expected_sweep(f[6], alph, maxlen)
        pathlen = len(render_segs(ast[0])) + (1 if ast[1] else 0)
        try:
            d = dict(kv.split("=", 1) for kv in impl.split(" "))
            got = {}
            if d["M"]:
                for e in d["M"].split(";"):
                    a, ret, pe, mask = e.split("/")
                    got[unhx(a)] = (None if ret == "N" else int(ret), int(pe), int(mask, 16))
            anomalies = int(d["X"])
            am, pm = [int(x, 16) for x in d["T"].split("/")]
        except Exception:
            return "crash: unparsable output " + impl[:100]
        mine = lambda a: (first < 0 and a == b"") or (first >= 0 and a[:1] == alph[first:first + 1])
        for a, (ret, pe, mask) in got.items():
            if ret is None:
                return "spurious-match: rtosc_match true (mask %x) for %r although rtosc_match_path is NULL" % (mask, a)
            if a not in exp:
                return "spurious-match: %r matches but does not spell the pattern" % a
            if pe not in exp[a]:
                return "path-end: %r: *path_end = %d, the Spec allows %s" % (a, pe, sorted(exp[a]))
            if ret != pathlen:
                return "arg-pattern: %r: returned pattern offset %d, the path part ends at %d" % (a, ret, pathlen)
            for k, ty in enumerate(tys):
                r = check_types_bit(ast, ty, (mask >> k) & 1, "rtosc_match on %r" % a)
                if r:
                    return r
        if anomalies:
            return "path-end: rtosc_match and rtosc_match_path disagree on *path_end for %d addresses" % anomalies
        for k, ty in enumerate(tys):
            for nm, bits in (("arg_matcher", am), ("Port_Matcher::rtosc_match_args", pm)):
                r = check_types_bit(ast, ty, (bits >> k) & 1, nm)
                if r:
                    return r
        # last: the only kind of failure a known finding can excuse; a miss no
        # finding explains is reported before the explained ones
        missing = [a for a in sorted(exp) if mine(a) and a not in got]
        if missing:
            missing.sort(key=lambda a: miss_cause(ast, a) is not None)
            return "missing-match: %r spells the pattern but is not matched" % missing[0]
        return None
    return "crash: unknown case kind"

# ---- which misses a known finding explains -----------------------------------
# A known-finding class must not swallow a different violation in a pattern that
# merely violates a side condition.  A miss is excused only when THIS address
# needs what the finding says the code cannot do:
#   alt-not-prefix-free  every spelling of the address departs from the
#                        first-alternative-that-fits / longest-digit-run run at a
#                        group where two alternatives are both prefixes of the
#                        address, and that run fails later;
#   enum-then-digit      ... departs from it at an enumeration whose longest digit
#                        run swallows digits the next segment has to spell;
#   star-at-end          the run succeeds and a '*' that ends the pattern (no '/',
#                        no ':types') has to stand for non-empty text.
# The reference run below is written from the two finding texts in
# known-findings.txt (first alternative that fits, longest digit run, no way
# back); it is used for classification only, never for a verdict.
def all_spellings(ast, addr):
    """every way the address spells the pattern, as tuples of segment ends"""
    segs, sub, types = ast
    out = []
    def go(i, pos, acc):
        if i == len(segs):
            if (addr[pos:pos + 1] == b"/") if sub else (pos == len(addr)):
                out.append(tuple(acc))
            return
        k, v = segs[i]
        if k == "L":
            if addr.startswith(v, pos):
                go(i + 1, pos + len(v), acc + [pos + len(v)])
        elif k == "S":
            e = pos
            go(i + 1, e, acc + [e])
            while e < len(addr) and addr[e] != 47:
                e += 1
                go(i + 1, e, acc + [e])
        elif k == "E":
            e = pos
            while e < len(addr) and isdig(addr[e]):
                e += 1
                if int(addr[pos:e]) < int(v):
                    go(i + 1, e, acc + [e])
        else:
            for e in sorted({pos + len(a) for a in v if addr.startswith(a, pos)}):
                go(i + 1, e, acc + [e])
    go(0, 0, [])
    return out

def committed_run(ast, addr):
    """(ends, ok): one choice per segment and no way back - the first alternative
    in pattern order that is a prefix, the longest digit run, '*' up to the next
    '/'.  ends has an entry for every segment whose extent is defined (also for
    an enumeration whose value is too large)."""
    segs, sub, types = ast
    pos, ends = 0, []
    for k, v in segs:
        if k == "L":
            if not addr.startswith(v, pos):
                return ends, False
            pos += len(v)
        elif k == "S":
            while pos < len(addr) and addr[pos] != 47:
                pos += 1
        elif k == "E":
            e = pos
            while e < len(addr) and isdig(addr[e]):
                e += 1
            if e == pos:
                return ends, False
            ends.append(e)
            if int(addr[pos:e]) >= int(v):
                return ends, False
            pos = e
            continue
        else:
            for a in v:
                if addr.startswith(a, pos):
                    pos += len(a)
                    break
            else:
                return ends, False
        ends.append(pos)
    return ends, ((addr[pos:pos + 1] == b"/") if sub else (pos == len(addr)))

def miss_cause(ast, addr):
    """the known-finding class that explains why an address which spells the
    pattern is not matched, or None"""
    segs, sub, types = ast
    sp = all_spellings(ast, addr)
    if not sp:
        return None
    g, ok = committed_run(ast, addr)
    if ok:
        if segs and segs[-1][0] == "S" and not sub and types is None:
            start = g[-2] if len(g) >= 2 else 0
            if g[-1] > start:
                return "star-at-end"
        return None
    best = None
    for p in sp:
        j = 0
        while j < len(g) and j < len(p) and p[j] == g[j]:
            j += 1
        if j >= len(g) or j >= len(p):
            return None                      # a spelling the committed run does not leave: unexplained
        k = segs[j][0]
        if k == "E" and p[j] < g[j]:
            c = "enum-then-digit"
        elif k == "A":
            c = "alt-not-prefix-free"
        else:
            return None
        if best is None or j < best[0]:
            best = (j, c)
    return best[1]

def sweep_missing(case, impl):
    f = case.split(" ")
    alph, maxlen, first = unhx(f[2]), int(f[3]), int(f[4])
    ast, exp = expected_sweep(f[6], alph, maxlen)
    d = dict(kv.split("=", 1) for kv in impl.split(" "))
    got = set()
    if d["M"]:
        for e in d["M"].split(";"):
            got.add(unhx(e.split("/")[0]))
    mine = lambda a: (first < 0 and a == b"") or (first >= 0 and a[:1] == alph[first:first + 1])
    return ast, [a for a in sorted(exp) if mine(a) and a not in got]

def classify(case, impl, failure):
    """known-finding classes.  Narrower than the side conditions of
    C05_path_partial: a missing match is excused only when the address needs the
    backtracking the finding describes (miss_cause); in a sweep EVERY missing
    address must be explained."""
    if not failure.startswith("missing-match"):
        return None
    f = case.split(" ")
    try:
        if f[0] == "one":
            return miss_cause(dec_ast(f[4]), unhx(f[2]))
        ast, missing = sweep_missing(case, impl)
    except Exception:
        return None
    causes = [miss_cause(ast, a) for a in missing]
    if not causes or any(c is None for c in causes):
        return None
    return causes[0]

def nontrivial(case, impl):
    f = case.split(" ")
    ast = dec_ast(f[4] if f[0] == "one" else f[6])
    rich = len(ast[0]) >= 2 or any(k != "L" for k, _ in ast[0])
    if f[0] == "sweep":
        return rich and "M= " not in impl
    return rich

# ---------------------------------------------------------------------------
L_ALL = [("L", b"a"), ("L", b"b"), ("L", b"ab"), ("L", b"a/"), ("L", b"1"), ("L", b"/")]
E_ALL = [("E", b"2"), ("E", b"10"), ("E", b"01")]
A_ALL = [("A", [b"a", b"b"]), ("A", [b"ab", b"b"]), ("A", [b"a/", b"b"]), ("A", [b"1", b"a"]),
         ("A", [b"a", b"ab"]), ("A", [b"", b"a"])]
SMALL = [("L", b"a"), ("L", b"b/"), ("L", b"1"), ("E", b"2"), ("E", b"10"),
         ("A", [b"a", b"b"]), ("A", [b"ab", b"b"]), ("A", [b"a", b"ab"])]

def grammar_patterns():
    blocks = L_ALL + E_ALL + A_ALL
    seqs = [[x] for x in blocks] + [[x, y] for x in blocks for y in blocks] + \
           [[x, y, z] for x in SMALL for y in SMALL for z in SMALL]
    out = []
    i = 0
    for s in seqs:
        for sub in (False, True):
            ast = (s, sub, TSPECS[i % len(TSPECS)])
            if wf(ast):
                out.append(ast)
                i += 1
    return out

def rnd_str(rng, alph, lo, hi):
    return bytes(rng.choice(alph) for _ in range(rng.randint(lo, hi)))

def rnd_ast(rng):
    nseg = rng.choice([1, 2, 2, 3, 3, 4, 5, 6])
    segs = []
    for _ in range(nseg):
        r = rng.random()
        if r < 0.4:
            s = rnd_str(rng, b"abcxyz_-01/}", 1, 5)
            if segs and segs[-1][0] == "E" and isdig(s[0]):
                s = b"x" + s
            segs.append(("L", s))
        elif r < 0.7:
            n = rng.choice([0, 1, 2, 3, 9, 10, 11, 16, 99, 100, 128, 1000, 65536, 999999999, 123456789,
                            rng.randint(1, 999999999)])
            ds = str(n).encode()
            if rng.random() < 0.3:
                ds = ds.rjust(min(9, len(ds) + rng.randint(1, 3)), b"0")
            segs.append(("E", ds))
        else:
            na = rng.choice([1, 2, 2, 3, 4])
            alts = []
            for _ in range(na):
                if alts and rng.random() < 0.35:
                    b = rng.choice(alts)          # prefix / extension of an earlier one
                    a = b[:rng.randint(0, len(b))] if rng.random() < 0.5 else b + rnd_str(rng, b"abc1", 1, 2)
                else:
                    a = rnd_str(rng, b"abcxyz01/#", 0 if rng.random() < 0.1 else 1, 4)
                alts.append(a)
            segs.append(("A", alts))
    if rng.random() < 0.12:
        segs.append(("S", b""))            # '*' (outside the documented form), last segment only
    sub = rng.random() < 0.4
    types = rng.choice(TSPECS + [[b"ifs", b"if", b"i"], [b"T", b"F"], [b"ssss"]])
    ast = (segs, sub, types)
    if not sub and segs[-1][0] == "L" and segs[-1][1].endswith(b"/"):
        segs[-1] = ("L", segs[-1][1] + b"e")
    return (segs, sub, types)

def rnd_spelling(rng, ast):
    """an address built from the pattern (mostly matching), as a list of pieces"""
    out = []
    for k, v in ast[0]:
        if k == "L":
            out.append(v)
        elif k == "A":
            out.append(rng.choice(v))
        elif k == "S":
            out.append(rnd_str(rng, b"abcx1_", 0, 3))
        else:
            n = int(v)
            x = rng.choice([0, n - 1, n - 1, n, n + 1, n // 2, rng.randint(0, max(0, n - 1))])
            x = max(0, min(x, 999999999))
            if rng.random() < 0.12:         # more than 9 digits: 2^32 + small, 2^64 + small, ...
                x = rng.choice([2 ** 32, 2 ** 32 + 1, 2 ** 32 + n - 1, 2 ** 31, 2 ** 63, 2 ** 64, 2 ** 64 + 1,
                                10 ** 10, 10 ** 19, 10 ** 20 + 1, 4294967295, 4294967290 + rng.randrange(10)])
            s = str(x).encode()
            if rng.random() < 0.3:
                s = s.rjust(len(s) + rng.randint(1, 4), b"0")
            out.append(s)
    if ast[1]:
        out.append(b"/")
        out.append(rnd_str(rng, b"abc/01", 0, 4))
    return out

def mutate(rng, addr):
    r = rng.random()
    if r < 0.45 or not addr:
        return addr
    i = rng.randrange(len(addr))
    if r < 0.6:
        return addr[:i] + addr[i + 1:]
    if r < 0.75:
        return addr[:i] + bytes([rng.choice(b"abc01/x#")]) + addr[i:]
    if r < 0.9:
        return addr[:i] + bytes([rng.choice(b"abc01/x")]) + addr[i + 1:]
    return addr + rng.choice([b"/", b"a", b"0", b"/a"])

def rnd_types(rng, ast):
    types = ast[2]
    if types is None or rng.random() < 0.15:
        return rng.choice(TYPES9)
    t = rng.choice(types)
    r = rng.random()
    if r < 0.45:
        return t
    if r < 0.65:
        return t + rng.choice([b"i", b"f", b"s", b"ii"])
    if r < 0.8 and t:
        return t[:-1]
    if r < 0.9 and t:
        i = rng.randrange(len(t))
        return t[:i] + b"c" + t[i + 1:]
    return rng.choice(TYPES9)

def gen(rng, tier, dist):
    out = []
    pats = grammar_patterns()
    maxlen = 4 if tier == "quick" else 5
    tyf = ",".join(hx(t) for t in TYPES9)
    for ast in pats:
        a = enc_ast(ast)
        p = hx(render(ast))
        for first in range(-1, len(ALPH)):
            out.append("sweep %s %s %d %d %s %s" % (p, ALPH.hex(), maxlen, first, tyf, a))
    dist["sweep-patterns"] = len(pats)
    dist["sweep-addresses-per-pattern"] = sum(len(ALPH) ** l for l in range(maxlen + 1))
    dist["sweep-pairs(pattern,address,types)"] = dist["sweep-patterns"] * dist["sweep-addresses-per-pattern"] * len(TYPES9)
    dist["sweep-patterns-not-prefix-free"] = sum(1 for a in pats if not alts_prefix_free(a))
    dist["sweep-patterns-enum-then-digit"] = sum(1 for a in pats if not enum_delimited(a))
    n = 3000 if tier == "quick" else 150000
    made = 0
    while made < n:
        ast = rnd_ast(rng)
        if not wf(ast):
            dist["random-rejected-not-wf"] = dist.get("random-rejected-not-wf", 0) + 1
            continue
        p = hx(render(ast))
        a = enc_ast(ast)
        for _ in range(6):
            addr = mutate(rng, b"".join(rnd_spelling(rng, ast)))
            if not addr_ok(addr):
                continue
            ty = rnd_types(rng, ast)
            m = bool(spec_path(ast, addr))
            dist["random-spec-match" if m else "random-spec-nomatch"] = \
                dist.get("random-spec-match" if m else "random-spec-nomatch", 0) + 1
            out.append("one %s %s %s %s" % (p, hx(addr), hx(ty), a))
            made += 1
        k = "random-segments=%d" % len(ast[0])
        dist[k] = dist.get(k, 0) + 1
        if not alts_prefix_free(ast):
            dist["random-not-prefix-free"] = dist.get("random-not-prefix-free", 0) + 1
    return out

TECHNIQUE = ("Coq proofs about a hand-written model of the four matchers against a relational Spec over the "
             "pattern AST + exhaustive small-scope differential correspondence (model vs. real code under ASan) "
             "+ independent Python Spec oracle on the implementation's outputs")
LEVEL_TEXT = ("Partial. Proved for ALL well-formed patterns, addresses (NUL-free, no ':', digit runs <= 9) and type strings, "
              "no size bound: (full) every match spells the pattern - literals verbatim, one of the alternatives, every "
              "index < N, path ends / continues after '/' as the pattern says - and returns the ':types' part "
              "(C05_no_spurious, C05_index_bound, C05_callback_index_bound, C05_match_sound); the type matcher admits "
              "exactly the alternatives and the proper extensions of the LAST non-empty alternative "
              "(C05_types_complete, C05_types_sound, C05_types_ext_last_only, C05_match_types_exact; 'every "
              "alternative is extensible' is C05_types_ext_every_refuted - the property text tolerates extensions, "
              "the Python oracle gives no verdict on them, the model/implementation tie fixes them); the three copies of the type matcher agree (C05_copies_agree); the "
              "loop terminates for every pattern string (C05_path_total). (partial) every address that spells the pattern is "
              "matched UNDER alts_prefix_free and enum_delimited (C05_path_partial, C05_match_partial); without them the "
              "statement is false of the code (C05_path_refuted {a,ab}c/abc, C05_enum_refuted #2{1,a}/01): known findings "
              "alt-not-prefix-free, enum-then-digit.  The classifier is narrower than the side conditions: a missing "
              "match is excused only when the address itself needs the backtracking (miss_cause in the plug-in).")
LEVEL_NOTE = ("Trusted: Coq kernel, extraction (ExtrOcamlBasic), OCaml driver, harness, generators, the Python Spec oracle. "
              "The C code is modelled by hand (coq/Match/MatchModel.v, follows the repaired rtosc_match_args) and related to "
              "the model by the exhaustive small-scope correspondence run under ASan. atoi on more than 9 digits is outside "
              "the model (stated precondition).")
