"""C09 plug-in: walking a port tree enumerates exactly its dispatchable addresses.
(plug-in interface: see tools/props/C17.py; formats: harness/h_C09.cpp)

The Spec oracle below is written from the property text over the generated
level tables, their kinds and the runtime state; it does not use the Coq model."""
from props import ports_common as pc
from props.ports_common import hx, unhx

HARNESS = ["h_C09.cpp"]
VARIANT = "asan"
DRIVER = "C09"

RULE = ("port trees of depth 1..4 built from one table per level of the struct family N0>N1>N2>N3: sub-tree ports from "
        "rRecur / rRecurp / rRecurs (#1..#3) callbacks under one-component names and under multi-component names "
        "(a/b/, a/b#3/c/), multi-component names with several '#' such as a#3/b#2/c/ (hand-written "
        "recursion callback), leaves from rToggle / rParamI / rSelf callbacks and plain leaves with 0..2 '#N', "
        "multi-component names and argument parts; 'enabled by' metadata on sub-tree ports and on self:; walked without "
        "a runtime object and with one under random assignments of every toggle and every rRecurp pointer; initial "
        "buffer empty, '/' or a prefix; every reported address is sent as a message with EVERY argument alternative its port declares "
        "(leaves with :i:f, :s:ss, ::i:c:S, :ii:f:T, ::T:F ...), with and without a location buffer; up to 24 addresses per case that the walk does "
        "not report (a reported leaf address extended by one or two letters, by a sibling's name, by its first character) are sent too and must reach no leaf.  Non-trivial = at least one '#' or two levels, or a pruned sub-tree.")
TRUSTED = ["harness/h_C09.cpp: the struct family, the run-time pairing of names/metadata with macro-generated callbacks, "
           "the resolution of table addresses to objects, the walker callback, the dispatch of every reported address",
           "tools/props/ports_common.py: the Spec-side expansion of '#N'"]
ASSUMPTIONS = ["sub-tree names end in '/'; a name paired with the rRecurs callback has exactly one '#' (the callback takes "
               "the index at the first one); no ':' in front of a '#'; 1 <= N",
               "'enabled by' names a toggle of the same table, or (rRecur / rRecurp / rRecurs ports with a one-component "
               "name) a toggle inside the sub-tree it disables ('name/toggle', 'name#N/toggle')",
               "the buffer is large enough (walk_ports' own asserts are off in the pinned build type)",
               "dispatch of a reported address is demanded when names_ok holds (the hypothesis of C09_dispatchable_names_ok_partial; "
               "macro callbacks only) or when no concrete sibling name is a prefix of another and literal characters are "
               "not digits"]

KIND_SUB = "RPAMXYZ"
KIND_OBJ_SUB, KIND_OBJ_PTR, KIND_OBJ_ARR = "RX", "PY", "AZ"

def lit(s):
    return ('L', s.encode() if isinstance(s, str) else s)

bump_shape = [0]
bump_macro = [0]
bump_enum_inside = [0]
ALPH = ["abcdxyz"]       # literal characters of generated names; with digits in 30 % of the trees
def gen_level_tables(rng, depth, dirty):
    """tables[lv] = list of ports (dicts with an extra 'kind'); every sub-tree
    port of level lv has sub = tables[lv+1]"""
    tables = [None] * depth
    for lv in range(depth - 1, -1, -1):
        t = []
        used = set()
        reserved = set()
        def fresh(n=2, strict=False):
            # strict names (toggles, sub-trees) are never equal to another base name: the
            # runtime oracle and 'enabled by' address ports by name
            for _ in range(80):
                s = "".join(rng.choice(ALPH[0]) for _ in range(rng.randint(1, n)))
                if s == "self" or s in reserved or (strict and s in used):
                    continue
                if dirty and not strict or not any(u.startswith(s) or s.startswith(u) for u in used):
                    used.add(s)
                    if strict:
                        reserved.add(s)
                    return s
            s = "q%d" % len(used); used.add(s); reserved.add(s); return s
        toggles = []
        if rng.random() < 0.7:
            nm = fresh(3, strict=True); toggles.append(('T', nm))
            t.append(pc.mk_port([lit(nm)], b"::T:F", pc.render_meta([(b"parameter", None)]), None, kind='T'))
        if rng.random() < 0.4:
            nm = fresh(strict=True); toggles.append(('U', nm))
            t.append(pc.mk_port([lit(nm)], b"::T:F", pc.render_meta([(b"parameter", None)]), None, kind='U'))
        def en_meta():
            es = [(b"doc", b"d")]
            if toggles and rng.random() < 0.5:
                es.insert(rng.randint(0, 1), (b"enabled by", rng.choice(toggles)[1].encode()))
            return pc.render_meta(es)
        if lv < depth - 1:
            kinds = [k for k in "RPA" if rng.random() < 0.45]
            if rng.random() < 0.4:
                kinds = [k for k in kinds if k != 'R'] + ['M']
            if not kinds:
                kinds = [rng.choice("RPAM")]
            child_toggles = [q for q in tables[lv + 1] if q['kind'] in "TU"]
            for k in kinds:
                if k in "RP":
                    segs = [lit(fresh(strict=True) + "/")]
                    # a sub-tree whose name is the beginning of its sibling enabling toggle's
                    # name (fx/ enabled by fxon): the addresses /p/fx/ and /p/fxon share a prefix
                    longt = [nm for _, nm in toggles if len(nm) >= 2 and nm[:-1] not in reserved and nm[:-1] not in used]
                    if longt and rng.random() < 0.5:
                        tg = rng.choice(longt)
                        used.add(tg[:-1]); reserved.add(tg[:-1])
                        meta = pc.render_meta([(b"enabled by", tg.encode()), (b"doc", b"d")])
                        t.append(pc.mk_port([lit(tg[:-1] + "/")], b"", meta, tables[lv + 1], kind=k))
                        bump_shape[0] += 1
                        continue
                    if child_toggles and rng.random() < 0.35:
                        # 'enabled by' names a port INSIDE the sub-tree it disables: "name/toggle"
                        tg = rng.choice(child_toggles)['name'].split(b":")[0]
                        meta = pc.render_meta([(b"enabled by", segs[0][1] + tg), (b"doc", b"d")])
                        t.append(pc.mk_port(segs, b"", meta, tables[lv + 1], kind=k))
                        continue
                elif k == 'A':
                    segs = [lit(fresh(strict=True)), ('E', rng.choice([1, 2, 2, 3, 3, 3, 11, 12] if lv == 0 else [1, 2, 3])), lit("/")]
                    if child_toggles and rng.random() < 0.35:
                        # 'enabled by' names a port inside the ENUMERATED sub-tree it disables: "name#N/toggle"
                        tg = rng.choice(child_toggles)['name'].split(b":")[0]
                        meta = pc.render_meta([(b"enabled by", pc.render_segs(segs) + tg), (b"doc", b"d")])
                        t.append(pc.mk_port(segs, b"", meta, tables[lv + 1], kind=k))
                        bump_enum_inside[0] += 1
                        continue
                elif rng.random() < 0.55:
                    # a multi-component name under a MACRO recursion callback: X rRecurCb(sub),
                    # Y rRecurpCb(subp), Z rRecursCb(arr,12) with exactly one '#'
                    k = rng.choice("XYZ")
                    nc = rng.choice([2, 2, 3])
                    hash_at = rng.randrange(nc) if k == 'Z' else -1
                    segs = []
                    for ci in range(nc):
                        segs.append(lit(fresh(strict=(ci == 0))))
                        if ci == hash_at:
                            segs.append(('E', rng.choice([1, 2, 3, 11, 12] if lv <= 1 else [1, 2, 3])))
                        segs.append(lit("/"))
                    segs = merge(segs)
                    bump_macro[0] += 1
                else:
                    segs = []
                    for ci in range(rng.choice([2, 2, 3])):
                        segs.append(lit(fresh(strict=(ci == 0))))
                        if rng.random() < 0.5:
                            segs.append(('E', rng.choice([1, 2, 3, 11] if lv == 1 else [1, 2, 3])))
                            if rng.random() < 0.25:
                                segs.append(lit(rng.choice("xyz")))      # text directly behind the index: a#2x/
                        segs.append(lit("/"))
                    segs = merge(segs)
                t.append(pc.mk_port(segs, b"", en_meta(), tables[lv + 1], kind=k))
        if rng.random() < 0.5:
            t.append(pc.mk_port([lit("self")], b":", en_meta(), None, kind='S'))
        if rng.random() < 0.5:
            t.append(pc.mk_port([lit(fresh())], b"::i", pc.render_meta([(b"parameter", None)]), None, kind='V'))
        if rng.random() < 0.3:
            # a leaf with two enumerations, one of them with two-digit indices
            t.append(pc.mk_port([lit(fresh()), ('E', rng.choice([2, 3])), lit("/" + fresh()), ('E', rng.choice([2, 11]))],
                                rng.choice([b"", b"::i"]), None, None, kind='L'))
        for _ in range(rng.choice([0, 1, 1, 2, 3])):
            segs = []
            for ci in range(rng.choice([1, 1, 1, 2])):
                if ci:
                    segs.append(lit("/"))
                segs.append(lit(fresh()))
                if rng.random() < 0.4:
                    segs.append(('E', rng.choice([1, 2, 3, 11] if lv == 1 else [1, 2, 3])))
                    if rng.random() < 0.3:
                        segs.append(lit(rng.choice("xyz")))
            t.append(pc.mk_port(merge(segs), rng.choice([b"", b"", b":i", b"::i", b":", b":T:F", b":s:i", b":i:f", b":s:ss", b"::i:c:S", b":ii:f:T"]),
                                pc.gen_meta(rng) if rng.random() < 0.5 else None, None, kind='L'))
        rng.shuffle(t)
        if not t:
            t.append(pc.mk_port([lit(fresh())], b"", None, None, kind='L'))
        tables[lv] = t
    return tables

def merge(segs):
    out = []
    for s in segs:
        if out and out[-1][0] == 'L' and s[0] == 'L':
            out[-1] = ('L', out[-1][1] + s[1])
        else:
            out.append(s)
    return out

def kinds_of(t):
    out = ""
    for p in t:
        out += p['kind']
        if p['sub'] is not None:
            out += kinds_of(p['sub'])
    return out

def attach_kinds(t, kinds, pos=0):
    for p in t:
        p['kind'] = kinds[pos]; pos += 1
        if p['sub'] is not None:
            pos = attach_kinds(p['sub'], kinds, pos)
    return pos

def enabled_by(p):
    m = p['meta']
    if not m:
        return None
    parts = m.split(b"\0")
    for i, x in enumerate(parts):
        if x == b":enabled by" and i + 1 < len(parts) and parts[i + 1].startswith(b"="):
            return parts[i + 1][1:]
    return None

def toggle_kind(t, name):
    for p in t:
        if p['name'] == name or p['name'].startswith(name + b":"):
            return p['kind']
    return None

def child_key(p, a_idx):
    """which field of the parent object a sub-tree port leads to"""
    k = p['kind']
    if k in KIND_OBJ_SUB:
        return ('sub',)
    if k in KIND_OBJ_PTR:
        return ('subp',)
    if k in KIND_OBJ_ARR or pc.n_hash(p['segs']):
        return ('arr', a_idx)
    return ('sub',)

def expand_idx(segs):
    """(concrete name, last index) pairs"""
    outs = [(b"", 0)]
    for k, v in segs:
        if k == 'L':
            outs = [(o + v, i) for o, i in outs]
        else:
            outs = [(o + str(j).encode(), j) for o, i in outs for j in range(v)]
    return outs

def all_tables(t, addr=b"/", key=(), out=None):
    """(table address, table, object key) under every expansion, no pruning"""
    if out is None:
        out = []
    out.append((addr, t, key))
    for p in t:
        if p['sub'] is not None:
            for a, idx in expand_idx(p['segs']):
                all_tables(p['sub'], addr + a, key + (child_key(p, idx),), out)
    return out

def spec_walk(t, rt, off, nulls, addr, ids=(), key=()):
    """the Spec: (ids, address) of every leaf of every visited table, in table
    order; rt = with a runtime object; off = set of (object key, 'T'|'U');
    nulls = set of object keys whose subp is NULL"""
    out = []
    if rt:
        for i, p in enumerate(t):
            if p['kind'] == 'S':
                e = enabled_by(p)
                if e is not None and (key, toggle_kind(t, e)) in off:
                    # only the enabling port of a disabled table is reported
                    for j, q in enumerate(t):
                        if q['name'] == e or q['name'].startswith(e + b":"):
                            return [(ids + (j,), addr + e)]
                break
    for i, p in enumerate(t):
        if p['sub'] is None:
            for a in pc.expand(p['segs']):
                out.append((ids + (i,), addr + a))
        else:
            for a, idx in expand_idx(p['segs']):
                sa = addr + a
                ckey = key + (child_key(p, idx),)
                if rt:
                    if p['kind'] in KIND_OBJ_PTR and key in nulls:
                        continue
                    e = enabled_by(p)
                    if e is not None and b"/" in e:
                        # the enabling port lies inside the sub-tree: the CHILD object's toggle decides;
                        # a disabled sub-tree still reports that port (it must always be traversed)
                        tg = e.split(b"/", 1)[1]
                        if (ckey, toggle_kind(p['sub'], tg)) in off:
                            for j, q in enumerate(p['sub']):
                                if q['name'] == tg or q['name'].startswith(tg + b":"):
                                    out.append((ids + (i, j), sa + tg))
                                    break
                            continue
                    elif e is not None and (key, toggle_kind(t, e)) in off:
                        continue
                out += spec_walk(p['sub'], rt, off, nulls, sa, ids + (i,), ckey)
    return out

def off_toggle_addrs(tables, off):
    """the runtime state as the model of port_is_enabled sees it: the absolute
    address (relative to the root "/") of every toggle that answers false - under
    EVERY address its table's object is reached at"""
    out = []
    for a, tb, k in tables:
        for w in "TU":
            if (k, w) in off:
                for p in tb:
                    if p['kind'] == w:
                        out.append(a + p['name'].split(b":")[0])
    return sorted(set(out))

def bump(dist, k, n=1):
    dist[k] = dist.get(k, 0) + n

def alternatives(name):
    """the argument alternatives a port name declares (b"x:s:i" -> [b"s", b"i"]; none declared -> [b""])"""
    i = name.find(b":")
    return [b""] if i < 0 else name[i + 1:].split(b":")

import re
LEADING_ZERO = re.compile(rb"0[0-9]")      # a '0' in front of a digit: possibly an index spelled with a leading zero

def unreported(addr, reported):
    """an address the walk must not report and no leaf may answer to: it is none of the enumerated
    addresses and has no '0' in front of a digit (an index with leading zeros is the one other spelling
    dispatch accepts; literal digits in names make any such run a possible one)"""
    return addr not in reported and not LEADING_ZERO.search(addr)

def port_at(t, ids):
    tb, p = t, None
    for i in ids:
        p = tb[i]
        tb = p['sub'] or []
    return p

def near_misses(rng, t, enum, dist):
    """addresses next to reported ones that were NOT reported: a reported leaf address extended by one
    or two characters, or by the (concrete) name of a sibling of that leaf; sent with the arguments of
    the leaf's first alternative, so that only the address keeps the leaf from answering"""
    reported = {a for _, a in enum}
    out = []
    for ids, a in rng.sample(enum, min(len(enum), 8)):
        p = port_at(t, ids)
        tb = t
        for i in ids[:-1]:
            tb = tb[i]['sub']
        sibs = [x for q in tb if q is not p for x in pc.expand(q['segs'])[:1]]
        cands = [bytes([rng.choice(b"abcdxyz")]), bytes(rng.choice(b"abcdxyz") for _ in range(2)), b"a", b"b"]
        if sibs:
            sb = rng.choice(sibs)
            cands += [sb, sb.rstrip(b"/"), sb[:1]]
        ty = alternatives(p['name'])[0]
        for c in cands:
            if c and unreported(a + c, reported) and len(out) < 24:
                out.append((a + c, ty))
                bump(dist, "near-miss-address:" + ("+sibling-name" if len(c) > 2 or (sibs and c in (sb, sb.rstrip(b"/"))) else "+%d-char" % len(c)))
    return out

def gen(rng, tier, dist):
    out = []
    ntree = 400 if tier == "quick" else 10000
    for _ in range(ntree):
        depth = rng.choice([1, 2, 2, 3, 3, 4])
        dirty = rng.random() < 0.15
        ALPH[0] = "abcdxyz12" if rng.random() < 0.3 else "abcdxyz"
        tabs = gen_level_tables(rng, depth, dirty)
        t = tabs[0]
        et, ek = pc.enc_tree(t), kinds_of(t)
        bump(dist, "depth-%d" % depth)
        bump(dist, "subtree-name-prefix-of-its-toggle", bump_shape[0]); bump_shape[0] = 0
        bump(dist, "multi-component-name-under-macro-callback", bump_macro[0]); bump_macro[0] = 0
        bump(dist, "enabled-by-inside-enumerated-subtree", bump_enum_inside[0]); bump_enum_inside[0] = 0
        flat = [p for tb in tabs for p in tb]
        bump(dist, "trees-with-subtree-N>=11", 1 if any(p['sub'] is not None and any(k == 'E' and v >= 11 for k, v in p['segs']) for p in flat) else 0)
        bump(dist, "trees-with-leaf-two-hash", 1 if any(p['sub'] is None and pc.n_hash(p['segs']) >= 2 for p in flat) else 0)
        # the decidable hypothesis of C09_dispatchable_names_ok_partial, evaluated on this tree (the driver
        # prints what the extracted Coq function says; macro recursion ports only)
        nok = 1 if pc.names_ok(t) and 'M' not in ek else 0
        bump(dist, "names_ok-trees", nok)
        bump(dist, "names_ok-trees-with-literal-digits", 1 if nok and any(48 <= c <= 57 for p in flat for k, v in p['segs'] if k == 'L' for c in v) else 0)
        tables = all_tables(t)
        enum_all = spec_walk(t, 0, set(), set(), b"/")
        bump(dist, "reported-leaves-with-several-argument-alternatives",
             sum(1 for ids, _ in enum_all if len(alternatives(port_at(t, ids)['name'])) > 1))
        keys = sorted({k for _, _, k in tables})
        tab_of_key = {}
        for a, tb, k in tables:
            tab_of_key.setdefault(k, (a, tb))
        for rep in range(3):
            rt = 0 if rep == 0 else 1
            off, nulls = set(), set()
            if rt:
                pr = rng.choice([0.15, 0.4])
                for k in keys:
                    a, tb = tab_of_key[k]
                    for w in "TU":
                        if rng.random() < pr:
                            off.add((k, w))
                    if any(p['kind'] in KIND_OBJ_PTR for p in tb) and rng.random() < pr:
                        nulls.add(k)
            dis, selfoff, nulladdrs = [], [], []
            for a, tb, k in tables:
                for p in tb:
                    if p['kind'] in KIND_OBJ_PTR and k in nulls:
                        nulladdrs += [a + x for x in pc.expand(p['segs'])]
                    e = enabled_by(p)
                    if e is None:
                        continue
                    if p['sub'] is not None and b"/" in e:
                        tg = e.split(b"/", 1)[1]
                        for x, idx in expand_idx(p['segs']):
                            if (k + (child_key(p, idx),), toggle_kind(p['sub'], tg)) in off:
                                dis.append(a + x)
                        bump(dist, "enabled-by-inside-subtree")
                        continue
                    if (k, toggle_kind(tb, e)) in off:
                        if p['sub'] is not None:
                            dis += [a + x for x in pc.expand(p['segs'])]
                        elif p['kind'] == 'S':
                            selfoff.append(a)
            tgoff = off_toggle_addrs(tables, off)
            buf = rng.choice([b"", b"", b"/", b"/pre/", b"/p0/q/"])
            j = lambda l: ";".join(hx(x) for x in l) if l else "-"
            offs = ";".join("%s:%d" % (hx(tab_of_key[k][0]), 0 if w == 'T' else 1) for k, w in sorted(off)) or "-"
            nm = ";".join("%s:%s" % (hx(a), ty.decode() or "-") for a, ty in near_misses(rng, t, enum_all, dist)) or "-"
            out.append("walk %s %s %s %d %s %s %s %s nok=%d tg=%s nm=%s" % (et, ek, hx(buf), rt, j(sorted(set(nulladdrs))), j(dis), j(selfoff), offs, nok, j(tgoff), nm))
            bump(dist, "runtime" if rt else "static")
            bump(dist, "pruned-subtrees", len(dis) + len(nulls))
    # ---- siblings of which a '#N' meets a literal digit (a#4b / a01b): with a leading zero the two
    # names alias - the known finding dispatch-leading-zero-alias (C09_dispatchable_refuted); with
    # digits >= N or no leading zero they do not, and the strong reading is demanded and must hold
    for k in range(6 if tier == "quick" else 150):
        stem = rng.choice([b"a", b"v", b"os"])
        n = rng.choice([2, 4, 11])
        digs = rng.choice([b"01", b"00", b"01", b"9", str(n + 7).encode(), b"001"])
        tail = rng.choice([b"b", b"x", b"b/c"])
        args = rng.choice([b"", b"", b":i"])
        ps = [pc.mk_port([('L', stem), ('E', n), ('L', tail)], args, None, None, kind='L'),
              pc.mk_port([('L', stem + digs + tail)], args, None, None, kind='L')]
        if rng.random() < 0.4:
            ps.append(pc.mk_port([lit("zq")], b"", None, None, kind='L'))
        if rng.random() < 0.3:
            ps.reverse()
        nokv = 1 if pc.names_ok(ps) and 'M' not in kinds_of(ps) else 0
        bump(dist, "digit-facing-sibling-families")
        bump(dist, "digit-facing-sibling-families-aliased", 1 if digs[:1] == b"0" and int(digs) < n else 0)
        out.append("walk %s %s - 0 - - - - nok=%d tg=- nm=-" % (pc.enc_tree(ps), kinds_of(ps), nokv))
    return out

def parse_case(case):
    f = case.split(" ")
    t = pc.dec_tree(f[1])
    attach_kinds(t, f[2])
    buf = unhx(f[3])
    rt = f[4] == "1"
    tables = all_tables(t)
    key_of = {a: k for a, _, k in tables}
    nulls = set()
    if f[5] != "-":
        for x in f[5].split(";"):
            a = unhx(x)                      # address of the sub-tree: its parent table owns subp
            for pa, tb, k in tables:
                if a.startswith(pa) and any(q['sub'] is not None and q['kind'] in KIND_OBJ_PTR
                                            and a[len(pa):] in pc.expand(q['segs']) for q in tb):
                    nulls.add(k)
                    break
    off = set()
    if f[8] != "-":
        for e in f[8].split(";"):
            a, k = e.split(":")
            off.add((key_of[unhx(a)], 'T' if k == "0" else 'U'))
    return t, buf, rt, nulls, off

def tree_ok(t):
    ok = all(pc.name_ok(p) for p in t) and pc.table_prefix_free(t)
    for p in t:
        if p['sub'] is not None:
            ok = ok and tree_ok(p['sub'])
    return ok

def text_ok(t):
    """every table satisfies what the property texts ask of names (pc.table_text_ok: documented form,
    1 <= N, no concrete sibling name a prefix of another) - no names_ok, no digit exclusion"""
    return pc.table_text_ok(t) and all(text_ok(p['sub']) for p in t if p['sub'] is not None)

def alias_hits(t, rel, ids):
    """the leaves the address names by structural descent (pc.addressed, C05 spelling: leading
    zeros accepted), in table order, when the reported port `ids` is one of several and lies
    behind a level where a '#N' meets a literal digit of a sibling (a#4b / a01b); else None"""
    hits = sorted((h for h in pc.addressed(t, rel[1:]) if h[1]['sub'] is None), key=lambda h: h[0])
    if len(hits) < 2 or not any(h[0] == tuple(ids) and h[3] for h in hits):
        return None
    return hits

def admits(p, ty):
    """True / False / None (no verdict: a proper extension of an alternative)"""
    if b":" not in p['name']:
        return True
    alts = alternatives(p['name'])
    if ty in alts:
        return True
    return None if any(ty.startswith(a) for a in alts) else False

def predicted(t, rel, ids, ty):
    """what the finding dispatch-leading-zero-alias predicts for a reported pair: every leaf the
    address names is called, in table order (C04: all matching ports), each sees the full address,
    d.matches = their number.  -> (d part, dl part) in the harness's notation, or None"""
    hits = alias_hits(t, rel, ids)
    if hits is None:
        return None
    adm = [admits(h[1], ty) for h in hits]
    if any(a is None for a in adm):
        return None
    hits = [h for h, a in zip(hits, adm) if a]
    me = pc.show_id(canon_id(t, tuple(ids)))
    tag = [me if h[0] == tuple(ids) else "other" for h in hits]
    if me not in tag or len(tag) < 2:
        return None
    return ("+".join(tag), "+".join("%s@%s" % (x, hx(rel)) for x in tag) + "#%d#%s" % (len(tag), hx(b"/")))

def reached_ids(t, part, with_loc):
    """the ports a dispatch reached ('other' for ports that are not the reported one)"""
    if with_loc:
        part = part.split("#")[0]
    out = []
    for x in part.split("+"):
        x = x.split("@")[0]
        if x not in ("-", ""):
            out.append(x if x == "other" else canon_ids(t, x))
    return out

def spec_check(case, impl):
    return judge(case, impl, False)

def judge(case, impl, finding):
    """finding=False: the oracle.  finding=True (classify): the same, but a reported pair the known
    finding dispatch-leading-zero-alias applies to is compared with what that finding predicts."""
    if impl.startswith("CRASH") or impl == "NOOUT":
        return "crash: the implementation did not answer (%s)" % impl[:200]
    t, buf, rt, nulls, off = parse_case(case)
    m = dict(x.split("=", 1) for x in impl.split(" "))
    pre = buf if buf else b"/"
    # the oracle's addresses are relative to the root "/": the walk prefixes them with the buffer
    want = [(pc.show_id(canon_id(t, ids)), pre + a[1:]) for ids, a in spec_walk(t, rt, off, nulls, b"/")]
    got = []
    if m["w"] != "-":
        for e in m["w"].split(";"):
            i, a = e.split("@")
            got.append((canon_ids(t, i), unhx(a)))
    if got != want:
        k = next((k for k in range(min(len(got), len(want))) if got[k] != want[k]), min(len(got), len(want)))
        return ("enumeration: walk reported %d pairs, the tree has %d; first difference at #%d: %r vs %r"
                % (len(got), len(want), k, got[k] if k < len(got) else None, want[k] if k < len(want) else None))
    if unhx(m["buf"]) != pre:
        return "buffer: holds %r afterwards, started with %r" % (unhx(m["buf"]), buf)
    f = case.split(" ")
    nok = len(f) > 9 and f[9] == "nok=1"
    # kinds X Y Z = the macro recursion callbacks under multi-component names: dispatchable
    # since SNIP skips as many components as the name has (C09_multicomponent_macro_pinned_refuted
    # keeps the old behaviour)
    kinds = f[2]
    ids_all = [ids for ids, _ in spec_walk(t, rt, off, nulls, b"/")]
    strong = tree_ok(t) or nok or (text_ok(t) and 'M' not in kinds)
    if not strong:
        # outside every side condition (clashing / undocumented names): the weak reading is still
        # demanded on EVERY tree - the reported port is among the ports the dispatch reaches, with
        # every argument alternative, with and without a location buffer
        d = m["d"].split(";") if m["d"] != "-" else []
        dl = m["dl"].split(";") if m["dl"] != "-" else []
        da = m["da"].split(";") if "da" in m and got else []
        if len(d) != len(got) or len(dl) != len(got) or ("da" in m and len(da) != len(got)):
            return "dispatch: %d pairs were reported, %d / %d / %d dispatch results came back" % (len(got), len(d), len(dl), len(da))
        if 'M' not in kinds:
            for k, (i, a) in enumerate(got):
                parts = [("no", d[k], False), ("a", dl[k], True)]
                if da and da[k] != "-":
                    for x in da[k].split("|"):
                        ty, _, both = x.partition("!")
                        noloc, _, wl = both.partition("~")
                        parts += [("no (arguments ',%s')" % ty, noloc, False), ("a (arguments ',%s')" % ty, wl, True)]
                for tag, part, wl in parts:
                    if i not in reached_ids(t, part, wl):
                        return ("dispatch-weak: %r was reported for port %s; sent as a message with %s location buffer it reached %s - "
                                "the reported port is not among them" % (a, i, tag, part))
    if strong:
        d = m["d"].split(";") if m["d"] != "-" else []
        if len(d) != len(got):
            return "dispatch: %d pairs were reported, %d dispatch results came back" % (len(got), len(d))
        first_ty = lambda ids: alternatives(port_at(t, ids)['name'])[0]
        pred = lambda a, ids, ty: predicted(t, b"/" + a[len(pre):], ids, ty) if finding else None
        for (i, a), ids, r in zip(got, ids_all, d):
            pr = pred(a, ids, first_ty(ids))
            if pr is not None:
                if r != pr[0]:
                    return "dispatch: %r was reported for port %s, sent as a message it reached %s (the known alias predicts %s)" % (a, i, r, pr[0])
                continue
            if canon_ids(t, r) != i:
                return "dispatch: %r was reported for port %s, sent as a message it reached %s" % (a, i, r)
        # with a location buffer: the same single port, it sees the full address in d.loc,
        # matches = 1, loc back to "/" afterwards
        dl = m["dl"].split(";") if m["dl"] != "-" else []
        if len(dl) != len(got):
            return "dispatch-loc: %d pairs were reported, %d dispatch results (with a location buffer) came back" % (len(got), len(dl))
        for (i, a), ids, r in zip(got, ids_all, dl):
            rel = b"/" + a[len(pre):]
            want_dl = "%s@%s#1#%s" % (i, hx(rel), hx(b"/"))
            pr = pred(a, ids, first_ty(ids))
            if pr is not None:
                if r != pr[1]:
                    return "dispatch-loc: %r reported for port %s; with a location buffer the dispatch gave %s, the known alias predicts %s" % (a, i, r, pr[1])
                continue
            hit, cnt, after = r.split("#")
            hid = hit.split("@")[0]
            got_dl = "%s@%s#%s#%s" % (canon_ids(t, hid), hit.split("@")[1] if "@" in hit else "", cnt, after)
            if got_dl != want_dl:
                return ("dispatch-loc: %r reported for port %s; with a location buffer the dispatch gave %s "
                        "(port@loc#matches#loc-after), expected %s" % (a, i, r, want_dl))
        # ... and that with EVERY argument alternative the port declares, not only the first
        if "da" in m:
            da = m["da"].split(";") if got else []
            if len(da) != len(got):
                return "dispatch-alternatives: %d pairs were reported, %d results came back" % (len(got), len(da))
            ids_of = [ids for ids, _ in spec_walk(t, rt, off, nulls, b"/")]
            for (i, a), ids, r in zip(got, ids_of, da):
                alts = alternatives(port_at(t, ids)['name'])[1:]
                res = [] if r == "-" else r.split("|")
                if len(res) != len(alts):
                    return "dispatch-alternatives: %r: port %s declares %d further alternatives, %d were sent" % (a, i, len(alts), len(res))
                rel = b"/" + a[len(pre):]
                want_dl = "%s@%s#1#%s" % (i, hx(rel), hx(b"/"))
                for alt, x in zip(alts, res):
                    ty, _, both = x.partition("!")
                    noloc, _, wl = both.partition("~")
                    if ty != alt.decode():
                        return "dispatch-alternatives: %r: alternative %r was to be sent, %r was" % (a, alt, ty)
                    pr = pred(a, ids, alt)
                    if pr is not None:
                        if (noloc, wl) != pr:
                            return ("dispatch-alternative: %r was reported for port %s; sent with the arguments ',%s' the dispatch gave %s / %s, "
                                    "the known alias predicts %s / %s" % (a, i, ty, noloc, wl, pr[0], pr[1]))
                        continue
                    if canon_ids(t, noloc) != i:
                        return ("dispatch-alternative: %r was reported for port %s; sent with the arguments ',%s' (an alternative the port "
                                "declares) and no location buffer it reached %s" % (a, i, ty, noloc))
                    hit, _, rest = wl.partition("#")
                    hid, _, hloc = hit.partition("@")
                    got_dl = "%s@%s#%s" % (canon_ids(t, hid), hloc, rest)
                    if got_dl != want_dl:
                        return ("dispatch-alternative: %r was reported for port %s; sent with the arguments ',%s' (an alternative the port "
                                "declares) and a location buffer the dispatch gave %s (port@loc#matches#loc-after), expected %s" % (a, i, ty, wl, want_dl))
        # addresses next to reported ones that the walk does NOT report reach no leaf
        nmf = next((x[3:] for x in f[9:] if x.startswith("nm=")), "-")
        if nmf != "-" and "nd" in m:
            reported = {a for _, a in spec_walk(t, 0, set(), set(), b"/")}
            ents = nmf.split(";")
            nd = m["nd"].split(";")
            if len(nd) != len(ents):
                return "unreported: %d addresses were sent, %d results came back" % (len(ents), len(nd))
            for e, r in zip(ents, nd):
                a = unhx(e.split(":")[0])
                if not unreported(a, reported):
                    continue
                if r != "-~-#0":
                    noloc, _, wl = r.partition("~")
                    names = lambda x: "+".join(repr(unhx(y)) for y in x.split("+")) if x != "-" else "no port"
                    return ("unreported-address: %r is not among the addresses the walk reports, yet sent as a message (arguments ',%s') it "
                            "reaches %s without and %s with a location buffer (d.matches %s)"
                            % (a, e.split(":")[1].replace("-", ""), names(noloc), names(wl.split("#")[0]), wl.split("#")[1]))
    return None

def canon_id(t, ids):
    """the walker sees a Port* and an address: two sibling sub-trees of the same name
    cannot be told apart, so an index stands for the first sibling of that name"""
    out = []
    for i in ids:
        if i >= len(t):
            return ids
        j = next(k for k, q in enumerate(t) if q['name'] == t[i]['name'])
        out.append(j)
        t = t[i]['sub'] or []
    return tuple(out)

def canon_ids(t, s):
    try:
        return pc.show_id(canon_id(t, tuple(int(x) for x in s.split("."))))
    except ValueError:
        return s

_tree_cache = {}
def tree_of(case):
    f = case.split(" ")
    if f[1] not in _tree_cache:
        if len(_tree_cache) > 64:
            _tree_cache.clear()
        _tree_cache[f[1]] = pc.dec_tree(f[1])
    return _tree_cache[f[1]]

def canon(case, line):
    # the model has no d= / z= fields
    if not line.startswith("w="):
        return line
    t = tree_of(case)
    m = dict(x.split("=", 1) for x in line.split(" "))
    w = m["w"]
    if w != "-":
        w = ";".join(canon_ids(t, e.split("@")[0]) + "@" + e.split("@")[1] for e in w.split(";"))
    # names_ok: the model line carries the value of the extracted Coq function, the
    # implementation line gets the generator's own evaluation from the case
    f = case.split(" ")
    ok = m.get("ok")
    if ok is None:
        ok = "1" if pc.names_ok(t) else "0"
    return "w=%s buf=%s ok=%s" % (w, m["buf"], ok)

def nontrivial(case, impl):
    f = case.split(" ")
    return "23" in f[1] or ",1," in f[1] or f[6] != "-" or f[5] != "-"

def classify(case, impl, failure):
    """dispatch-leading-zero-alias: a reported address is spelled by a sibling enumeration too (a#4b
    next to a01b: "01" is an index of a#4b, C05), so the dispatcher calls BOTH ports (C04: every
    matching port), d.matches counts both.  Granted only when the failure is about a dispatch of a
    reported pair and the whole oracle, run again with the finding's prediction for exactly the
    reported pairs it applies to (alias_hits: several leaves named, the reported one behind a level
    where a '#N' meets a sibling's literal digit; predicted: all of them called in table order,
    each seeing the full address, matches = their number), accepts the output."""
    if failure and failure.split(":")[0] in ("dispatch", "dispatch-loc", "dispatch-alternative"):
        try:
            if judge(case, impl, True) is None:
                return "dispatch-leading-zero-alias"
        except Exception:
            return None
    return None

TECHNIQUE = ("Coq proofs (structural induction over the port tree and the segments of each name) about a model of walk_ports / "
             "walk_ports_recurse0 / bundle_foreach with a pruning oracle + differential correspondence against the real "
             "walk_ports over macro-generated callbacks, with the real dispatch of every reported address")
LEVEL_TEXT = ("For every well-formed tree ('#N' at any level, leaf names with several '#') the reported (port, address) list is exactly "
              "the Spec's enumeration (C09_enumerates); the buffer is restored for every tree, oracle and initial content "
              "(C09_buffer_restored) and the erase loop's length test never fires (C09_erase_check_dead); with a runtime object, "
              "for every oracle, the reported list is the enumeration with the pruned sub-trees left out and the walk does not "
              "fail (C09_enumerates_rt, C09_walk_total_rt; oracle-relative, like C09_pruning, C09_pruning_enumerated, "
              "C09_self_disabled); the oracle is what port_is_enabled returns: metadata lookup, sub-port test, operator[], "
              "location string + collapsePath, the toggle's answer (coq/Ports/EnabledModel.v; C09_oracle_disabled, "
              "C09_oracle_selfoff, C09_pruned_reports_asked_port) - the tie's model computes the pruning from the runtime state "
              "(tg= field) through that model; every reported address is dispatched to the reported port, with and without a location buffer, "
              "for names of the macro shape - sub-tree names of one or more components - and pairwise non-overlapping siblings "
              "(C09_dispatchable_partial = C09_enumerates + C05 + C04; without the sibling condition: C09_dispatchable_refuted, finding dispatch-leading-zero-alias).")
LEVEL_NOTE = ("Trusted: Coq kernel, extraction, OCaml driver, harness, generator. The C++ code is modelled by hand "
              "(coq/Ports/WalkModel.v, coq/Ports/EnabledModel.v) and related to the model only by the correspondence run. The "
              "runtime enters the model as the toggles' answers (per table address and toggle name) and the NULL child pointers.")
