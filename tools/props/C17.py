"""C17 plug-in: Port metadata is read back exactly as written.

Plug-in interface used by tools/vcheck.py:
  HARNESS      harness sources under harness/ (linked with the library built
               from /repo's working tree)
  VARIANT      'asan' | 'plain'
  gen(rng, tier, dist) -> list of case lines (dist: dict filled with the
               input distribution, copied into the evidence)
  spec_check(case, impl_line) -> None | 'class: what fails'   (the executable
               Spec evaluated on the implementation's output)
  nontrivial(case, impl_line) -> bool
  classify(case, impl_line, failure) -> known-finding class or None
  RULE, TRUSTED, ASSUMPTIONS   strings copied into the evidence
"""
HARNESS = ["h_C17.cpp"]
VARIANT = "asan"
RULE = ("metadata blocks rendered from 1..8 generated (key, optional value) entries over the "
        "alphabet {a b c : = space 0 1 %}; keys non-empty, not starting with ':'; values may be "
        "empty and may contain ':' '='; key space kept small so repeated keys are frequent; queried "
        "with every present key, absent keys, prefixes and extensions of keys; plus the 24 blocks the library's own macros "
        "write for rOption(o<n>, rOptions(<n distinct symbols>), \"d\"), n = 1..24 (every argument count of the rOptions family), "
        "read back with every 'map i'; every returned pointer is compared as an offset AND by the string it leads to.  Non-trivial = at "
        "least 2 entries and (a repeated key or a value containing ':' or '=' or an entry without value).")
TRUSTED = ["harness/h_C17.cpp builds an rtosc::Port around the run-time block and calls Port::meta(), "
           "range-for, find, operator[], length"]
ASSUMPTIONS = ["keys are non-empty, NUL-free and do not start with ':'; values are NUL-free (the "
               "layout rMap/rProp/rDoc/rOpt produce); blocks outside that layout are not exercised"]

ALPH = "abc:= 01%"

def hx(b):
    return b.hex() if b else "-"

def render(es):
    out = b""
    for k, v in es:
        out += b":" + k + b"\0"
        if v is not None:
            out += b"=" + v + b"\0"
    return out + b"\0"

# the argument lists of harness/h_C14_options.h: port o<n> is rOption(o<n>, rOptions(<the first n>), "d")
OM_SYMS = ("alpha bravo charlie delta echo foxtrot golf hotel india juliet kilo lima mike november oscar papa "
           "quebec romeo sierra tango uniform victor whiskey xray").split()
OM_COUNTS = 24                    # OPTIONS_IMP1 .. OPTIONS_IMP24 in include/rtosc/port-sugar.h

def macro_case(rng, n, dist):
    """what rOption(o<n>, rOptions(s_0, ..., s_{n-1}), "d") writes, by the macros' own definitions:
    rProp(parameter) rProp(enumerated) rOpt(0, s_0) ... rOpt(n-1, s_{n-1}) rDoc("d") - the harness
    reads the block the compiler produced from that invocation; 'map i' must read back as s_i"""
    es = [(b"parameter", None), (b"enumerated", None)]
    es += [(b"map %d" % i, OM_SYMS[i].encode()) for i in range(n)]
    es += [(b"documentation", b"d")]
    keys = [b"map %d" % i for i in range(n + 1)] + [b"map", b"documentation", b"enumerated", b"parameter", b"min", b"map 0" + b"0"]
    rng.shuffle(keys)
    dist["macro-written-blocks (rOptions with 1..%d symbols)" % OM_COUNTS] = dist.get("macro-written-blocks (rOptions with 1..%d symbols)" % OM_COUNTS, 0) + 1
    spec = ";".join(hx(k) + ("" if v is None else "=" + hx(v)) for k, v in es)
    return "meta %s %s %s macro=%d" % (render(es).hex(), ",".join(hx(k) for k in keys), spec, n)

def gen(rng, tier, dist):
    n = 4000 if tier == "quick" else 120000
    out = [macro_case(rng, cnt, dist) for cnt in range(1, OM_COUNTS + 1)]
    for _ in range(n):
        ne = rng.choice([1, 1, 2, 2, 3, 3, 4, 5, 6, 7, 8])
        es = []
        for _ in range(ne):
            kl = rng.choice([1, 1, 1, 2, 2, 3, 4])
            k = rng.choice("abc 01%=") + "".join(rng.choice(ALPH) for _ in range(kl - 1))
            r = rng.random()
            if r < 0.3:
                v = None
            elif r < 0.4:
                v = b""
            else:
                v = "".join(rng.choice(ALPH) for _ in range(rng.randint(1, 6))).encode()
            es.append((k.encode(), v))
        keys = []
        for k, _ in es:
            keys.append(k)
            if rng.random() < 0.3:
                keys.append(k[:-1] if len(k) > 1 else k + b"a")
            if rng.random() < 0.3:
                keys.append(k + rng.choice(ALPH).encode())
        keys.append(rng.choice(["zz", "a", "b", "c", "default", "="]).encode())
        keys = keys[:12]
        dist["entries=%d" % ne] = dist.get("entries=%d" % ne, 0) + 1
        dist["valueless"] = dist.get("valueless", 0) + sum(1 for _, v in es if v is None)
        dist["empty-value"] = dist.get("empty-value", 0) + sum(1 for _, v in es if v == b"")
        dist["value-with-colon-or-eq"] = dist.get("value-with-colon-or-eq", 0) + \
            sum(1 for _, v in es if v and (b":" in v or b"=" in v))
        dist["repeated-key-blocks"] = dist.get("repeated-key-blocks", 0) + \
            (1 if len({k for k, _ in es}) < len(es) else 0)
        spec = ";".join(hx(k) + ("" if v is None else "=" + hx(v)) for k, v in es)
        out.append("meta %s %s %s" % (render(es).hex(), ",".join(hx(k) for k in keys), spec))
    return out

def parse_spec(field):
    es = []
    for e in field.split(";"):
        if "=" in e:
            k, v = e.split("=")
            es.append((bytes.fromhex(k), b"" if v == "-" else bytes.fromhex(v)))
        else:
            es.append((bytes.fromhex(e), None))
    return es

def expected(case):
    f = case.split(" ")
    es = parse_spec(f[3])
    keys = [b"" if k == "-" else bytes.fromhex(k) for k in f[2].split(",")]
    pos = 0
    its = []
    for k, v in es:
        t = pos + 1
        pos = t + len(k) + 1
        if v is None:
            its.append((t, -1))
        else:
            its.append((t, pos + 1))
            pos = pos + 1 + len(v) + 1
    total = pos + 1
    qs = []
    for q in keys:
        hit = next((i for i, (k, _) in enumerate(es) if k == q), None)
        qs.append((-1, -1) if hit is None else its[hit])
    ent = ";".join(hx(k) + ("" if v is None else "=" + hx(v)) for k, v in es)
    qv = []
    for q in keys:
        hit = next((v for k, v in es if k == q), None)
        qv.append("~" if hit is None else hx(hit))
    return "it=%s len=%d q=%s ent=%s qv=%s" % (";".join("%d:%d" % p for p in its), total,
                                               ",".join("%d:%d" % p for p in qs), ent, ",".join(qv))

def canon(case, line):
    return line

def spec_check(case, impl):
    e = expected(case)
    if impl != e:
        return "readback: implementation says %s, the written entries say %s" % (impl, e)
    return None

def nontrivial(case, impl):
    es = parse_spec(case.split(" ")[3])
    return len(es) >= 2 and (len({k for k, _ in es}) < len(es) or
                             any(v is None or b":" in v or b"=" in v for _, v in es))

TECHNIQUE = "Coq proof (structural induction over the entry list) about a suffix-pointer model of MetaIterator/MetaContainer + differential correspondence against the real Port::meta() under ASan"
LEVEL_TEXT = ("For every block of >=1 well-formed entries (unbounded number, unbounded lengths) the model's iteration, "
              "find, operator[] and length return exactly the written entries / first value / presence / byte length "
              "(theorems C17_iterate, C17_lookup_find, C17_length, Closed under the global context). The model is tied to "
              "the code on every run by running both on the same generated blocks and comparing every pointer offset.")
LEVEL_NOTE = ("Trusted: Coq kernel, extraction (ExtrOcamlBasic), OCaml driver, harness, generator. The C++ code is modelled "
              "by hand (coq/Ports/MetaModel.v) and related to the model only by the correspondence run. Precondition: "
              "keys non-empty, NUL-free, not starting with ':'; values NUL-free.")
