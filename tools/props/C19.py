"""C19 plug-in: automation output in range, MIDI learn served in order (interface: see props/C17.py).

Case line
  auto <nslots> <per_slot> <params> <regs> <ops>
     params  name:ty:min:max:flags;...    (ty i f T, '-' = metadata absent, flags l=log x=internal n=no learn)
     regs    initial NRPN registers parhi,parlo,valhi,vallo
     ops     b:<slot>:<name>:<learn> | cs:<slot> | cu:<slot>:<sub> | g:<slot>:<sub>:<f32bits> | o:... |
             u:<slot>:<sub> | v:<slot>:<f32bits> | w:<slot>:<sub>:<f32bits> | m:<chan>:<cc>:<val>
Output: one '|'-separated field per operation (format in harness/h_C19.cpp).

spec_check is a reference machine written from the property text (a FIFO list of
the slots that asked for MIDI learn, a table slot -> controller, the declared
parameter ranges): it predicts r= q= s= exactly and checks every emitted message for
address, type, range, monotonicity (positive gain) and the default linear map.  It
shares no code with the Coq model and does not look at the M= dump (control points)."""
import re, struct, math

HARNESS = ["h_C19.cpp"]
VARIANT = "asan-noub"

RULE = ("operation histories of length 1..40 over 2..6 slots x 1..3 sub-automations and 3..6 parameters (int, float, "
        "toggle, log-scale float; a few unbindable ones: no bounds, internal, no learn, unknown path): createBinding "
        "with/without learn, clearSlot, clearSlotSub, setSlotSubGain/Offset (+updateMapping), setSlot/setSlotSub with "
        "values in and outside [0,1], handleMidi with a handful of controllers on 3 channels (bound, unbound) and NRPN "
        "sequences 99/98/6/38 (complete, partial, interleaved); initial NRPN registers -1 or arbitrary.  Non-trivial = "
        "a learn request is served or a bound controller drives a slot or a message is emitted.")
TRUSTED = ["ORACLES of the log-scale theorems (C19_log_in_range, C19_log_monotone_partial, the log clause of C19_in_range_history): libm's logf/expf are arbitrary "
           "functions constrained only by exp_mono (expf monotone on finite arguments), log_mono (logf finite and "
           "monotone on finite positive arguments) and roundtrip (expf(logf x) finite and within relative 1e-5 of x); the "
           "'orc' stream samples these three hypotheses on the libm the harness is linked with on every run",
           "harness/h_C19.cpp builds rtosc::Ports with run-time metadata, reaches the private NRPN registers with "
           "'#define private public', decodes backend messages with rtosc_argument*",
           "driver: text->float (atof), logf, expf are OCaml's float_of_string/log/exp rounded to single (oracles of the model)",
           "tools/props/C19.py reference machine (spec_check) written from the property text; float32 arithmetic "
           "emulated by rounding double results (exact for + - * /)"]
ASSUMPTIONS = ["createBinding is called with a slot index inside the array (the code has no range check there)",
               "MIDI channel and controller numbers are non-negative; data bytes small enough that (hi<<7)+lo does not overflow",
               "in-range, address and type are checked for every slot value, gain and offset (infinities, NaN and "
               "overflowing gains included); monotonicity for every slot value that is a number (an infinite one "
               "falls into the finding class infinite-slot-value = negation of 'finite32 v' of C19_monotone_partial); "
               "the default linear map for slot values in [0,1], bit-exactly clamp(v*(max-min)+min) in float "
               "arithmetic (rounded for int parameters) - no tolerance; a linear parameter whose default control "
               "points are not bit-exactly its bounds misses it by a few ulp: finding class default-points-inexact "
               "(= negation of the side condition of C19_default_linear_partial, and the emitted value must be "
               "exactly the mapping through the control points updateMapping computes)",
               "the slot value set by the message that completes the learning of an NRPN is not specified by the "
               "text (the code uses the last data byte / 127, later drives the 14-bit value / 16383): that one "
               "emission is judged for address, type and range only",
               "log-scale parameters: values compared within a relative tolerance of 1e-5 (expf/logf are libm's); "
               "model and implementation are not compared bit-exactly on log-scale values (masked in canon)",
               "a learn request of a slot that is already waiting or already bound to a CC is ignored (as coded); "
               "a slot bound to an NRPN may ask again (as coded)"]

def f32(x):
    try:
        return struct.unpack("<f", struct.pack("<f", x))[0]
    except OverflowError:
        return math.inf if x > 0 else -math.inf

def bits_of(x):
    return struct.unpack("<I", struct.pack("<f", x))[0]

def of_bits(b):
    return struct.unpack("<f", struct.pack("<I", b & 0xffffffff))[0]

PARAMS = [
    ("pa", "i", "0", "127", "-"), ("pb", "i", "-64", "63", "-"), ("pc", "i", "0", "1", "-"),
    ("pd", "i", "-5", "5", "-"), ("pe", "i", "0", "16383", "-"), ("pg", "i", "1", "100", "-"),
    ("fa", "f", "-1", "10", "-"), ("fb", "f", "0", "100.2", "-"), ("fc", "f", "0", "1", "-"),
    ("fd", "f", "-0.5", "0.5", "-"), ("fe", "f", "0.1", "0.7", "-"), ("fg", "f", "-1000", "-10", "-"),
    ("ta", "T", "-", "-", "-"), ("tb", "T", "-", "-", "-"),
    ("lga", "f", "20", "20000", "l"), ("lgb", "f", "0.01", "100", "l"), ("lgc", "f", "1", "2", "l"),
]
BAD = [("xa", "i", "0", "-", "-"), ("xb", "f", "-", "-", "-"), ("xc", "i", "0", "10", "x"), ("xd", "f", "0", "1", "n")]
VALS = [0.0, 1.0, 0.5, 0.25, 0.75, 1 / 127.0, 64 / 127.0, 126 / 127.0, 0.1, 0.9, 0.499, 0.501, -0.5, 1.5, 2.0, -1.0,
        100.0, -100.0, 1e-6, 0.333333, 0.666667]
GAINS = [100.0, 100.0, 50.0, 200.0, 0.0, -100.0, 1.0, 33.3, 150.0, -50.0, 1000.0, 3e38, -3e38, 1e30, float("inf"), 1e36]
OFFS = [0.0, 0.0, 10.0, -10.0, 50.0, -50.0, 100.0, 25.5, -100.0, 3e38, -1e36]
WILD = [float("inf"), float("-inf"), float("nan"), 1e38, -1e38, 3e38]
CCS = [1, 7, 10, 74]

def gen_case(rng, dist):
    ns, per = rng.randint(2, 6), rng.randint(1, 3)
    pool = rng.sample(PARAMS, rng.randint(3, 6))
    if rng.random() < 0.5:
        pool.append(rng.choice(BAD))
    names = [p[0] for p in pool] + (["zz"] if rng.random() < 0.3 else [])
    regs = "-1,-1,-1,-1" if rng.random() < 0.75 else ",".join(str(rng.choice([-1, 0, 1, 5, 127, -7, 3])) for _ in range(4))
    n = rng.choice([1, 2, 3, 5, 8, 12, 20, 30, 40, rng.randint(1, 40), rng.randint(1, 40)])
    profile = rng.choice(["learn", "learn", "map", "mix"])
    ops = []
    def fv():
        if rng.random() < 0.03:
            return bits_of(rng.choice(WILD))
        return bits_of(rng.choice(VALS) if rng.random() < 0.7 else rng.random())
    def slot(bad=0.05):
        return rng.choice([-1, ns, 99]) if rng.random() < bad else rng.randrange(ns)
    def sub(bad=0.05):
        return rng.choice([-1, per, 7]) if rng.random() < bad else rng.randrange(per)
    ccs = rng.sample(CCS, rng.choice([1, 2, 2, 3]))
    chans = rng.sample([0, 1, 2], rng.choice([1, 1, 2]))
    good = [p[0] for p in pool if p not in BAD]
    for _ in range(rng.choice([0, 1, 2, 2, 3, 3])):          # most histories start by binding something
        ops.append("b:%d:%s:%d" % (rng.randrange(ns), rng.choice(good),
                                   1 if rng.random() < (0.8 if profile == "learn" else 0.4) else 0))
    while len(ops) < n:
        x = rng.random()
        w = {"learn": [0.3, 0.12, 0.03, 0.02, 0.08, 0.45], "map": [0.2, 0.05, 0.05, 0.25, 0.4, 0.05],
             "mix": [0.22, 0.1, 0.05, 0.13, 0.25, 0.25]}[profile]
        acc, k = 0, 0
        for k, wk in enumerate(w):
            acc += wk
            if x < acc:
                break
        if k == 0:
            ops.append("b:%d:%s:%d" % (rng.randrange(ns), rng.choice(names),
                                       1 if rng.random() < (0.7 if profile == "learn" else 0.3) else 0))
        elif k == 1:
            ops.append("cs:%d" % slot())
        elif k == 2:
            ops.append("cu:%d:%d" % (slot(), sub()))
        elif k == 3:
            s, b = slot(), sub()
            if rng.random() < 0.5:
                ops.append("g:%d:%d:%d" % (s, b, bits_of(rng.choice(GAINS))))
            else:
                ops.append("o:%d:%d:%d" % (s, b, bits_of(rng.choice(OFFS))))
            if rng.random() < 0.8:
                ops.append("u:%d:%d" % (s, b))
        elif k == 4:
            if rng.random() < 0.8:
                s = slot()
                for _ in range(rng.choice([1, 1, 2, 3])):
                    ops.append("v:%d:%d" % (s, fv()))
            else:
                ops.append("w:%d:%d:%d" % (slot(), sub(), fv()))
        else:
            r = rng.random()
            if r < 0.55:
                ops.append("m:%d:%d:%d" % (rng.choice(chans), rng.choice(ccs), rng.randint(0, 127)))
            elif r < 0.85:
                seq = [(99, rng.choice([0, 1, 2])), (98, rng.choice([0, 1, 5])), (6, rng.randint(0, 127)), (38, rng.randint(0, 127))]
                if rng.random() < 0.3:
                    seq = seq[:rng.randint(1, 3)]
                if rng.random() < 0.2:
                    rng.shuffle(seq)
                for t, v in seq:
                    ops.append("m:%d:%d:%d" % (rng.randrange(3), t, v))
                    if rng.random() < 0.15:
                        ops.append("m:%d:%d:%d" % (rng.choice(chans), rng.choice(ccs), rng.randint(0, 127)))
            else:
                ops.append("m:%d:%d:%d" % (rng.randrange(3), rng.choice([6, 38, 99, 98, 0, 127]), rng.choice([0, 1, 64, 127, -1, 200])))
    ops = ops[:max(n, 1)]
    dist["profile/" + profile] = dist.get("profile/" + profile, 0) + 1
    dist["slots=%d" % ns] = dist.get("slots=%d" % ns, 0) + 1
    dist["subs=%d" % per] = dist.get("subs=%d" % per, 0) + 1
    case = "auto %d %d %s %s %s" % (ns, per, ";".join(":".join(p) for p in pool), regs, ",".join(ops))
    for ft in predict(case)[1]:
        dist["with-" + ft] = dist.get("with-" + ft, 0) + 1
    return case

def gen_orc(rng, dist):
    """samples for the oracle hypotheses of the log-scale theorems (exp_mono, log_mono, roundtrip)"""
    xs = sorted({bits_of(f32(math.exp(rng.uniform(-80, 80)))) for _ in range(24)} |
                {bits_of(x) for x in (1e-30, 0.01, 0.1, 1.0, 2.0, 20.0, 100.0, 20000.0, 1e30)})
    ys = sorted((rng.uniform(-100, 100) for _ in range(24)))
    ys = sorted(set(f32(y) for y in ys) | {-104.0, -87.5, 0.0, 1.0, 88.5, 89.0})
    dist["oracle-samples"] = dist.get("oracle-samples", 0) + 1
    return "orc %s %s" % (",".join(str(b) for b in xs), ",".join(str(bits_of(y)) for y in ys))

def gen(rng, tier, dist):
    n = 2500 if tier == "quick" else 100000
    return [gen_case(rng, dist) for _ in range(n)] + [gen_orc(rng, dist) for _ in range(n // 25)]

EPS = 1e-5

def orc_check(case, impl):
    f = case.split(" ")
    xs = [of_bits(int(b)) for b in f[1].split(",")]
    ys = [of_bits(int(b)) for b in f[2].split(",")]
    m = re.match(r"^L=(\S*) E=(\S*)$", impl)
    if not m:
        return "shape: oracle line %r" % impl[:200]
    ls = [tuple(of_bits(int(t)) for t in p.split("/")) for p in m.group(1).split(";")]
    es = [of_bits(int(t)) for t in m.group(2).split(";")]
    if len(ls) != len(xs) or len(es) != len(ys):
        return "shape: oracle line has the wrong number of values"
    prev = None
    for x, (l, e) in zip(xs, ls):
        if not math.isfinite(l):
            return "oracle-log_mono: logf(%r) = %r is not finite" % (x, l)
        if prev is not None and l < prev:
            return "oracle-log_mono: logf decreases at %r" % x
        prev = l
        if not math.isfinite(e) or abs(e - x) > EPS * x:
            return "oracle-roundtrip: expf(logf(%r)) = %r" % (x, e)
    prev = None
    for y, e in zip(ys, es):
        if e != e or (prev is not None and e < prev):
            return "oracle-exp_mono: expf(%r) = %r after %r" % (y, e, prev)
        prev = e
    return None

# ---------------------------------------------------------------------------
# reference machine from the property text
class Sub:
    serial = 0
    def __init__(self, name, ty, mn, mx, log):
        self.name, self.ty, self.mn, self.mx, self.log = name, ty, mn, mx, log
        self.gain, self.off = 100.0, 0.0        # as set
        self.egain, self.eoff = 100.0, 0.0      # in effect (at the last updateMapping)
        self.epoch = 0                          # counts updateMapping calls
        Sub.serial += 1
        self.serial = Sub.serial

    def snap(self):
        """what an emission is judged by: the parameter and the mapping in effect"""
        c = Sub(self.name, self.ty, self.mn, self.mx, self.log)
        c.egain, c.eoff, c.key = self.egain, self.eoff, (self.serial, self.epoch)
        return c

class Ref:
    def __init__(self, ns, per, params, regs):
        self.ns, self.per, self.params = ns, per, params
        self.queue = []                     # slots that asked for MIDI learn, oldest first
        self.cc = [-1] * ns                 # controller a slot is bound to
        self.nrpn = [-1] * ns
        self.subs = [[None] * per for _ in range(ns)]
        self.regs = list(regs)              # parhi parlo valhi vallo
        self.feat = set()

    def bind(self, slot, name, learn):
        p = self.params.get(name)
        if p is None:
            return
        ty, mn, mx, flags = p
        if "x" in flags or "n" in flags:
            return
        if ty != "T" and (mn == "-" or mx == "-"):
            return
        free = [j for j in range(self.per) if self.subs[slot][j] is None]
        if not free:
            return
        if ty == "T":
            lo, hi = 0.0, 1.0
        else:
            lo, hi = f32(float(mn)), f32(float(mx))
        self.subs[slot][free[0]] = Sub(name, ty, lo, hi, "l" in flags)
        if learn and slot not in self.queue and self.cc[slot] == -1:
            self.queue.append(slot)
            self.feat.add("learn-request")

    def clear(self, slot):
        if not 0 <= slot < self.ns:
            return
        if slot in self.queue:
            self.feat.add("clear-waiting")
            self.queue.remove(slot)
        elif self.queue:
            self.feat.add("clear-while-others-wait")
        self.cc[slot] = self.nrpn[slot] = -1
        self.subs[slot] = [None] * self.per

    def midi(self, chan, ty, val):
        """-> (ret, [(slot, value)])  the slots driven and the slot value"""
        if ty in (99, 98, 6, 38):
            r = self.regs
            if ty == 99:
                r[0], r[2], r[3] = val, -1, -1
            elif ty == 98:
                r[1], r[2], r[3] = val, -1, -1
            elif r[0] >= 0 and r[1] >= 0:
                r[2 if ty == 6 else 3] = val
            if min(r) < 0:
                self.feat.add("nrpn-partial")
                return 0, []                # an incomplete NRPN sequence is not a controller yet
            ctl, table, v = r[0] * 128 + r[1], self.nrpn, f32((r[2] * 128 + r[3]) / 16383.0)
            self.feat.add("nrpn-complete")
        else:
            ctl, table, v = chan * 128 + ty, self.cc, f32(val / 127.0)
        bound = [i for i in range(self.ns) if table[i] == ctl]
        if bound:
            self.feat.add("bound-drive")
            return 1, [(i, v) for i in bound]
        if self.queue:
            # previously unbound controller: the slot that asked first gets it
            i = self.queue.pop(0)
            table[i] = ctl
            self.feat.add("learn-served")
            if self.queue:
                self.feat.add("learn-served-with-others-waiting")
            if table is self.nrpn:
                # the text does not say which slot value the message that completes the
                # learning of an NRPN sets (data byte or 14-bit value): the emission is
                # judged for address, type and range only (slot value None)
                self.feat.add("nrpn-learn-first-drive")
                return 0, [(i, None)]
            return 0, [(i, f32(val / 127.0))]
        return 0, []

    def state(self):
        return "q=%d s=%s" % (len(self.queue), ";".join(
            "%d/%d/%d" % (self.queue.index(i) + 1 if i in self.queue else -1, self.cc[i], self.nrpn[i])
            for i in range(self.ns)))

def parse(case):
    f = case.split(" ")
    ns, per = int(f[1]), int(f[2])
    params = {}
    for p in f[3].split(";"):
        q = p.split(":")
        params[q[0]] = (q[1], q[2], q[3], q[4])
    regs = [int(x) for x in f[4].split(",")]
    ops = [] if f[5] == "-" else f[5].split(",")
    return ns, per, params, regs, ops

def predict(case):
    """-> (list per op of (ret or None, expected emitters [(slot, sub index, value)], state string), features)"""
    ns, per, params, regs, ops = parse(case)
    m = Ref(ns, per, params, regs)
    out = []
    for o in ops:
        a = o.split(":")
        ret, em = None, []
        def emit(slot, v, only=None):
            if 0 <= slot < ns:
                for j in range(per):
                    if m.subs[slot][j] is not None and (only is None or only == j):
                        em.append((slot, j, v))
        if a[0] == "b":
            m.bind(int(a[1]), a[2], a[3] != "0")
        elif a[0] == "cs":
            m.clear(int(a[1]))
        elif a[0] == "cu":
            s, b = int(a[1]), int(a[2])
            if 0 <= s < ns and 0 <= b < per:
                m.subs[s][b] = None
        elif a[0] in ("g", "o"):
            s, b = int(a[1]), int(a[2])
            if 0 <= s < ns and 0 <= b < per and m.subs[s][b] is not None:
                if a[0] == "g":
                    m.subs[s][b].gain = of_bits(int(a[3]))
                else:
                    m.subs[s][b].off = of_bits(int(a[3]))
        elif a[0] == "u":
            s, b = int(a[1]), int(a[2])
            if 0 <= s < ns and 0 <= b < per and m.subs[s][b] is not None:
                sb = m.subs[s][b]
                sb.egain, sb.eoff, sb.epoch = sb.gain, sb.off, sb.epoch + 1
        elif a[0] == "v":
            emit(int(a[1]), of_bits(int(a[2])))
        elif a[0] == "w":
            if 0 <= int(a[2]) < per:
                emit(int(a[1]), of_bits(int(a[3])), int(a[2]))
        elif a[0] == "m":
            ret, driven = m.midi(int(a[1]), int(a[2]), int(a[3]))
            for i, v in driven:
                emit(i, v)
        if em:
            m.feat.add("emission")
        out.append((ret, [(m.subs[s][j].snap(), v) for s, j, v in em], m.state()))
    return out, m.feat

TOL = 1e-5

def lin32(v, a, b):
    """float v*(b-a)+a as C evaluates it on floats (three roundings)"""
    return f32(f32(v * f32(b - a)) + a)

def clamp32(x, mn, mx):
    return mx if x > mx else (mn if not (x >= mn) else x)

def roundf(x):
    return math.floor(x + 0.5) if x >= 0 else -math.floor(-x + 0.5)

def default_points(lo, hi):
    """the control points updateMapping computes at gain 100 / offset 0 (float/double mix of
    automations.cpp:111-129, written from the source, not from the Coq model); used ONLY by
    the classifier of the finding class default-points-inexact"""
    center = f32(float(f32(lo + hi)) * (0.5 + 0.0 / 100.0))
    rng_ = f32(float(f32(f32(hi - lo) * 100.0)) / 100.0)
    return f32(center - rng_ / 2.0), f32(center + rng_ / 2.0)

def default_points_exact(lo, hi):
    """= the side condition of C19_default_linear_partial (decidable)"""
    a, b = default_points(lo, hi)
    return bits_of(a) == bits_of(lo) and bits_of(b) == bits_of(hi)

def check_value(sb, v, ty, bits, seen_all):
    """the clauses about one emitted value; returns failure text or None"""
    if sb.ty == "T":
        # default linear map of 0..1 onto 0..1 (exact: v*1+0), true above one half
        if v is not None and sb.egain == 100.0 and sb.eoff == 0.0 and v == v:
            if (ty == "T") != (v > 0.5):
                return "toggle: slot value %r gives %s" % (v, ty)
        return None
    lo, hi = sb.mn, sb.mx
    if sb.ty == "i":
        out = bits - (1 << 32) if bits >= (1 << 31) else bits
    else:
        out = of_bits(bits)
        if out != out:
            return "in-range: NaN emitted"
    # log scale: [min*(1-eps), max*(1+eps)] as in C19_log_in_range
    if not ((lo * (1 - TOL) <= out <= hi * (1 + TOL)) if sb.log else (lo <= out <= hi)):
        return "in-range: value %r outside the declared [%r, %r]" % (out, lo, hi)
    if v is None:
        return None
    if lo <= hi and v == v:
        # monotone for positive gain.  Infinite slot values are judged too ("values in and
        # outside [0,1]"): an infinite slot value times a zero range is NaN, which the clamp
        # sends to the minimum - finding class infinite-slot-value (C19_monotone_infinite_refuted)
        seen = seen_all.setdefault(sb.key, [])
        if sb.egain > 0:
            for v0, o0 in seen:
                s0 = TOL * max(abs(o0), abs(out)) if sb.log else 0.0
                if (v0 <= v and o0 > out + s0) or (v0 >= v and o0 + s0 < out):
                    return "monotone: slot value %r -> %r but %r -> %r (gain %r, declared minimum %r)" % (v0, o0, v, out, sb.egain, lo)
        seen.append((v, out))
        if len(seen) > 12:
            seen.pop(0)
        # default gain and offset: 0..1 maps linearly onto min..max
        if sb.egain == 100.0 and sb.eoff == 0.0 and 0.0 <= v <= 1.0:
            if sb.log:
                exp = math.exp(math.log(lo) + v * (math.log(hi) - math.log(lo)))
                if abs(out - exp) > TOL * abs(exp):
                    return "default-linear(log): slot value %r gives %r, expected %r" % (v, out, exp)
            else:
                # "linear-scale parameters exactly": the float evaluation of v*(max-min)+min,
                # clamped; no tolerance.  Ranges whose default control points are not exactly
                # the bounds miss it by a few ulp: finding class default-points-inexact
                exp = clamp32(lin32(v, lo, hi), lo, hi)
                if sb.ty == "i":
                    exp = roundf(exp)
                if out != exp:
                    return "default-linear: slot value %r gives %r, expected %r" % (v, out, exp)
    return None

FIELD = re.compile(r"^(?:r=(\d+) )?e=(\S*) (q=-?\d+ s=\S+)(?: M=\S*)?$")

def spec_check(case, impl):
    if impl.startswith("CRASH") or impl == "NOOUT":
        return "crash: " + impl[:300]
    if case.startswith("orc "):
        return orc_check(case, impl)
    exp, feat = predict(case)
    got = impl.split("|")
    if len(got) != len(exp):
        return "shape: %d fields for %d operations" % (len(got), len(exp))
    seen_all = {}
    soft = None
    for i, ((ret, em, state), g) in enumerate(zip(exp, got)):
        mt = FIELD.match(g)
        if not mt:
            return "shape: operation %d: unparsable field %s" % (i, g[:200])
        gret, gem, gstate = mt.group(1), mt.group(2), mt.group(3)
        if (ret is None) != (gret is None) or (ret is not None and int(gret) != ret):
            return "midi-return: operation %d returns %s, expected %s" % (i, gret, ret)
        if gstate != state:
            return "learn-order: operation %d: implementation %s, the statement requires %s" % (i, gstate, state)
        gms = [x.split("/") for x in gem.split(";")] if gem else []
        # a message is "/name/type/bits"
        if len(gms) != len(em):
            return ("drives-own-slot: operation %d emits %d messages (%s), expected %d (%s)"
                    % (i, len(gms), gem[:200], len(em), ",".join(sb.name for sb, _ in em)))
        for gm, (sb, v) in zip(gms, em):
            if len(gm) != 4 or gm[0] != "":
                return "shape: operation %d: message %r" % (i, gm)
            name, ty, bits = gm[1], gm[2], gm[3]
            if name != sb.name:
                return "address: operation %d: message to /%s, bound parameter is /%s" % (i, name, sb.name)
            okty = ty in ("T", "F") if sb.ty == "T" else ty == sb.ty
            if not okty:
                return "type: operation %d: /%s gets type %s, parameter type is %s" % (i, name, ty, sb.ty)
            fail = check_value(sb, v, ty, int(bits) if bits else 0, seen_all)
            if fail:
                fail = "%s (operation %d, /%s)" % (fail, i, name)
                # a failure that falls into a finding class does not end the evaluation:
                # everything after it is still judged, it is reported only if nothing else fails
                if classify(case, impl, fail) is None:
                    return fail
                soft = soft or fail
    return soft

def nontrivial(case, impl):
    if case.startswith("orc "):
        return True
    feat = predict(case)[1]
    return bool(feat & {"learn-served", "bound-drive", "emission"})

LOGMSG = re.compile(r"(/lg\w*/f/)\d+")
LOGMAP = re.compile(r"1/f/\d+/\d+/1/(\d+)/(\d+)/\d+/\d+")

MAPDUMP = re.compile(r"1/([ifT])/(\d+)/(\d+)/(\d)/(\d+)/(\d+)/(\d+)/(\d+)")

def _nan(m):
    f = [m.group(i) for i in range(2, 9)]
    def n(x):
        b = int(x)
        return "NaN" if (b & 0x7f800000) == 0x7f800000 and (b & 0x7fffff) else x
    return "1/%s/%s/%s/%s/%s/%s/%s/%s" % (m.group(1), n(f[0]), n(f[1]), f[2], n(f[3]), n(f[4]), n(f[5]), n(f[6]))

def canon(case, line):
    """NaN control points: sign/payload of a generated NaN is hardware-specific, compared as 'NaN';
    log-scale values depend on libm's logf/expf: masked (checked numerically by spec_check)"""
    if case.startswith("orc "):
        return "ORACLE"
    if "M=" in line:
        line = MAPDUMP.sub(_nan, line)
    if "/lg" not in line and ":l" not in case:
        return line
    line = LOGMSG.sub(r"\1~", line)
    return re.sub(r"1/f/[\dNa]+/[\dNa]+/1/([\dNa]+)/([\dNa]+)/[\dNa]+/[\dNa]+", r"1/f/~/~/1/\1/\2/~/~", line)

DL = re.compile(r"^default-linear: slot value (\S+) gives (\S+), expected \S+ \(operation \d+, /(\w+)\)$")
MONO = re.compile(r"^monotone: slot value (\S+) -> (\S+) but (\S+) -> (\S+) \(gain \S+ declared minimum (\S+)\)( \(operation \d+, /\w+\))?$")

def classify(case, impl, failure):
    """default-points-inexact: the default linear map is missed on a linear parameter whose
    default control points (updateMapping at gain 100 / offset 0) are not bit-exactly its
    declared bounds (= not default_points_exact, the side condition of
    C19_default_linear_partial) AND the emitted value is exactly what the mapping through
    those control points gives - any other deviation stays a violation.
    infinite-slot-value: the monotonicity clause fails and one of the two slot values is
    infinite (= the negation of the hypothesis 'finite32 v' of C19_monotone_partial)."""
    m = DL.match(failure)
    if m:
        try:
            v, out, name = float(m.group(1)), float(m.group(2)), m.group(3)
            ty, mn, mx, flags = parse(case)[2][name]
            if ty not in "if" or "l" in flags:
                return None
            lo, hi = f32(float(mn)), f32(float(mx))
        except (KeyError, ValueError):
            return None
        if default_points_exact(lo, hi):
            return None
        a, b = default_points(lo, hi)
        exp = clamp32(lin32(v, a, b), lo, hi)
        if ty == "i":
            exp = roundf(exp)
        return "default-points-inexact" if out == exp else None
    m = MONO.match(failure)
    if m:
        try:
            v0, o0, v, o, lo = (float(m.group(i)) for i in range(1, 6))
        except ValueError:
            return None
        # the signature of the finding: what was emitted FOR the infinite slot value is the declared
        # minimum (NaN through the clamp); an infinite slot value with any other output is not the class
        if math.isinf(v0) and o0 == lo:
            return "infinite-slot-value"
        if math.isinf(v) and o == lo:
            return "infinite-slot-value"
        return None
    return None

def minimise(case, impl, failure, run):
    if case.startswith("orc "):
        return case, impl, failure
    f = case.split(" ")
    ops = f[5].split(",")
    key = failure.split(":")[0]
    def bad(o):
        c = " ".join(f[:5] + [",".join(o)])
        io = run([c])[0]
        sf = spec_check(c, io)
        return (c, io, sf) if sf and sf.split(":")[0] == key else None
    best = (case, impl, failure)
    changed = True
    while changed and len(ops) > 1:
        changed = False
        for i in range(len(ops) - 1, -1, -1):
            o2 = ops[:i] + ops[i + 1:]
            r = bad(o2)
            if r:
                ops, best, changed = o2, r, True
                break
    return best

TECHNIQUE = ("Coq proofs: refinement of the learn bookkeeping (per-slot integers) to a FIFO queue over all operation "
             "histories, uniqueness of bindings, clamp/rounding facts of the output mapping on Flocq's IEEE-754 model "
             "+ differential correspondence (bit-exact for linear parameters) against the real AutomationMgr under ASan")
LEVEL_TEXT = ("For every history of ALL operations of the full model m_run (the function the correspondence run executes) "
              "the learning/midi_cc/midi_nrpn integers are the image of a FIFO queue of requesting slots run on the "
              "projected history (C19_history_projection, C19_learn_fifo, C19_queue_inv, C19_midi_drives), bound "
              "controllers are unique and drive exactly their slot (C19_bound_drives_own); every emitted message has the "
              "address and type of a parameter that a createBinding of the history accepted and a value inside that "
              "parameter's DECLARED range - linear float by the clamp, log scale within eps under the libm hypotheses, int "
              "for ordered integral bounds, toggles booleans; the undefined int conversion only without such bounds "
              "(C19_in_range_history, invariant sub_decl: gain/offset/updateMapping never change min/max/scale); "
              "monotone for finite slot values (C19_monotone_partial, refuted for infinite ones: finding "
              "infinite-slot-value); default linear map exact when the default control points are the bounds "
              "(C19_default_linear_partial, C19_default_points_exact[_int]), refuted otherwise (finding "
              "default-points-inexact).  The model is tied to the code on every run.")
LEVEL_NOTE = ("Trusted: Coq kernel, Flocq 4.1 (its IEEE-754 formalisation and, for the float theorems, the standard "
              "library's real-number axioms), extraction, OCaml driver (atof/logf/expf oracles), harness, generator, Python "
              "reference machine.  The C++ code is modelled by hand and related to the model only by the correspondence run. "
              "The model follows the code after the D17 and D18 repairs.")
