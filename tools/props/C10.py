"""C10 plug-in: pretty-printing is reversible (print -> check -> scan gives the values back).

Case lines (see harness/h_C10.cpp):
  pp <linelength> <prec> <compress> <lossless> <vals>            model + implementation
  pm <linelength> <prec> <compress> <lossless> <vals> <address>  whole message, model + implementation
  xp / xm ...                                                     implementation only (Spec oracle):
                                                                  lists with time tags
The Spec oracle below is the round trip itself evaluated on the implementation's
output; it never looks at the Coq model.
"""
import struct

HARNESS = ["h_C10.cpp"]
VARIANT = "asan"
TIMEOUT = 1500

RULE = ("argument lists of 0..12 values, per type and mixed: int32/int64 over the full range with "
        "boundary values, chars over printable ASCII and the C escapes, true/false/nil/inf, strings "
        "and symbols over printable ASCII + escapes (identifier-shaped, reserved words, long ones "
        "that need line breaks), blobs 0..40 bytes, MIDI, colours, finite floats and doubles "
        "(lossless mode; random bit patterns, powers of two, subnormals, decimal fractions); "
        "line length 10..120, precision 0..9.  Non-trivial = at least 2 values and (a "
        "line break in the text, an escape, a negative number or a float).")
TRUSTED = ["harness/h_C10.cpp (builds the rtosc_arg_val_t array, calls rtosc_print_arg_vals, "
           "rtosc_count_printed_arg_vals, rtosc_scan_arg_vals, rtosc_arg_vals_eq)",
           "the OCaml driver's libc-backed oracle for the value of a *decimal* floating point literal "
           "(dead in lossless mode: the value is overwritten by the exact one)"]
ASSUMPTIONS = ["TZ=UTC (the harness sets it); glibc printf/sscanf (its %a prints the shortest exact hex form); "
               "localtime()/mktime() of libc = TimeFmt.date_of_secs/secs_of_date (compared on every run: stream cal and "
               "every printed/scanned time tag)",
               "time tags: seconds 0 .. 2^32-1, fraction 0 or with at most 24 significant bits (the float it is printed through); "
               "other fractions are rounded by the code (observation O1 in notes/C10.md)",
               "floats and doubles finite; chars and string bytes in 1..126; print options within the "
               "quantifier (line length 10..120, precision 0..9)"]

PRINTABLE = [c for c in range(32, 127)]
ESCAPES = [7, 8, 9, 10, 11, 12, 13, 92]
RESERVED = ["true", "false", "nil", "inf", "now", "immediately", "MIDI", "BLOB"]

def hx(b):
    return bytes(b).hex() if len(b) else "-"

def g_int(rng, bits):
    lo, hi = -(1 << (bits - 1)), (1 << (bits - 1)) - 1
    r = rng.random()
    if r < 0.25:
        return rng.choice([0, 1, -1, lo, hi, lo + 1, hi - 1, 9, 10, 99, 100, 999, 1000, -10, -20, -100, -999, 1234, -1234])
    if r < 0.6:
        return rng.randint(-2000, 2000)
    k = rng.randint(1, bits - 1)
    return rng.randint(-(1 << k), (1 << k) - 1)

def g_str(rng, ident=False):
    r = rng.random()
    if ident:
        if r < 0.15:
            return rng.choice(RESERVED).encode()
        if r < 0.25:
            return (rng.choice(RESERVED) + rng.choice(["", "x", "_", "1"])).encode()
        n = rng.choice([1, 1, 2, 3, 5, 8, 20])
        first = rng.choice("abcxyzABCtfniMB_")
        return (first + "".join(rng.choice("abcxyz_019ABCtrue") for _ in range(n - 1))).encode()
    n = rng.choice([0, 1, 2, 3, 5, 8, 13, 30, 60, 100])
    out = []
    for _ in range(n):
        q = rng.random()
        if q < 0.1:
            out.append(rng.choice(ESCAPES))
        elif q < 0.2:
            out.append(rng.choice([34, 39, 92, 37, 32, 46, 91, 93, 40, 41]))
        else:
            out.append(rng.choice(PRINTABLE))
    return bytes(out)

def g_f32(rng):
    r = rng.random()
    if r < 0.2:
        v = rng.choice([0.0, -0.0, 1.0, -1.0, 0.5, 0.1, -0.1, 0.25, 12.5, 100.0, 1e-3, 3.4028234e38, 1.17549435e-38, 1e-45, 0.333, 1e10])
        return struct.unpack("<I", struct.pack("<f", v))[0]
    if r < 0.5:
        v = rng.randint(-100000, 100000) / rng.choice([1, 2, 4, 10, 100, 1000])
        return struct.unpack("<I", struct.pack("<f", v))[0]
    while True:
        b = rng.getrandbits(32)
        if (b >> 23) & 0xff != 0xff:
            return b

def g_f64(rng):
    r = rng.random()
    if r < 0.2:
        v = rng.choice([0.0, -0.0, 1.0, -1.0, 0.5, 0.1, -0.1, 0.25, 12.5, 1e-3, 1.7976931348623157e308, 2.2250738585072014e-308, 5e-324, 0.333, 1e10, 1234567890.0987])
        return struct.unpack("<Q", struct.pack("<d", v))[0]
    if r < 0.5:
        v = rng.randint(-100000, 100000) / rng.choice([1, 2, 4, 10, 100, 1000])
        return struct.unpack("<Q", struct.pack("<d", v))[0]
    while True:
        b = rng.getrandbits(64)
        if (b >> 52) & 0x7ff != 0x7ff:
            return b

SCALAR_KINDS = "ihcTFNIsSbmrfd"

def g_scalar(rng, k):
    if k == "i":
        return "i:%d" % g_int(rng, 32)
    if k == "h":
        return "h:%d" % g_int(rng, 64)
    if k == "c":
        return "c:%d" % (rng.choice(ESCAPES + [39, 34, 32, 0, 0]) if rng.random() < 0.3 else rng.choice(PRINTABLE))
    if k in "TFNI":
        return k
    if k == "s":
        return "s:" + hx(g_str(rng))
    if k == "S":
        return "S:" + hx(g_str(rng, ident=rng.random() < 0.7))
    if k == "b":
        n = rng.choice([0, 1, 2, 3, 8, 16, 25, 40])
        return "b:" + hx(bytes(rng.getrandbits(8) for _ in range(n)))
    if k == "m":
        return "m:" + bytes(rng.getrandbits(8) for _ in range(4)).hex()
    if k == "r":
        return "r:%08x" % rng.getrandbits(32)
    if k == "f":
        return "f:%08x" % g_f32(rng)
    if k == "d":
        return "d:%016x" % g_f64(rng)
    raise ValueError(k)

def g_time(rng):
    r = rng.random()
    if r < 0.15:
        return "t:%016x" % 1
    secs = rng.choice([0, 86400, 1479325446, 1500000000, 4294967295, rng.getrandbits(32),
                       rng.randint(0, 4000000) * 60, rng.randint(0, 40000) * 86400])
    frac = 0
    if rng.random() < 0.5:
        m = rng.getrandbits(rng.choice([1, 3, 8, 24]))
        if m:
            frac = m << rng.randint(0, 32 - m.bit_length())
    t = (secs << 32) | frac
    if t == 1:
        t = 0
    return "t:%016x" % t

RUN_KINDS = "ihcTFsSfdrm"

def g_run(rng, k, n):
    """n slots of one type: constant or arithmetic"""
    if k in "ih" and rng.random() < 0.6:
        bits = 32 if k == "i" else 64
        if rng.random() < 0.25:
            # near the ends of the type, large steps: runs that would wrap or overflow the span
            hi = (1 << (bits - 1)) - 1
            start = rng.choice([hi - rng.randint(0, 6), -hi - 1 + rng.randint(0, 6), -hi - 1, rng.randint(-hi, hi)])
            step = rng.choice([1, -1, 1 << (bits - 3), -(1 << (bits - 3)), 1 << (bits - 2), rng.randint(-hi, hi) | 1])
            wrapv = lambda v: (v + (1 << (bits - 1))) % (1 << bits) - (1 << (bits - 1))
            return ["%s:%d" % (k, wrapv(start + j * step)) for j in range(n)]
        start = rng.randint(-1000, 1000)
        step = rng.choice([1, -1, 2, -2, 3, 10, -7, 100])
        return ["%s:%d" % (k, start + j * step) for j in range(n)]
    if k == "c" and rng.random() < 0.6:
        start = rng.randint(48, 100)
        step = rng.choice([1, -1, 2])
        return ["c:%d" % (start + j * step) for j in range(n)]
    if k in "TF" and rng.random() < 0.5:
        # alternating booleans: the step of an alternation is 'true' (T - F = F - T = T, T + T = F);
        # the printer's range_step_fits stops such a run after two values - never compressed
        first = rng.random() < 0.5
        return ["T" if (j % 2 == 0) == first else "F" for j in range(n)]
    if k in "fd" and rng.random() < 0.5:
        # arithmetic runs of floats / doubles with exactly representable values and steps (floats are
        # not range-convertible for the printer: printed value by value)
        start = rng.choice([0.5, 1.5, -2.0, 8.0, 0.25, -7.75, 100.0, 0.0])
        step = rng.choice([0.5, 1.0, -0.25, 2.0, -1.5, 0.125, 1.0, -1.0])
        if k == "f":
            return ["f:%08x" % struct.unpack("<I", struct.pack("<f", start + j * step))[0] for j in range(n)]
        return ["d:%016x" % struct.unpack("<Q", struct.pack("<d", start + j * step))[0] for j in range(n)]
    v = g_scalar(rng, k)
    return [v] * n

def g_elems(rng, k, n):
    """n array elements of type k (T and F may mix), with runs"""
    out = []
    while len(out) < n:
        left = n - len(out)
        if rng.random() < 0.4:
            m = min(left, rng.choice([2, 3, 4, 5, 5, 6, 7, 8]))
            out += g_run(rng, k, m)
        else:
            kk = rng.choice("TF") if k in "TF" else k
            out.append(g_scalar(rng, kk))
    return out

def g_array(rng):
    k = rng.choice("ihcTFsSfdrmb")
    n = rng.randint(0, 8)
    el = g_elems(rng, k, n)
    ty = ord(el[-1][0]) if el else 32
    return ["a:%d:%d" % (ty, len(el))] + el

def g_nested(rng):
    """an array of arrays, possibly ending in >= 5 equal arrays (printed as a repetition of arrays)"""
    out = []
    for _ in range(rng.randint(0, 3)):
        out += g_array_flat(rng)
    if rng.random() < 0.6:
        a = g_array_flat(rng)
        out += a * rng.choice([5, 5, 6])
    return ["a:97:%d" % len(out)] + out if out else ["a:32:0"]

def g_array_flat(rng):
    k = rng.choice("ihcsT")
    n = rng.randint(1, 3)
    el = [g_scalar(rng, rng.choice("TF") if k == "T" else k) for _ in range(n)]
    return ["a:%d:%d" % (ord(el[-1][0]), len(el))] + el

def g_run_at_end(rng):
    """a compressible run that ends exactly at the end of an array (followed by a value that
    would continue it) or exactly at the end of the list"""
    k = rng.choice("ihc")
    m = rng.choice([4, 5, 5, 6, 8])
    if rng.random() < 0.5:
        start, step = (rng.randint(48, 90), rng.choice([0, 1, 2])) if k == "c" else (rng.randint(-50, 50), rng.choice([0, 1, -1, 3]))
    else:
        start, step = (rng.randint(48, 90), 0) if k == "c" else (rng.randint(-50, 50), 0)
    run = ["%s:%d" % (k, start + j * step) for j in range(m)]
    nxt = "%s:%d" % (k, start + m * step)
    q = rng.random()
    pre = [g_scalar(rng, rng.choice("TNsr"))] if rng.random() < 0.4 else []
    if q < 0.6:
        follow = [nxt] if rng.random() < 0.8 else [g_scalar(rng, k)]
        more = [g_scalar(rng, rng.choice("iTN"))] if rng.random() < 0.3 else []
        return pre + ["a:%d:%d" % (ord(k), m)] + run + follow + more
    return pre + run          # the run ends the list

def g_range_after_array(rng):
    """D32 (fixed): an array that holds a run and ends in a value x, followed by a unit-step run
    that starts at x (the printer elides the run's second value; the checker used to find the
    ellipsis inside the array)"""
    k = rng.choice("ih")
    a = rng.randint(-40, 40); m = rng.randint(5, 7)
    x = a + m + rng.randint(2, 9)
    d = rng.choice([1, -1])
    arr = ["%s:%d" % (k, a + j) for j in range(m)] + ["%s:%d" % (k, x)]
    run = ["%s:%d" % (k, x + d * j) for j in range(rng.randint(5, 7))]
    return ["a:%d:%d" % (ord(k), len(arr))] + arr + run

def g_mixed(rng):
    """arrays among other values (C10_roundtrip_any_partial): plain arrays, five or more equal arrays in a row
    (printed "Nx[...]", also "Nx[]"), and a run directly after an array whose last element is the run's
    first value / another value of the run's type / a value of another type / missing (empty array)"""
    out = []
    for _ in range(rng.randint(1, 4)):
        q = rng.random()
        if q < 0.3:
            a = g_array(rng) if rng.random() < 0.8 else ["a:32:0"]
            out += a * rng.choice([1, 2, 4, 5, 5, 6, 7])
        elif q < 0.75:
            k = rng.choice("ihc")
            lo, hi = (48, 100) if k == "c" else (-60, 60)
            b = rng.randint(lo, hi)
            d = rng.choice([1, -1, 1, 2, 0])
            run = ["%s:%d" % (k, b + j * d) for j in range(rng.choice([4, 5, 6, 7]))]
            r = rng.random()
            if r < 0.35:
                last = ["%s:%d" % (k, b)]                       # equals the run's first value
            elif r < 0.6:
                # same type, another value - and not the one the run would continue from (b - d): the
                # printer must write the run's second value, "a b ... c" read with the step b - a is another run
                last = ["%s:%d" % (k, b + rng.choice([3, 5, -4, 7]))]
            elif r < 0.8:
                k2 = rng.choice([x for x in "ihcT" if x != k])
                last = [g_scalar(rng, k2)]
            else:
                last = []
            pre = []
            if last and rng.random() < 0.6:
                k0 = last[0][0]
                if k0 in "ihc":
                    pre = g_run(rng, k0, rng.choice([1, 2, 5, 6]))
                    pre = [v for v in pre if v[0] == k0]
            arr = pre + last
            if arr and rng.random() < 0.35:
                out += arr + run                 # the same at top level: the value before the run is no array element
            else:
                hdr = ["a:%d:%d" % (ord(arr[-1][0]) if arr else 32, len(arr))]
                out += hdr + arr + run
        else:
            out.append(g_scalar(rng, rng.choice("ihcTNsf")))
    # (a string holding "..." is replaced, not dropped: dropping an array element left the array header
    # with a count larger than the array - an ill-formed list whose printed text the checker rejects)
    return [("s:6162" if "2e2e2e" in v else v) for v in out]

def gen_struct(rng, tier, dist, n):
    """lists with runs around the compression threshold, arrays, time tags, whole messages"""
    out = []
    def bump(k):
        dist[k] = dist.get(k, 0) + 1
    for _ in range(n):
        ll = rng.choice([10, 20, 40, 80, 80, 120, rng.randint(10, 120)])
        prec = rng.choice([0, 1, 2, 2, 3, 6, 9])
        compress = rng.choice([0, 1, 1])
        vals = []
        kind = rng.random()
        parts = rng.choice([1, 1, 2, 3, 4])
        if rng.random() < 0.12:
            vals = g_run_at_end(rng); parts = 0; compress = 1; bump("run-at-end")
        elif rng.random() < 0.01:
            vals = g_range_after_array(rng); parts = 0; compress = 1; bump("run-after-array-with-run")
        elif rng.random() < 0.08:
            vals = g_mixed(rng); parts = rng.choice([0, 0, 1]); compress = rng.choice([1, 1, 1, 0]); bump("arrays-among-values")
        for _p in range(parts):
            q = rng.random()
            if q < 0.35:
                k = rng.choice(RUN_KINDS)
                m = rng.choice([2, 3, 4, 5, 5, 6, 7, 9, 12])
                vals += g_run(rng, k, m); bump("run:%s" % k); bump("runlen=%d" % m)
            elif q < 0.52:
                vals += g_array(rng); bump("array")
            elif q < 0.6:
                vals += g_nested(rng); bump("nested-array")
            elif q < 0.75:
                vals.append(g_time(rng)); bump("timetag")
            else:
                vals.append(g_scalar(rng, rng.choice(SCALAR_KINDS))); bump("scalar")
        if compress:
            # a run that mixes 0.0 and -0.0 is compressed to its first element (class signed-zero-run,
            # see notes/C10.md): not generated.  A list with only one of the two zeroes of a type is
            # inside the theorems (nozmix) and stays as it is - in particular lone -0.0 values.
            if "f:00000000" in vals and "f:80000000" in vals:
                z = rng.choice(["f:00000000", "f:80000000"])
                vals = [(z if v in ("f:00000000", "f:80000000") else v) for v in vals]
            if "d:0000000000000000" in vals and "d:8000000000000000" in vals:
                z = rng.choice(["d:0000000000000000", "d:8000000000000000"])
                vals = [(z if v in ("d:0000000000000000", "d:8000000000000000") else v) for v in vals]
            if any(v in ("f:80000000", "d:8000000000000000") for v in vals):
                bump("negative-zero-with-compression")
        bump("compress=%d" % compress)
        if rng.random() < 0.01:
            vals = []; bump("empty-message-or-list")
        if rng.random() < 0.25:
            addr = "/" + "/".join("".join(rng.choice("abcxyz019_#*?") for _ in range(rng.randint(1, 6)))
                                  for _ in range(rng.randint(1, 3)))
            bump("message")
            kind = "pm"
            out.append("%s %d %d %d 1 %s %s" % (kind, ll, prec, compress, ";".join(vals) if vals else "-", addr.encode().hex()))
        else:
            kind = "pp"
            bump("stream:" + kind)
            out.append("%s %d %d %d 1 %s" % (kind, ll, prec, compress, ";".join(vals) if vals else "-"))
    return out

# lengths of constant runs: every digit pattern of the "<n>x" the printer writes (a zero digit inside:
# 10 20 30 100 101 105 110), the threshold region 5..9, and 11 12 99 112
RUN_LENGTHS = [10, 20, 30, 100, 101, 105, 110, 5, 6, 7, 8, 9, 11, 12, 99, 112]

def gen_runlengths(rng, dist, rounds):
    """constant runs of every length of RUN_LENGTHS - at top level, inside an array and in a message -
    in EVERY run (not left to chance)"""
    out = []
    for _ in range(rounds):
        for m in RUN_LENGTHS:
            for place in ("top", "array", "message"):
                k = rng.choice("ihcTFNIsSfdrm")
                v = g_scalar(rng, k)
                if v in ("f:80000000", "d:8000000000000000") or (k in "sS" and "2e2e2e" in v):
                    v = "i:64"
                run = [v] * m
                pre = [g_scalar(rng, rng.choice("iTNs"))] if rng.random() < 0.5 else []
                post = [g_scalar(rng, rng.choice("ihTN"))] if rng.random() < 0.5 else []
                pre = [x for x in pre if x != v and "2e2e2e" not in x]
                post = [x for x in post if x != v]
                ll = rng.choice([20, 40, 80, 120])
                prec = rng.choice([0, 2, 6])
                dist["runlength-%s" % place] = dist.get("runlength-%s" % place, 0) + 1
                if place == "array":
                    if k in "NI":
                        run = ["i:7"] * m
                    vals = pre + ["a:%d:%d" % (ord(run[0][0]), m)] + run + post
                    out.append("pp %d %d 1 1 %s" % (ll, prec, ";".join(vals)))
                elif place == "message":
                    out.append("pm %d %d 1 1 %s %s" % (ll, prec, ";".join(pre + run + post), b"/part0/kit".hex()))
                else:
                    out.append("pp %d %d 1 1 %s" % (ll, prec, ";".join(pre + run + post)))
    return out

def gen_adjacent_runs(rng, dist, rounds):
    """two arithmetic runs back to back, the second starting with the value the first ended on, with
    its successor, or elsewhere - at the very start of a list, array or message and behind a value"""
    out = []
    for _ in range(rounds):
        for k in "ihc":
            for d in (1, -1, 2):
                for link in ("same", "next", "other"):
                    a = rng.randint(60, 80) if k == "c" else rng.randint(-50, 50)
                    n1, n2 = rng.choice([5, 6, 9]), rng.choice([5, 7])
                    r1 = [a + j * d for j in range(n1)]
                    b = {"same": r1[-1], "next": r1[-1] + d, "other": r1[-1] + 17}[link]
                    d2 = rng.choice([d, -d])
                    r2 = [b + j * d2 for j in range(n2)]
                    vals = ["%s:%d" % (k, v) for v in r1 + r2]
                    pre = [g_scalar(rng, rng.choice("TNs"))] if rng.random() < 0.3 else []
                    pre = [x for x in pre if "2e2e2e" not in x]
                    ll = rng.choice([40, 80, 120])
                    place = rng.choice(["top", "array", "message"])
                    dist["adjacent-runs-%s" % link] = dist.get("adjacent-runs-%s" % link, 0) + 1
                    if place == "array":
                        out.append("pp %d 2 1 1 %s" % (ll, ";".join(pre + ["a:%d:%d" % (ord(k), len(vals))] + vals)))
                    elif place == "message":
                        out.append("pm %d 2 1 1 %s %s" % (ll, ";".join(pre + vals), b"/part0/kit".hex()))
                    else:
                        out.append("pp %d 2 1 1 %s" % (ll, ";".join(pre + vals)))
    return out

def gen_ellipsis_strings(rng, dist, rounds):
    """strings and symbols that hold "..." in places OUTSIDE the finding ellipsis-in-string-before-range
    (which needs such a string directly before a compressed i/h/c run): before booleans, before a
    constant run of strings, inside an array, two values before an integer run, behind a run, alone"""
    out = []
    def es():
        body = rng.choice([b"...", b"a...b", b"x ... y", b"....", b"... ", b"1 ... 5", b"..a...", b"\"..."])
        return ("s:" if rng.random() < 0.7 else "S:") + body.hex()
    for _ in range(rounds):
        irun = ["i:%d" % (3 + j) for j in range(6)]
        shapes = {
            "alone": [es()],
            "before-bool": [es(), "T", "F", "N"],
            "before-const-strings": [es()] + ["s:6162"] * 6,
            "run-of-them": [es()] * 1 + ["T"] * 6,
            "in-array": ["a:115:3", "s:61", es().replace("S:", "s:"), "s:62"],
            "two-before-run": [es(), "T"] + irun,
            "behind-run": irun + [es()],
            "behind-run-then-run": irun + [es(), "N"] + ["h:%d" % (10 - j) for j in range(5)],
        }
        for name, vals in shapes.items():
            ll = rng.choice([20, 40, 80])
            dist["ellipsis-string-%s" % name] = dist.get("ellipsis-string-%s" % name, 0) + 1
            if rng.random() < 0.3:
                out.append("pm %d 2 1 1 %s %s" % (ll, ";".join(vals), b"/a...7".hex()))
            else:
                out.append("pp %d 2 1 1 %s" % (ll, ";".join(vals)))
    return out

def gen_calendar(rng, dist, n):
    """the calendar oracle pair (TimeFmt.date_of_secs / secs_of_date = localtime / mktime of libc, TZ=UTC):
    boundaries of days, months, leap years (2000 is one, 2100 is not), 2^31, 2^32 - 1, random seconds"""
    fixed = [0, 1, 59, 60, 3599, 3600, 86399, 86400, 86401,
             951782400 - 1, 951782400, 951868800, 951868800 + 86400,       # 2000-02-28/29, 03-01
             1078012800, 1078099200,                                        # 2004-02-29, 03-01
             4107456000, 4107542400 - 1, 4107542400,                        # 2100-02-28, 03-01 (no leap day)
             2147483647, 2147483648, 4294967295, 1479325446, 1500000000,
             978307199, 978307200, 1230767999, 1230768000]
    out = ["cal %d" % s for s in fixed]
    for _ in range(n):
        q = rng.random()
        if q < 0.3:
            out.append("cal %d" % (rng.randint(0, 49710) * 86400 + rng.choice([0, 1, 86399])))
        else:
            out.append("cal %d" % rng.getrandbits(32))
    dist["calendar"] = dist.get("calendar", 0) + len(out)
    return out

def gen(rng, tier, dist):
    return (gen_calendar(rng, dist, 150 if tier == "quick" else 20000)
            + gen_runlengths(rng, dist, 1 if tier == "quick" else 20)
            + gen_adjacent_runs(rng, dist, 2 if tier == "quick" else 40)
            + gen_ellipsis_strings(rng, dist, 3 if tier == "quick" else 60) + gen_scalar(rng, tier, dist)
            + gen_struct(rng, tier, dist, 2500 if tier == "quick" else 120000))

def gen_scalar(rng, tier, dist):
    n = 3000 if tier == "quick" else 150000
    out = []
    def bump(k):
        dist[k] = dist.get(k, 0) + 1
    for _ in range(n):
        ll = rng.choice([10, 11, 20, 40, 80, 80, 120, rng.randint(10, 120)])
        prec = rng.choice([0, 1, 2, 2, 3, 6, 9, rng.randint(0, 9)])
        compress = 0
        nv = rng.choice([0, 1, 1, 2, 2, 3, 4, 6, 8, 12])
        mode = rng.random()
        if mode < 0.4:
            k = rng.choice(SCALAR_KINDS)
            vals = [g_scalar(rng, k) for _ in range(nv)]
            bump("per-type:" + k)
        else:
            vals = [g_scalar(rng, rng.choice(SCALAR_KINDS)) for _ in range(nv)]
            bump("mixed")
        bump("n=%d" % nv)
        bump("linelength<=20" if ll <= 20 else "linelength>20")
        out.append("pp %d %d %d 1 %s" % (ll, prec, compress, ";".join(vals) if vals else "-"))
    return out

# ---------------------------------------------------------------------------
def fields(line):
    d = {}
    for tok in line.split(" "):
        if "=" in tok:
            k, v = tok.split("=", 1)
            d[k] = v
    return d

def canon(case, line):
    if case.startswith("x"):
        return "SKIP"
    if case.startswith("cal "):
        return line
    # the model does not compute rtosc_arg_vals_eq
    return " ".join(t for t in line.split(" ") if not t.startswith("EQ="))

def _wrap(v, bits):
    m = 1 << bits
    v %= m
    return v - m if v >= m >> 1 else v

def _item(toks, pos):
    """one element starting at toks[pos]: (expanded values, slots used)"""
    t = toks[pos]
    if t.startswith("a:"):
        ty, n = int(t.split(":")[1]), int(t.split(":")[2])
        vals, used = _items(toks, pos + 1, n)
        # the array's element type is part of the value (T and F are one type; an empty array has none)
        ty = 84 if ty == 70 else ty
        return [("a", ty if vals else 0, tuple(vals))], 1 + n
    if t.startswith("R:"):
        _, num, hd = t.split(":")
        num, hd = int(num), int(hd)
        if hd:
            delta, start = toks[pos + 1], toks[pos + 2]
            k = start[0]
            if k in "ich":
                bits = 64 if k == "h" else 32
                d, s0 = int(delta.split(":")[1]), int(start.split(":")[1])
                seq = ["%s:%d" % (k, _wrap(s0 + j * d, bits)) for j in range(num)]
            else:
                seq = [("unexpected-delta-range", delta, start, num)]
            if num == 0:
                seq = [("endless", delta, start)]
            return seq, 3
        sv, used = _item(toks, pos + 1)
        if num == 0:
            return [("endless", None, tuple(sv))], 1 + used
        return sv * num, 1 + used
    return [t], 1

def _items(toks, pos, nslots):
    out, used = [], 0
    while used < nslots:
        v, u = _item(toks, pos + used)
        out += v
        used += u
    return out, used

def expand(vals):
    """flat slot list (strings) -> plain values, ranges expanded, arrays nested"""
    try:
        return _items(vals, 0, len(vals))[0]
    except (IndexError, ValueError):
        return [("malformed", tuple(vals))]

def spec_check(case, impl):
    f = case.split(" ")
    if impl.startswith("CRASH") or impl == "NOOUT" or impl == "BADCASE":
        return "crash: the implementation did not answer (%s)" % impl[:200]
    d = fields(impl)
    if f[0] == "cal":
        # the hypothesis of C10_timetag_...: mktime(localtime(s)) = s, fields in their ranges
        y, mo, dd, h, mi, se = [int(x) for x in d["D"].split("-")]
        if int(d["S"]) != int(f[1]):
            return "calendar: mktime(localtime(%s)) = %s" % (f[1], d["S"])
        if not (1970 <= y <= 2106 and 1 <= mo <= 12 and 1 <= dd <= 31 and 0 <= h < 24 and 0 <= mi < 60 and 0 <= se < 60):
            return "calendar: localtime(%s) = %s" % (f[1], d["D"])
        return None
    vals = [] if f[5] == "-" else f[5].split(";")
    text = b"" if d["P"] == "-" else bytes.fromhex(d["P"])
    if int(d["W"]) != len(text):
        return "length: printer returned %s, the text has %d bytes" % (d["W"], len(text))
    if not vals:
        if int(d["C"]) != 0:
            return "count: empty list printed as %r counted as %s values" % (text, d["C"])
        if f[0] in ("pm", "xm"):
            # a message without arguments: "<address> "; the scanner reads the address and writes nothing
            if d.get("A") != f[6]:
                return "address: %r scanned back as %s" % (text, d.get("A"))
            if int(d["N"]) != 0:
                return "count: the scanner wrote %s values for the empty message %r" % (d["N"], text)
            if int(d["R"]) != len(text):
                return "consume: scanner read %s of %d bytes of %r" % (d["R"], len(text), text)
        return None
    c = int(d["C"])
    if c <= 0:
        return "check: the syntax checker rejects the printed text %r (count %d)" % (text, c)
    if f[0] in ("pm", "xm") and d.get("A") != f[6]:
        return "address: %r scanned back as %s" % (text, d.get("A"))
    if int(d["N"]) != c:
        return "count: checker says %d values, scanner wrote %s" % (c, d["N"])
    if int(d["R"]) != len(text):
        return "consume: scanner read %s of %d bytes of %r" % (d["R"], len(text), text)
    got = [] if d["V"] == "-" else d["V"].split(";")
    if expand(got) != expand(vals):
        return "values: %r scanned as %s, printed from %s" % (text, d["V"], f[5])
    if d.get("EQ") != "1":
        return "values: rtosc_arg_vals_eq says the scanned values differ (%r)" % text
    return None

def nontrivial(case, impl):
    f = case.split(" ")
    if f[0] == "cal":
        return False
    if f[5] == "-" or ";" not in f[5]:
        return False
    d = fields(impl)
    if "P" not in d or d["P"] == "-":
        return False
    text = bytes.fromhex(d["P"])
    return (b"\n" in text or b"\\" in text or b"-" in text or b"(" in text)

def _mask_zero(v):
    """the value with the sign of a floating-point zero dropped"""
    if isinstance(v, tuple):
        return tuple(_mask_zero(x) for x in v)
    if v == "f:80000000":
        return "f:00000000"
    if v == "d:8000000000000000":
        return "d:0000000000000000"
    return v

def _mixed_zero_runs(vals):
    """[(start, end)] of the maximal runs of five or more consecutive floating-point zeroes of one type
    that hold both signs"""
    runs = []
    for zs in (("f:00000000", "f:80000000"), ("d:0000000000000000", "d:8000000000000000")):
        j = 0
        while j < len(vals):
            k = j
            while k < len(vals) and vals[k] in zs:
                k += 1
            if k - j >= 5 and len(set(vals[j:k])) == 2:
                runs.append((j, k))
            j = max(k, j + 1)
    return runs

def _mixed_zero_run(vals):
    """five or more consecutive floating-point zeroes of one type, of both signs"""
    for zs in (("f:00000000", "f:80000000"), ("d:0000000000000000", "d:8000000000000000")):
        j = 0
        while j < len(vals):
            k = j
            while k < len(vals) and vals[k] in zs:
                k += 1
            if k - j >= 5 and len(set(vals[j:k])) == 2:
                return True
            j = max(k, j + 1)
    return False

def _delta_run_at(vals, j):
    """vals[j:j+5] is a run the printer compresses to "b ... c": one of the types i h c, constant non-zero step"""
    if j + 5 > len(vals):
        return False
    k = vals[j][:2]
    if k not in ("i:", "h:", "c:") or any(v[:2] != k for v in vals[j:j + 5]):
        return False
    xs = [int(v[2:]) for v in vals[j:j + 5]]
    d = xs[1] - xs[0]
    return d != 0 and all(xs[i + 1] - xs[i] == d for i in range(4))

def _slots_through_ellipsis_string(text):
    """Walks the printed text value by value, counting the slots the syntax checker counts (a value 1,
    the N of "NxV" 1, an array's bracket 1, a range's "... c" 2), up to and including the first string or
    symbol that contains "...".  Returns (slots, rest of the text after that string) or None."""
    import re
    t = text.decode("latin-1")
    p, n, slots, skip_value = 0, len(t), 0, False
    def ws(p):
        while p < n and t[p] in " \n\t":
            p += 1
        return p
    while True:
        p = ws(p)
        if p >= n:
            return None
        c = t[p]
        counted = 0 if skip_value else 1
        skip_value = False
        if c == '"':
            content = ""
            while True:
                q = p + 1
                while q < n and t[q] != '"':
                    q += 2 if t[q] == "\\" else 1
                if q >= n:
                    return None
                content += t[p + 1:q]
                p = q + 1
                m = re.match(r"\\\n *\"", t[p:])      # "...\<newline>    "..." : the string goes on
                if not m:
                    break
                p += m.end() - 1
            if p < n and t[p] == "S":
                p += 1
            slots += counted
            if "..." in content:
                return slots, t[p:]
        elif c == "'":
            p += 4 if t[p + 1] == "\\" else 3
            slots += counted
        elif c == "[":
            p += 1; slots += counted
        elif c == "]":
            p += 1
        elif t.startswith("...", p):
            p += 3; slots += 2; skip_value = True
        elif t.startswith("BLOB [", p) or t.startswith("MIDI [", p):
            q = t.find("]", p)
            if q < 0:
                return None
            p = q + 1; slots += counted
        else:
            m = re.match(r"[1-9][0-9]*x", t[p:])
            if m and not skip_value:
                p += m.end(); slots += 1          # the repetition's own slot; the value follows directly
                skip_value = False
                continue
            q = p
            while q < n and t[q] not in " \n\t]":
                q += 1
            word = t[p:q]
            p = q
            slots += counted
            if re.fullmatch(r"\d{4}-\d\d-\d\d", word):        # a time tag: clock time and exact fraction belong to it
                m = re.match(r"\s+\d\d:\d\d(:\d\d(\.\d+)?)?", t[p:])
                if m:
                    p += m.end()
            q = ws(p)
            if q < n and t[q] == "(":                          # the exact value of a float / a fraction
                e = t.find(")", q)
                if e < 0:
                    return None
                p = e + 1

def classify(case, impl, failure):
    """Known findings.  Each class demands the failure kind the finding produces and that the finding
    alone explains the failure - another violation in the same case is not classified."""
    import re
    f = case.split(" ")
    if f[0] == "cal":
        return None
    vals = f[5].split(";")
    d = fields(impl) if "=" in impl else {}
    if f[3] != "0" and failure.startswith("values: ") and "scanned as" in failure and _mixed_zero_run(vals):
        # signed-zero-run: a run of >= 5 zeroes of both signs is printed "Nx<first zero>" and scanned as
        # R:n:0 <first zero>.  Demanded: rtosc_arg_vals_eq (==) holds, every such run is scanned in that
        # form, and the scanned values are the originals with the zeroes INSIDE those runs (no other
        # value, no other zero) replaced by the run's first element
        got = [] if d.get("V", "-") == "-" else d["V"].split(";")
        runs = _mixed_zero_runs(vals)
        as_scanned = list(vals)
        for j, k in runs:
            as_scanned[j:k] = [vals[j]] * (k - j)
        forms = all(any(got[i] == "R:%d:0" % (k - j) and got[i + 1] == vals[j] for i in range(len(got) - 1))
                    for j, k in runs)
        if d.get("EQ") == "1" and runs and forms and expand(got) == expand(as_scanned):
            return "signed-zero-run"
    if f[3] != "0" and failure.startswith("check: ") and "P" in d and d["P"] != "-":
        # ellipsis-in-string-before-range: a string or symbol containing "..." directly in front of a
        # run printed as "b ... c"; the checker rejects exactly that range (count = -(slots before it + 1))
        text = bytes.fromhex(d["P"])
        for j, v in enumerate(vals):
            if v[:2] in ("s:", "S:") and b"..." in (bytes.fromhex(v[2:]) if v[2:] != "-" else b""):
                if not _delta_run_at(vals, j + 1):
                    break
                try:
                    r = _slots_through_ellipsis_string(text)
                except (IndexError, ValueError):
                    r = None
                if (r is not None and int(d["C"]) == -(r[0] + 1)
                        and re.match(r"\s+\S+\s+\.\.\.\s", r[1])):
                    return "ellipsis-in-string-before-range"
                break
    return None

TECHNIQUE = ("Coq proofs about a token-level model of the printer, the syntax checker and the scanner "
             "(structural induction over the value list, per-token lemmas) + differential "
             "correspondence against the real functions under ASan/UBSan")
LEVEL_TEXT = ("Partial. Model: printer (all scalar types incl. time tags, range conversion with threshold 5, N x value and a b ... c "
              "forms, arrays incl. nested ones, messages), checker and scanner (incl. ellipsis handling, arrays, time tags, messages). "
              "Proved (Properties_C10.v, 36 theorems): for EVERY option record (compression on or off) and unbounded lists of values "
              "AND ARRAYS OF VALUES in any order (C10_roundtrip_any_partial, C10_message_any_partial over lists of TS v / TA type "
              "elements; runs directly after arrays, five or more equal arrays printed Nx[...], empty arrays) - values = int32/int64 "
              "over the full range, chars, true/false/nil/inf, strings and quoted symbols, colours, MIDI, symbols printed bare, blobs, "
              "and with the lossless option every finite float and double: returned length, checker count = slots written, whole text "
              "consumed, slots expand (also inside arrays) to the input; the printer model is total on that class (C10_print_any_total), so "
              "the theorems speak about every such list. Side conditions = the classifier's predicates: +0.0 and -0.0 "
              "of one type do not both occur (nozmix over all values, signed-zero-run), no two dots in a row in strings/symbols "
              "(coarser than ellipsis-in-string-before-range, which needs three), homogeneous non-nested arrays. No condition on the "
              "position of arrays and runs is left for printed text; for hand-written text C10_mixed_reads_partial excludes exactly a "
              "range tail behind an array whose last value has the tail's type and differs from its first value (D25). The hexadecimal "
              "float text round-trips bit-exactly (C10_hexfloat_roundtrip, C10_float_tokens; no oracle). Time tags: model compared "
              "with the code on every run; proved about the model: the calendar pair round-trips for every 32-bit number of seconds "
              "(C10_timetag_calendar, no hypothesis), the fraction survives its float when it has at most 24 significant bits "
              "(C10_timetag_fraction), the value is rebuilt from the printed fields (C10_timetag_value_partial); at the level "
              "of the text, for every 32-bit number of seconds: the scanner's date branch and the checker's (fmt_date + skip_date) read "
              "the printed text of every time tag of whole seconds (all three strftime formats) back and stop behind it "
              "(C10_timetag_token_whole_seconds, C10_timetag_skip_whole_seconds; what follows must not be a clock time, ':' or '.'), "
              "and with the lossless option of every time tag whose fraction fits a float, the value taken exactly from the "
              "hexadecimal float (C10_timetag_token_fraction, C10_timetag_skip_fraction); such a text is a token (tokof) of the "
              "whole-function recognisers (C10_timetag_tokof_clock for a clock time other than 00:00:00, C10_timetag_tokof_fraction, C10_timetag_tokof_immediately), "
              "so texts mixing time tags with the other proved tokens under any white space are counted and scanned back "
              "(C10_linebreak_transparent, C10_timetag_in_list). Printer to scanner: lists and messages of the proved scalar values and such time tags, compression off "
              "(C10_roundtrip_timetags_partial, C10_message_timetags_partial). Not proved: a date standing alone (midnight) as a "
              "token of lang, time tags with compression on or in arrays (tied). Range conversion: "
              "C10_range_expand.")
LEVEL_NOTE = ("Trusted: Coq kernel, extraction, OCaml driver (incl. its libc oracle for decimal float literals, dead in lossless "
              "mode), harness, generators. FloatFmt.v: fmt_f/fmt_a = glibc printf and sc_f/to_bits = glibc sscanf are tied by "
              "the correspondence run, not proved; given them the float round trip is a theorem. See notes/C10.md (stage 6).")
