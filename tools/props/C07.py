"""C07: validation of untrusted bytes is sound."""
from props.osc_common import *
import struct, itertools

HARNESS = ["h_osc.cpp"]
DRIVER = "OSC"
VARIANT = "asan"
TIMEOUT = 600
RULE = ("byte strings up to 512 bytes: (1) exhaustive: every buffer of length <= 3 over all 256 byte values is out of reach, "
        "so all buffers up to length 4 over the alphabet {'/', 'a', ',', 'b', 'i', 's', '#', 0, 0xff} and all 4-aligned buffers up "
        "to length 12 over {'/', 'a', ',', 'b', 0, 0xff} (thorough; quick takes a seeded slice); (2) structure-aware mutation of "
        "valid messages and bundles: tag changes, blob / element lengths 0x7fffffff..0xffffffff and small off-by-n, missing "
        "terminators, non-zero padding, truncation at every offset, byte flips, splices; (3) valid messages unchanged. "
        "The implementation runs on an exact-size heap copy under ASan with a 5 s watchdog per case. "
        "Non-trivial = the validator accepted the buffer or the buffer is a mutation of a valid message; distinct by case text.")
TRUSTED = ["AddressSanitizer (a read outside the n bytes aborts the harness: CRASH), the 5 s alarm watchdog (HANG)",
           "tools/props/osc_common.py decode(): the independent OSC 1.0 decoder"]
ASSUMPTIONS = ["n < 2^27 for the theorems about accepted buffers (the validator's own arithmetic is 32-bit; the totality and length-bound theorems hold for every n < 2^31)", "in the tie, for buffers with a tag outside the 17 known ones or a non-NUL padding byte (which OSC 1.0 gives no "
               "meaning) only memory safety is demanded of the implementation, not agreement with the Python decoder"]
TECHNIQUE = ("Coq proofs about a model of the length/validity functions with the code's 32-bit unsigned arithmetic and "
             "option-returning readers + differential correspondence on exhaustive short buffers and structure-aware "
             "mutations under ASan with a watchdog")
LEVEL_TEXT = ("Theorems in coq/Properties_C07.v for an ARBITRARY byte list: rtosc_message_length / the two-segment ring "
              "length / rtosc_valid_message_p never read outside the n bytes, terminate within their fuel and report 0 or a "
              "length <= n (n < 2^32-16); whenever the validity predicate accepts a buffer (n < 2^27) every accessor - "
              "argument string, count, type/argument by index, iterator - reads only inside it, the string/blob payloads "
              "they designate lie inside it (C07_valid_safe, by an inversion of the accepted length walk), and the accessors "
              "return exactly what a reference decoder written from the OSC 1.0 text returns (C07_valid_decodes); every "
              "canonical message is accepted (C07_valid_accepts_canonical). All full. Witnesses of the repaired defects are "
              "kept as _refuted theorems about the pinned functions. The correspondence run (exhaustive short buffers, "
              "structure-aware mutations, ASan + watchdog, independent Python decoder) ties the model to the code.")
LEVEL_NOTE = ("Trusted: Coq kernel, extraction, driver, harness, ASan, generator, Python decoder. The C code is modelled by hand "
              "(coq/Osc/OscModel.v) with explicit mod-2^32 arithmetic.")

def mutate(rng, b):
    b = bytearray(b)
    r = rng.random()
    if r < 0.15 and len(b) > 0:           # truncate
        return bytes(b[:rng.randrange(len(b) + 1)])
    if r < 0.3 and len(b) >= 4:           # big-endian word replaced by a crafted size
        p = rng.randrange(0, len(b) // 4) * 4
        v = rng.choice([0x7fffffff, 0x80000000, 0xfffffffc, 0xffffffff, 0xfffffff8, 0xfffffffd,
                        len(b), len(b) - p, len(b) - p - 4, len(b) - p - 3, max(0, len(b) - p - 8), 4, 1, 0])
        b[p:p + 4] = struct.pack(">I", v & 0xffffffff)
        return bytes(b)
    if r < 0.45 and len(b) > 0:           # flip a byte
        p = rng.randrange(len(b)); b[p] = rng.choice([0, 1, 0x2c, 0x2f, 0xff, 0x62, 0x73, 0x69, b[p] ^ 0x80, rng.randrange(256)])
        return bytes(b)
    if r < 0.55:                          # non-zero padding
        zs = [i for i, c in enumerate(b) if c == 0]
        if zs:
            b[rng.choice(zs)] = rng.choice([1, 0x41, 0xff])
        return bytes(b)
    if r < 0.65:                          # remove a terminator
        zs = [i for i, c in enumerate(b) if c == 0]
        if zs:
            del b[rng.choice(zs)]
        return bytes(b)
    if r < 0.75:                          # append / insert
        p = rng.randrange(len(b) + 1)
        b[p:p] = bytes(rng.randrange(256) for _ in range(rng.choice([1, 2, 3, 4, 8])))
        return bytes(b)
    if r < 0.85 and len(b) > 8:           # change a type tag
        c = b.find(b",")
        if c >= 0:
            e = b.find(b"\0", c)
            if e > c + 1:
                p = rng.randrange(c + 1, e)
                b[p] = ord(rng.choice(TAGS + "xa-"))
        return bytes(b)
    return bytes(b)

def gen(rng, tier, dist):
    out = []
    def add(b, cls):
        if len(b) > 512:
            b = b[:512]
        out.append("raw " + hx(b) + " " + cls)
        dist[cls] = dist.get(cls, 0) + 1
    # (1) exhaustive small scope
    alpha1 = [0x2f, 0x61, 0x2c, 0x62, 0x69, 0x73, 0x23, 0, 0xff]
    small = [bytes(t) for n in range(0, 5) for t in itertools.product(alpha1, repeat=n)]
    if tier == "quick":
        k = rng.randrange(4); small = small[k::4]
    for b in small:
        add(b, "exh")
    alpha2 = [0x2f, 0x61, 0x2c, 0x62, 0, 0xff]
    if tier == "thorough":
        for t in itertools.product(alpha2, repeat=8):
            if t[0] == 0x2f:
                add(bytes(t), "exh8")
    else:
        for _ in range(6000):
            n = rng.choice([8, 8, 12])
            add(b"/" + bytes(rng.choice(alpha2) for _ in range(n - 1)), "exh8-sample")
    # (2)+(3) valid messages, bundles and their mutations
    from props.C02 import tree_bytes, gen_tree
    nv = 4000 if tier == "quick" else 120000
    for _ in range(nv):
        if rng.random() < 0.8:
            a, t, ar = gen_message(rng)
            if rng.random() < 0.6:
                t = t[:5]; ar = [gen_value(rng, x) for x in t if reserved(x)]
            b = enc_spec(a, t, ar)
        else:
            b = tree_bytes(("B", rng.getrandbits(64), [gen_tree(rng, 1) for _ in range(rng.randrange(4))]))
        r = rng.random()
        if r < 0.12:
            add(b, "valid")
        else:
            m = mutate(rng, b)
            if rng.random() < 0.3:
                m = mutate(rng, m)
            add(m, "mutated")
    # every truncation of a few messages
    for _ in range(20 if tier == "quick" else 300):
        a, t, ar = gen_message(rng)
        b = enc_spec(a, t[:6], [gen_value(rng, x) for x in t[:6] if reserved(x)])
        for k in range(len(b) + 1):
            add(b[:k], "truncation")
    # two-segment rings: the same kinds of bytes, split at every position
    def add_ring(b, cls):
        for cut in range(len(b) + 1):
            out.append("ring %s %d %s" % (hx(b), cut, cls))
            dist["ring-" + cls] = dist.get("ring-" + cls, 0) + 1
    for _ in range(120 if tier == "quick" else 4000):
        if rng.random() < 0.7:
            a, t, ar = gen_message(rng)
            t = t[:4]; ar = [gen_value(rng, x) for x in t if reserved(x)]
            b = enc_spec(a, t, ar)
        else:
            b = tree_bytes(("B", rng.getrandbits(64), [gen_tree(rng, 1) for _ in range(rng.randrange(3))]))
        if len(b) > 96:
            continue
        if rng.random() < 0.5:
            add_ring(b, "valid")
        else:
            add_ring(mutate(rng, b)[:96], "mutated")
    # accepted messages whose blob / string sizes need the upper bytes of the length word
    for n in BIG_SIZES if tier == "thorough" else rng.sample(BIG_SIZES, 4) + [256]:
        blob = ("b", n, rand_bytes(rng, n)); i = ("4", rng.getrandbits(32))
        for tags, args in (("b", [blob]), ("bi", [blob, i]), ("sb", [("s", rand_bytes(rng, n, nonul=True)), blob])):
            out.append("raw " + hx(enc_spec(gen_addr(rng), tags, args)) + " valid")
            dist["valid-big"] = dist.get("valid-big", 0) + 1
    # crafted witnesses of the repaired defects (D5)
    add(b"", "witness")
    add(b"/a\0\0,bi\0\xff\xff\xff\xfc", "witness")
    add(b"/a\0\0,bi\0\xff\xff\xff\xfc\0\0\0\0", "witness")
    add(b"#bundle\0" + b"\0" * 8 + b"\xff\xff\xff\xfc", "witness")
    return out

def spec_check(case, impl):
    f = case.split(" ")
    b = b"" if f[1] == "-" else bytes.fromhex(f[1])
    n = len(b)
    if impl == "HANG" or impl.startswith("CRASH") and "rc=3" in impl:
        return "termination: rtosc_message_length / rtosc_valid_message_p did not return within 5 s"
    if impl.startswith("CRASH") or impl == "NOOUT":
        return "memory-safety: %s" % impl[:300]
    g = parse_fields(impl)
    if f[0] == "ring":
        L = int(g["RL"])
        if not (L == 0 or 0 < L <= n):
            return "length-bound: ring split at %s: reported length %d for %d bytes" % (f[2], L, n)
        if f[3] == "valid" and L != n:
            return "ring-length: a %d-byte message/bundle split at %s is measured as %d" % (n, f[2], L)
        return None
    L = int(g["L"])
    if not (L == 0 or 0 < L <= n):
        return "length-bound: reported length %d for a buffer of %d bytes" % (L, n)
    if g["V"] == "1":
        if g.get("P") != "ok":
            return "accessor-bounds: a string/blob payload of an accepted buffer ends outside the %d bytes" % n
        d = decode(b)
        if d == "noncanonical":
            return None
        if d is None:
            return "accepted-non-message: the validator accepts bytes that are not one complete OSC message"
        S, vals = d
        exp = {"S": str(S), "N": str(len(vals)), "T": hx("".join(t for t, _ in vals).encode("latin1")),
               "G": ",".join(v for _, v in vals) if vals else "-",
               "I": ",".join("%02x:%s" % (ord(t), v) for t, v in vals) if vals else "-"}
        bad = [k for k in exp if g.get(k) != exp[k]]
        if bad:
            return "decode: accepted buffer, accessors %s: got %s, reference decoder %s" % (
                bad, {k: g.get(k) for k in bad}, {k: exp[k] for k in bad})
    return None

def nontrivial(case, impl):
    return " V=1" in impl or case.endswith("mutated") or case.endswith("truncation") or case.startswith("ring")
canon = canon
