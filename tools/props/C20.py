"""C20 plug-in: a learned MIDI controller drives exactly its parameter.

Case line:  hist <ports> <events>
  ports  = comma list  t:min:max:minbits:maxbits   (t = i|f; address k is /p<k>)
  events = comma list  M<a>.<c> | U<a>.<c> | X | C<par>.<val>.<chan>.<nrpn> | n | r
           (n / r = deliver the oldest RT->nRT / nRT->RT message)
Output (harness/h_C20.cpp): one record per event ';'-separated, '|' end state;
'CRASH' as last record if the code crashed.

spec_check is the property text evaluated on the implementation's records:
it keeps what the text talks about (the learn queue, which controller is
assigned to which address on either side, the last 7-bit value of every
assigned controller) and uses the records only for what was put on / taken
off the two queues.  It never looks at mapping / callback / value indices.
"""
import struct, itertools

HARNESS = ["h_C20.cpp"]
VARIANT = "asan"
TIMEOUT = 1500

# ---------------------------------------------------------------- helpers ---
def f32(x):
    return struct.unpack("<f", struct.pack("<f", x))[0]

def f32bits(x):
    return struct.unpack("<I", struct.pack("<f", x))[0]

def bits2f(b):
    return struct.unpack("<f", struct.pack("<I", b))[0]

PORT_POOL = [("i", "0", "127"), ("i", "0", "127"), ("i", "-8", "1000"), ("i", "1", "5"), ("i", "0", "100"),
             ("i", "-64", "63"), ("i", "0", "16383"), ("i", "0", "128"),
             ("f", "0", "1"), ("f", "-1.5", "2.75"), ("f", "20", "20000"), ("f", "-1", "1"),
             ("f", "0.1", "0.9"), ("f", "-100.5", "-3.25"), ("f", "0", "127"), ("f", "1e-3", "3.3e4"),
             ("f", "0.333333", "0.333334"), ("f", "-1e-30", "1e-30"), ("f", "5", "5")]

def port_field(p):
    t, mn, mx = p
    return "%s:%s:%s:%08x:%08x" % (t, mn, mx, f32bits(float(mn)), f32bits(float(mx)))

def parse_ports(field):
    out = []
    for s in field.split(","):
        t, mn, mx = s.split(":")[:3]
        out.append((t, f32(float(mn)), f32(float(mx))))
    return out

def ctl_id(par, chan, nrpn):
    ch = 1 if chan < 1 else chan
    return (1 << 18 if nrpn else 0) + (((ch - 1) & 15) << 14) + par

def parse_events(field):
    evs = []
    for e in field.split(","):
        if not e:
            continue
        k = e[0]
        a = [int(x) for x in e[1:].split(".")] if len(e) > 1 else []
        evs.append((k, a))
    return evs

def parse_impl(line):
    """-> (records: list of list of items, crashed, state or None)"""
    state = None
    if "|" in line:
        line, state = line.split("|", 1)
    recs = []
    crashed = False
    for r in line.split(";"):
        if r == "CRASH" or r.startswith("CRASH") or r == "NOOUT":
            crashed = True
            break
        recs.append([] if r == "." else r.split("+"))
    return recs, crashed, state

# --------------------------------------------------------------- generator ---
DRAIN = ["r", "n", "r", "r", "n", "r", "r", "n", "r", "r"]

def probes(rng, ctls, n=2):
    out = []
    for c in ctls:
        vs = sorted(rng.sample(range(128), n))
        for v in vs:
            out.append("C%d.%d.%d.%d" % (c[0], v, c[1], c[2]))
    return out

def rand_ctls(rng):
    k = rng.choice([2, 2, 3, 3, 4, 5, 6])
    pars = rng.sample([0, 1, 5, 7, 64, 100, 127], k)
    out = []
    for p in pars:
        r = rng.random()
        if r < 0.75:
            out.append((p, 1, 0))
        elif r < 0.85:
            out.append((p, rng.choice([0, 2, 16, 17]), 0))
        else:
            out.append((p, rng.choice([1, 3]), 1))
    # now and then two spellings of one controller (channel 0/1/17 are the same id)
    if rng.random() < 0.15:
        p = out[0]
        out.append((p[0], 17 if p[1] <= 1 else p[1] + 16, p[2]))
    return out

def rand_op(rng, na, ctls, wmap=3, wcc=5, wun=1.2, wcl=0.25):
    r = rng.random() * (wmap + wcc + wun + wcl)
    if r < wmap:
        return "M%d.%d" % (rng.randrange(na), 1 if rng.random() < 0.7 else 0)
    r -= wmap
    if r < wcc:
        c = rng.choice(ctls)
        return "C%d.%d.%d.%d" % (c[0], rng.choice([0, 1, 63, 64, 127, rng.randrange(128)]), c[1], c[2])
    r -= wcc
    if r < wun:
        return "U%d.%d" % (rng.randrange(na), 1 if rng.random() < 0.7 else 0)
    return "X"

def gen_sync(rng, na, ctls, n):
    """every message is delivered before the next external event"""
    ev = []
    for _ in range(n):
        ev.append(rand_op(rng, na, ctls))
        ev += ["r", "r", "n", "r", "r"]
    return ev

def gen_async(rng, na, ctls, n, pdel):
    ev = []
    for _ in range(n):
        if rng.random() < pdel:
            ev.append(rng.choice(["r", "r", "n"]))
        else:
            ev.append(rand_op(rng, na, ctls))
    return ev

def gen_learnheavy(rng, na, ctls, n):
    """quiescent at map/unMap/clear, several controllers learning at once"""
    ev = []
    for _ in range(n):
        k = rng.random()
        if k < 0.45:
            for _ in range(rng.choice([1, 2, 3])):
                ev.append("M%d.%d" % (rng.randrange(na), 1 if rng.random() < 0.65 else 0))
            ev += ["r", "r", "r", "r"]
            for _ in range(rng.choice([1, 2, 3])):
                ev.append(rand_op(rng, na, ctls, wmap=0, wun=0, wcl=0))
            ev += rng.choice([["n", "n", "n", "r", "r", "r"], ["n", "r", "n", "r", "n", "r"],
                              ["n", "r", "C%d.9.%d.%d" % rng.choice(ctls), "n", "r", "n", "r"]])
        elif k < 0.85:
            ev.append(rand_op(rng, na, ctls, wmap=0, wun=0, wcl=0))
        else:
            ev.append(rand_op(rng, na, ctls, wmap=0, wcc=0))
            ev += ["r", "r", "r"]
    return ev

def gen_cross(rng, na, ctls):
    """D19-shaped: an address is bound, two more are queued, a controller is
    offered, an unMap/clear/map of the bound address crosses the offer"""
    a = list(range(na))
    rng.shuffle(a)
    c0, c1 = ctls[0], ctls[1]
    ev = ["M%d.1" % a[0], "r", "C%d.1.%d.%d" % c0, "n", "r"]
    for x in a[1:]:
        ev += ["M%d.1" % x, "r"]
    ev.append("C%d.64.%d.%d" % c1)
    ev.append(rng.choice(["U%d.1" % a[0], "X", "M%d.1" % a[0]]))
    ev += rng.choice([["r", "C%d.65.%d.%d" % c1, "n", "n", "r", "r"],
                      ["n", "r", "r"], ["r", "r", "C%d.65.%d.%d" % c1, "n", "n"]])
    ev += ["r", "r", "r"]
    for x in a:
        if rng.random() < 0.5:
            ev += ["U%d.1" % x, "r"]
    return ev

def gen_ring(rng, na, ctls, cycles):
    """learn / unMap over and over: the pending ring (32 slots) wraps, the
    callback and value vectors keep growing"""
    ev = []
    for i in range(cycles):
        a = rng.randrange(na)
        c = ctls[i % len(ctls)]
        k = 1 if rng.random() < 0.8 else 0
        ev += ["M%d.%d" % (a, k), "r", "r", "C%d.%d.%d.%d" % (c[0], rng.randrange(128), c[1], c[2]), "n", "r",
               "C%d.%d.%d.%d" % (c[0], rng.randrange(128), c[1], c[2])]
        if rng.random() < 0.7:
            ev += ["U%d.%d" % (a, k), "r"]
        if rng.random() < 0.05:
            ev += ["X", "r", "r", "r", "r"]
    return ev

def cc(c, v):
    return "C%d.%d.%d.%d" % (c[0], v, c[1], c[2])

def gen_twokinds(rng, na, ctls):
    """second controller for an address that already has one (either order),
    values through both, unMap of one kind / both kinds in either order,
    relearn of one kind while the other stays; fully delivered"""
    D = ["r", "r", "n", "r", "r"]
    ev = []
    cs = list(ctls)
    rng.shuffle(cs)
    while len(cs) < 3:
        cs.append(cs[0])
    for _ in range(rng.choice([1, 2])):
        a = rng.randrange(na)
        first = rng.choice([1, 0])
        x, y, z = cs[0], cs[1], cs[2]
        ev += ["M%d.%d" % (a, first), "r", "r", cc(x, rng.randrange(128))] + D
        ev += [cc(x, rng.randrange(128))]
        ev += ["M%d.%d" % (a, 1 - first), "r", "r", cc(y, rng.randrange(128))] + D
        for _ in range(rng.choice([2, 3, 4])):
            ev += [cc(rng.choice([x, y]), rng.randrange(128))]
        k = rng.choice([first, 1 - first])
        ev += ["U%d.%d" % (a, k)] + D + [cc(x, rng.randrange(128)), cc(y, rng.randrange(128))]
        if rng.random() < 0.6:      # relearn that kind with a third controller
            ev += ["M%d.%d" % (a, k), "r", "r", cc(z, rng.randrange(128))] + D
            ev += [cc(z, rng.randrange(128)), cc(x, rng.randrange(128)), cc(y, rng.randrange(128))]
        if rng.random() < 0.5:      # map of a kind that is bound: unMap + queue in one go
            ev += ["M%d.%d" % (a, 1 - k)] + D + [cc(x, 5), cc(y, 6), cc(z, 7)] + D
        order = rng.choice([[1, 0], [0, 1]])
        for kk in order:
            ev += ["U%d.%d" % (a, kk)] + D + [cc(x, rng.randrange(128)), cc(y, rng.randrange(128)), cc(z, 9)]
        cs = cs[1:] + cs[:1]
    return ev

def gen_clearq(rng, na, ctls):
    """clear with a non-empty learn queue (watches delivered or still in flight)"""
    ev = []
    for _ in range(rng.choice([1, 2])):
        k = rng.choice([1, 2, 3])
        for _ in range(k):
            ev.append("M%d.%d" % (rng.randrange(na), rng.choice([1, 1, 0])))
        ev += ["r"] * rng.choice([0, 1, k])
        if rng.random() < 0.4:      # one of them learned before the clear
            ev += ["r"] * k + [cc(ctls[0], 3), "n", "r", cc(ctls[0], 4)]
        ev += ["X"] + ["r"] * (2 * k + 3)
        ev += [cc(c, rng.randrange(128)) for c in ctls[:3]] + ["n", "n", "r", "r"]
        ev += ["M%d.1" % rng.randrange(na), "r", cc(ctls[-1], 7), "n", "r", cc(ctls[-1], 8)]
    return ev

def gen_clearcross(rng, na, ctls):
    """clear() between the two halves' messages: an address is queued and watched, a free
    controller uses the watch up, clear() runs while the midi-use-CC is still on its way (or just
    after it was served, or before the watch arrived); every order of the deliveries that follow;
    then another address is mapped and must be learned by a free controller"""
    a = list(range(na))
    rng.shuffle(a)
    c0, c1 = ctls[0], ctls[1 % len(ctls)]
    ev = []
    if rng.random() < 0.4:          # something bound before
        ev += ["M%d.1" % a[-1], "r", cc(ctls[-1], 9), "n", "r"]
    ev += ["M%d.%d" % (a[0], rng.choice([1, 1, 0]))]
    shape = rng.randrange(6)
    if shape == 0:                  # the seeded shape: offer, clear, then the deliveries in any order
        ev += ["r", cc(c0, 64), "X"]
    elif shape == 1:                # two addresses queued, one offer
        ev += ["M%d.1" % a[1], "r", "r", cc(c0, 64), "X"]
    elif shape == 2:                # the offer falls between clear() and the arrival of its messages
        ev += ["r", "X", cc(c0, 64)]
    elif shape == 3:                # clear() before the watch has arrived
        ev += ["X", "r", cc(c0, 64)]
    elif shape == 4:                # served, answer on its way, then clear()
        ev += ["r", cc(c0, 64), "n", "X"]
    else:                           # clear(), map again, then the old midi-use-CC arrives
        ev += ["r", cc(c0, 64), "X", "M%d.1" % a[1]]
    tail = ["n", "r", "r", "r"]
    rng.shuffle(tail)
    ev += tail + ["r", "n", "r"]
    # afterwards: a fresh learn must work, for the controller involved and for another one
    b = a[1] if na > 1 else a[0]
    who = rng.choice([c0, c1])
    ev += ["M%d.1" % b, "r", cc(who, 1), "n", "r", cc(who, 100), cc(c0, 2), cc(c1, 3)]
    if rng.random() < 0.5:
        ev += ["M%d.0" % b, "r", cc(c1 if who == c0 else c0, 5), "n", "r", cc(c0, 6), cc(c1, 7)]
    return ev

def gen_answered(rng, na, ctls):
    """a map / unMap / clear whose bind is sent while controllers are pending whose answers are
    already on their way (admitted by nocross, not by the earlier `quiescent`)"""
    a = list(range(na))
    rng.shuffle(a)
    cs = list(ctls)
    rng.shuffle(cs)
    ev = ["M%d.1" % a[0], "r", cc(cs[0], 3), "n", "r"]            # a[0] bound to cs[0]
    k = rng.choice([1, 2]) if na > 2 and len(cs) > 2 else 1
    for x in a[1:1 + k]:
        ev += ["M%d.%d" % (x, rng.choice([1, 1, 0]))]
    ev += ["r"] * k
    ev += [cc(c, rng.randrange(128)) for c in cs[1:1 + k]]
    ev += ["n"] * k                                                # all answered, answers in flight
    ev.append(rng.choice(["U%d.1" % a[0], "M%d.1" % a[0], "M%d.0" % a[0], "X", "U%d.1" % a[1]]))
    ev += ["r"] * rng.choice([0, 1, k]) + [cc(c, rng.randrange(128)) for c in cs[:1 + k]]
    ev += ["r"] * (k + 3) + ["n", "r"]
    ev += [cc(c, rng.randrange(128)) for c in cs[:1 + k]]
    return ev

def interleavings(base, ndel):
    """all histories that insert at most ndel deliveries (r/n) into base"""
    k = len(base)
    out = []
    for d in range(ndel + 1):
        for pos in itertools.combinations_with_replacement(range(k + 1), d):
            for kinds in itertools.product("rn", repeat=d):
                h = []
                j = 0
                for i in range(k + 1):
                    while j < d and pos[j] == i:
                        h.append(kinds[j]); j += 1
                    if i < k:
                        h.append(base[i])
                out.append(h)
    return out

def mk_case(rng, ports, ev, ctls, dist, kind, extra=None):
    ev = list(ev) + DRAIN + probes(rng, ctls)
    dist["kind=" + kind] = dist.get("kind=" + kind, 0) + 1
    dist["addresses=%d" % len(ports)] = dist.get("addresses=%d" % len(ports), 0) + 1
    dist["controllers=%d" % len(ctls)] = dist.get("controllers=%d" % len(ctls), 0) + 1
    return "hist %s %s" % (",".join(port_field(p) for p in ports), ",".join(ev)) + (" " + extra if extra else "")

def pick_ports(rng):
    na = rng.choice([2, 2, 3, 3, 4])
    ps = [rng.choice(PORT_POOL) for _ in range(na)]
    if rng.random() < 0.7:                      # at least one int and one float range
        ps[0] = rng.choice([p for p in PORT_POOL if p[0] == "i"])
        ps[1] = rng.choice([p for p in PORT_POOL if p[0] == "f"])
    return ps

def gen(rng, tier, dist):
    out = []
    nrand = 3000 if tier == "quick" else 12000
    for i in range(nrand):
        ports = pick_ports(rng)
        ctls = rand_ctls(rng)
        na = len(ports)
        m = i % 10
        if m < 3:
            out.append(mk_case(rng, ports, gen_sync(rng, na, ctls, rng.randint(3, 14)), ctls, dist, "sync"))
        elif m < 6:
            out.append(mk_case(rng, ports, gen_learnheavy(rng, na, ctls, rng.randint(3, 10)), ctls, dist,
                               "quiescent-ops"))
        elif m < 9:
            out.append(mk_case(rng, ports, gen_async(rng, na, ctls, rng.randint(6, 40),
                                                     rng.choice([0.3, 0.5, 0.7])), ctls, dist, "async"))
        else:
            out.append(mk_case(rng, ports, gen_cross(rng, na, ctls), ctls, dist, "cross"))
    # every value through one coarse(+fine) binding: range and monotonicity over all 7-bit values
    for i in range(8 if tier == "quick" else 60):
        p = PORT_POOL[i % len(PORT_POOL)] if tier != "quick" else rng.choice(PORT_POOL)
        fine = (i % 2 == 1)
        ev = ["M0.1", "r", "C5.0.1.0", "n", "r"]
        if fine:
            ev += ["M0.0", "r", "C6.0.1.0", "n", "r"]
        for v in range(128):
            ev.append("C5.%d.1.0" % v)
            if fine:
                ev.append("C6.%d.1.0" % ((v * 37 + i) % 128))
        out.append(mk_case(rng, [p, PORT_POOL[8]], ev, [(5, 1, 0), (6, 1, 0)], dist, "sweep"))
    # second controller of an address, unMap with both kinds bound, clear with a non-empty queue
    for i in range(400 if tier == "quick" else 6000):
        ports = pick_ports(rng)
        ctls = rand_ctls(rng)
        if i % 3 < 2:
            out.append(mk_case(rng, ports, gen_twokinds(rng, len(ports), ctls), ctls, dist, "two-kinds"))
        else:
            out.append(mk_case(rng, ports, gen_clearq(rng, len(ports), ctls), ctls, dist, "clear-queue"))
    # clear() between the halves' messages; foreign binds sent while answered controllers are pending
    for i in range(500 if tier == "quick" else 6000):
        ports = pick_ports(rng)
        ctls = rand_ctls(rng)
        if i % 5 < 3:
            out.append(mk_case(rng, ports, gen_clearcross(rng, len(ports), ctls), ctls, dist, "clear-cross"))
        else:
            out.append(mk_case(rng, ports, gen_answered(rng, len(ports), ctls), ctls, dist, "answered-pending"))
    # exactly 32 controllers offered at once (the PendingQueue's capacity), over a larger table
    for i in range(1 if tier == "quick" else 6):
        n = 34
        ports = [("f", "0", "1")] * n
        ev = ["M%d.1" % a for a in range(n)] + ["r"] * n
        ev += ["C%d.%d.1.0" % (j, rng.randrange(128)) for j in range(32)]
        ev += ["C%d.2.1.0" % rng.randrange(32)]
        ev += ["n"] * 33 + ["r"] * 34 + ["C%d.%d.1.0" % (j, rng.randrange(128)) for j in range(0, 34, 3)]
        out.append(mk_case(rng, ports, ev, [(0, 1, 0), (31, 1, 0), (33, 1, 0)], dist, "capacity-32"))
    # 33 / 34 / 40 offered at once: beyond the PendingQueue (outside the property's quantifier: the Spec
    # walk stops where the 33rd controller starts learning - it counts them itself); model and code
    # must still do the same (C20_capacity_refuted)
    for i in range(2 if tier == "quick" else 8):
        n = 40
        k = [33, 34, 40, 36][i % 4]
        ports = [("f", "0", "1")] * n
        ev = ["M%d.1" % a for a in range(n)] + ["r"] * n
        ev += ["C%d.%d.1.0" % (j, rng.randrange(128)) for j in range(k)]
        ev += ["C%d.2.1.0" % rng.randrange(31, k) for _ in range(3)]
        ev += ["n"] * (k + 3) + ["r"] * (k + 4) + ["C%d.%d.1.0" % (j, rng.randrange(128)) for j in range(0, k, 3)]
        ev += ["U%d.1" % rng.randrange(k), "r", "C%d.7.1.0" % rng.randrange(31, k)]
        out.append(mk_case(rng, ports, ev, [(0, 1, 0), (31, 1, 0), (32, 1, 0), (33, 1, 0)], dist, "capacity-over"))
    # the pending ring wraps after 32 learns
    for i in range(3 if tier == "quick" else 40):
        ports = pick_ports(rng)
        ctls = rand_ctls(rng)
        out.append(mk_case(rng, ports, gen_ring(rng, len(ports), ctls, rng.randint(34, 70)), ctls, dist, "ring-wrap"))
    # exhaustive delivery orders for short histories
    nshort = 10 if tier == "quick" else 40
    ndel = 3 if tier == "quick" else 5
    for i in range(nshort):
        ports = pick_ports(rng)[:3]
        ctls = [(5, 1, 0), (7, 1, 0)]
        na = len(ports)
        k = rng.choice([3, 4]) if tier == "quick" else rng.choice([3, 4, 5])
        if i % 2 == 0:
            base = [rand_op(rng, na, ctls, wmap=4, wcc=4, wun=1.5, wcl=0.4) for _ in range(k)]
        else:   # a bound address first, then a short race
            base = ["M0.1", "C5.3.1.0"] + [rand_op(rng, na, ctls, wmap=3, wcc=4, wun=2, wcl=0.5) for _ in range(k - 1)]
            base = ["M0.1", "r", "C5.3.1.0", "n", "r"][:5] + base[2:]
        nd = ndel if len(base) <= 4 else (ndel - 1 if len(base) <= 6 else ndel - 2)
        for h in interleavings(base, nd):
            out.append(mk_case(rng, ports, h, ctls, dist, "all-orders"))
    dist["cases"] = len(out)
    return out

# ------------------------------------------------------------ the Spec -------
def nocross(case, impl):
    """No midi-bind crosses a midi-use-CC (same predicate as MidiSpec.nocross, which the model
    driver evaluates on its own records; canon() puts both values into the compared lines):
      N1  a midi-bind that is not the answer to a midi-use-CC (map / unMap / clear) is sent only
          when every pending controller's answer is already on its way (pending controllers =
          answering binds in flight);
      N2  no controller is offered while such a bind is on its way.
    Computed from the history and the records only."""
    f = case.split(" ")
    evs = parse_events(f[2])
    recs, crashed, _ = parse_impl(impl)
    pend = 0
    chR = []
    for (k, a), rec in zip(evs, recs):
        if k in "MUX":
            if "B" in rec and pend != chR.count("Ba"):
                return False
            for it in rec:
                if it == "B":
                    chR.append("Bf")
                elif it in ("W", "R"):
                    chR.append(it)
        elif k == "C":
            if any(it.startswith("U") for it in rec):
                if "Bf" in chR:
                    return False
                pend += 1
        elif k == "n":
            for it in rec:
                if it == "B":
                    chR.append("Ba")
        elif k == "r":
            if chR:
                m = chR.pop(0)
                if m == "Ba" and pend > 0:
                    pend -= 1
    return True

def pending_before(case, impl, upto):
    """the realtime side's pending controllers before event `upto`, from the records alone: an
    offered controller enters at the back, every delivered midi-bind that answers a midi-use-CC
    removes the front (same function as MidiSpec.pending_of)"""
    f = case.split(" ")
    evs = parse_events(f[2])
    recs, crashed, _ = parse_impl(impl)
    P = []
    chR = []
    for i, ((k, a), rec) in enumerate(zip(evs, recs)):
        if i >= upto:
            break
        if k in "MUX":
            chR += ["Bf" if it == "B" else it for it in rec if it in ("B", "W", "R")]
        elif k == "n":
            chR += ["Ba" for it in rec if it == "B"]
        elif k == "C":
            P += [int(it[1:]) for it in rec if it.startswith("U")]
        elif k == "r" and chR:
            if chR.pop(0) == "Ba" and P:
                P.pop(0)
    return P

def spec_walk(case, impl):
    """-> (failure or None, info dict)"""
    f = case.split(" ")
    ports = parse_ports(f[1])
    evs = parse_events(f[2])
    recs, crashed, _ = parse_impl(impl)
    queue = []            # learn queue as the text sees it
    asgN = {}             # controller -> (addr, coarse) on the non-realtime side
    asgR = {}             # ... as the realtime side has been told
    v7 = {}               # last 7-bit value of every controller in asgR
    chR = []              # ('W',) ('R',) ('B', snapshot, answered id or None)
    chN = []
    learning = set()      # offered, answer not yet arrived
    avail = 0             # queued addresses the realtime side knows of and has not used
    seen = {}             # addr -> list of (x14, value)
    nmsg = 0
    nassign = 0

    def composite(a):
        co = [i for i, t in asgR.items() if t == (a, True)]
        fi = [i for i, t in asgR.items() if t == (a, False)]
        return ((v7.get(co[0], 0) if co else 0) << 7) | (v7.get(fi[0], 0) if fi else 0)

    for k_ev, ((k, a), rec) in enumerate(zip(evs, recs)):
        where = "event %d (%s%s)" % (k_ev, k, ".".join(map(str, a)))
        bad = [it for it in rec if it.startswith("?")]
        if bad:
            return "protocol: unexpected message %s at %s" % (bad[0], where), {}
        ms = [it for it in rec if it.startswith("m")]
        if ms and k != "C":
            return "silent: a parameter message %s without a controller value at %s" % (ms[0], where), {}
        if k in "MUX":
            if k == "M":
                tgt = (a[0], bool(a[1]))
                if tgt not in queue:
                    for i in [i for i, t in asgN.items() if t == tgt]:
                        del asgN[i]
                    queue.append(tgt)
            elif k == "U":
                tgt = (a[0], bool(a[1]))
                for i in [i for i, t in asgN.items() if t == tgt]:
                    del asgN[i]
            else:
                asgN.clear()
                queue = []
            for it in rec:
                if it == "B":
                    chR.append(("B", dict(asgN), None))
                elif it in ("W", "R"):
                    chR.append((it,))
        elif k == "C":
            cid = ctl_id(a[0], a[2], bool(a[3]))
            us = [it for it in rec if it.startswith("U")]
            # the realtime side has been told everything: both views must agree
            if not any(m[0] == "B" for m in chR) and asgR != asgN:
                return ("propagate: every message delivered, yet the realtime side drives %s while the "
                        "assignments are %s at %s" % (sorted(asgR.items()), sorted(asgN.items()), where)), {}
            if cid in asgR:
                addr, coarse = asgR[cid]
                if len(ms) != 1 or us:
                    return "drive: controller %d is assigned to /p%d but produced %s at %s" % (cid, addr, rec, where), {}
                ma, mt, mb = ms[0][1:].split(":")
                t, mn, mx = ports[addr]
                if int(ma) != addr:
                    return "drive: controller %d is assigned to /p%d but drove /p%s at %s" % (cid, addr, ma, where), {}
                if mt != t:
                    return "drive: /p%d is a '%s' parameter, message carries '%s' at %s" % (addr, t, mt, where), {}
                v7[cid] = a[1]
                x = composite(addr)
                bits = int(mb, 16)
                val = bits2f(bits) if t == "f" else (bits - (1 << 32) if bits >= (1 << 31) else bits)
                if not (mn <= val <= mx):
                    return "range: /p%d in [%r,%r] received %r (14-bit input %d) at %s" % (addr, mn, mx, val, x, where), {}
                for (x0, v0) in seen.setdefault(addr, []):
                    if (x0 <= x and v0 > val) or (x0 >= x and v0 < val):
                        return ("monotone: /p%d received %r for 14-bit input %d but %r for %d at %s"
                                % (addr, v0, x0, val, x, where)), {}
                seen[addr].append((x, val))
                nmsg += 1
            else:
                if ms:
                    return "silent: controller %d is not assigned but produced %s at %s" % (cid, ms[0], where), {}
                want = cid not in learning and avail > 0
                if us:
                    if us != ["U%d" % cid]:
                        return "protocol: controller %d offered as %s at %s" % (cid, us, where), {}
                    if cid in learning:
                        return ("learn: controller %d is offered a second time while its assignment is under way "
                                "(it would take a second queued address) at %s" % (cid, where)), \
                            {"event": k_ev, "cid": cid, "learning": True}
                    if avail <= 0:
                        return ("learn: controller %d is offered although no queued address waits at %s" % (cid, where),
                                {"event": k_ev, "cid": cid, "learning": False})
                    learning.add(cid)
                    avail -= 1
                    chN.append(cid)
                    if len(learning) > PENDING_CAP:
                        # more controllers learning at once than the PendingQueue holds: outside the
                        # property's quantifier (2..6 controllers) and outside the theorems' bound
                        # (C20_capacity_refuted).  Computed here from the events of the history; the
                        # events up to this point have been judged, the rest is compared
                        # model-vs-implementation only.
                        return None, {"messages": nmsg, "assignments": nassign, "over_capacity_at": k_ev}
                elif want:
                    return ("learn: controller %d is not assigned, an address is queued, but it is not taken "
                            "at %s" % (cid, where)), {"event": k_ev, "cid": cid, "learning": False}
        elif k == "n":
            if not chN:
                if rec != ["e"]:
                    return "protocol: delivery on an empty queue produced %s at %s" % (rec, where), {}
                continue
            cid = chN.pop(0)
            if not rec or not rec[0].startswith("A"):
                return "protocol: no assignment record at %s" % where, {}
            if queue:
                tgt = queue[0]
                want = "A%d:%d:%d" % (cid, tgt[0], 1 if tgt[1] else 0)
                if rec[0] != want:
                    return "learn: controller %d must go to the oldest queued address (%s), got %s at %s" % (cid, want, rec[0], where), {}
                if cid in asgN:
                    return ("learn: controller %d already drives /p%d and is assigned again to /p%d at %s"
                            % (cid, asgN[cid][0], tgt[0], where)), {}
                queue.pop(0)
                asgN[cid] = tgt
                nassign += 1
                if rec[1:] != ["B"]:
                    return "protocol: assignment not announced (%s) at %s" % (rec, where), {}
                chR.append(("B", dict(asgN), cid))
            else:
                if rec == ["A%d:-" % cid, "B"]:       # told so: the announcement releases the controller on arrival
                    chR.append(("B", dict(asgN), cid))
                elif rec != ["A%d:-" % cid]:
                    return "learn: no address is queued, yet %s at %s" % (rec, where), {}
                else:
                    learning.discard(cid)
        elif k == "r":
            if not chR:
                if rec != ["e"]:
                    return "protocol: delivery on an empty queue produced %s at %s" % (rec, where), {}
                continue
            m = chR.pop(0)
            if rec:
                return "protocol: delivery produced %s at %s" % (rec, where), {}
            if m[0] == "W":
                avail += 1
            elif m[0] == "R":
                avail = max(0, avail - 1)
            else:
                v7 = {i: (v7.get(i, 0) if i in asgR else 0) for i in m[1]}
                asgR = dict(m[1])
                if m[2] is not None:
                    learning.discard(m[2])
    if crashed:
        return "crash: the code crashed at event %d of %s" % (len(recs), f[2]), {}
    return None, {"messages": nmsg, "assignments": nassign}

PENDING_CAP = 32      # MidiMapperRT::PendingQueue holds 32 controller ids

def spec_check(case, impl):
    if impl in ("BADCASE", "PIPEFAIL") or impl.startswith("NOOUT"):
        return "harness: " + impl
    return spec_walk(case, impl)[0]

def nontrivial(case, impl):
    fail, info = spec_walk(case, impl)
    return (fail is None and "over_capacity_at" not in info
            and info.get("assignments", 0) >= 2 and info.get("messages", 0) >= 2)

def classify(case, impl, failure):
    """No known finding is left for C20: the class bind-crosses-use-cc (D19) was repaired in the
    repository (MidiMapperStorage::answers); the old functions and the witness are in
    coq/Midi/MidiRegress.v, the witness histories in corpus/C20/witnesses.txt.  Every Spec failure
    is a violation, in crossing histories too."""
    return None

def ring_of_state(state):
    """the pending ring in the end state printed by harness / driver, oldest first"""
    import re
    m = re.search(r"pend=([-0-9,]*);pr=(\d+);pw=\d+;ps=(\d+)", state)
    if not m:
        return None
    vals = [int(x) for x in m.group(1).split(",")]
    pr, ps = int(m.group(2)), int(m.group(3))
    return [vals[(pr + i) % 32] for i in range(ps)]

def canon(case, line):
    """The model driver's line ends in #N=<MidiSpec.nocross on the model's records>#P=<MidiSpec.pending_of>
    #R=<that list is what the model's ring holds>; the harness line gets the same three computed by this
    file (nocross, pending_before, ring_of_state) from the implementation's records and end state: the
    correspondence run fails when the Coq predicates and the classifier's disagree on a history, or when
    the pending set the classifier infers from the records is not the one the real ring holds."""
    if "#N=" in line:
        return line
    if line in ("BADCASE", "PIPEFAIL") or line.startswith("NOOUT") or line.startswith("CRASH:"):
        return line
    P = pending_before(case, line, 1 << 30)
    out = line + "#N=%d#P=%s" % (1 if nocross(case, line) else 0, ",".join(map(str, P)))
    if "|" in line:
        out += "#R=%d" % (1 if ring_of_state(line.split("|", 1)[1]) == P else 0)
    return out

RULE = ("histories over 2..4 addresses drawn from a pool of int and float ranges (incl. the 0..127 int special case, "
        "non-representable decimal bounds, a degenerate and a tiny range) and 2..6 controllers (channel/NRPN spellings "
        "mixed, aliases of one id included): fully synchronous histories; histories quiescent at map/unMap/clear with "
        "several learns in flight; random asynchronous interleavings; D19-shaped crossings; 128-value sweeps through a "
        "coarse(+fine) binding; second-controller / both-kinds / clear-with-queue histories; clear() between the two halves' messages "
        "(watch used up, midi-use-CC still on its way, every order of the following deliveries, then a fresh learn); map/unMap/clear "
        "sent while answered controllers are still pending; 32 controllers offered at once; 33..40 offered at once (tie only, outside the "
        "quantifier); 34..70 learn/unMap cycles (the 32-slot pending ring wraps); and every placement of <=3 (quick) / <=5 (thorough) "
        "deliveries into short histories. The side condition nocross is computed by the Coq model (extracted) and by the plug-in on every "
        "history and compared. "
        "Each history ends with a drain and two values per controller. Non-trivial = Spec holds, >=2 assignments and "
        ">=2 parameter messages.")
TRUSTED = ["harness/h_C20.cpp: real MidiMappernRT + MidiMapperRT, rt_cb / frontend queued by the harness, nRT->RT messages "
           "dispatched through MidiMapperRT::ports, backend messages decoded by hand; one forked child per case",
           "tools/props/C20.py spec_walk: the property text as a checker over (history, records) - tracks learn queue, "
           "assignments on both sides and 7-bit values, never an index",
           "Flocq 4.x (Core, Calc.Round/Bracket, Prop.Relative/Plus_error) and the standard library's real numbers under "
           "C20_bijection_range / _monotone / _monotone_7bit (axioms: ClassicalDedekindReals.sig_forall_dec, sig_not_dec, "
           "Classical_Prop.classic, functional_extensionality_dep); the float model has no overflow / NaN / -0.0"]
ASSUMPTIONS = ["controller values are 7-bit (0..127); port bounds are finite floats far from overflow, min <= max, integer "
               "bounds for 'i' ports; every mapped address exists in the port table and has min/max metadata",
               "at most 32 distinct controllers have a learn in flight (PendingQueue capacity)",
               "MidiMappernRT::addNewMapper/addFineMapper/setBounds and the MidiTable class are not part of the histories"]
TECHNIQUE = ("Coq proofs about a two-process model (nRT half, RT half, two FIFO channels, histories = external events + "
             "deliveries) of midimapper.cpp + differential correspondence against the real classes under ASan with "
             "harness-controlled delivery order")
LEVEL_TEXT = ("For EVERY history (unbounded) of map/unMap/clear/CC/deliveries - the realtime and the non-realtime half exchanging their "
              "messages in any order - over at most 32 controllers: the model's records, parameter messages with their values included, are "
              "exactly those of the abstract specification (C20_refines_spec: finite map controller -> (address, kind), FIFO of addresses "
              "waiting to learn, delayed copy, 7-bit values, 14-bit composition); no crash, every vector access in range "
              "(C20_inv_step, C20_crash_free); no snapshot holds a controller twice and no controller is given a second address "
              "(C20_learn_once); the pending ring holds exactly the controllers whose answer is outstanding (C20_pending_exact); a parameter "
              "message comes only from a controller assigned before (C20_unassigned_silent_history). Per operation, for all states: 14-bit "
              "composition (C20_compose_14bit), the learned controller gets the slot with the queued address's callback and all others keep "
              "theirs (C20_learn_oldest), unMap removes exactly the controller (C20_unmap_stops), no entry => no message "
              "(C20_unassigned_silent), bind installs the snapshot (C20_bind_installs); every callback sends to its own address a value in "
              "[min,max] that grows with the 14-bit input (C20_bijection_range/_monotone/_monotone_7bit, for the executable rounding, proved "
              "equal to Flocq's round-to-nearest-even). Partial: 'every midi-use-CC finds a queued address' needs nocross "
              "(C20_nocross_learn_partial; after a crossing clear() it finds none and is answered with the unchanged mapping).")
LEVEL_NOTE = ("Stage 4: D19 (every midi-bind released the oldest pending controller) repaired in the repository - a snapshot says which "
              "controller's midi-use-CC it answers (MidiMapperStorage::answers), only such a snapshot releases a pending controller, a "
              "midi-use-CC that finds no address is answered with the unchanged mapping; the model follows, the old functions and the "
              "witness are in coq/Midi/MidiRegress.v (C20_d19_regress, stuck_refuted), the same histories on the repaired functions in "
              "C20_d19_repaired / stuck_repaired.  With it the history-level theorems lost their side condition.  nocross remains the side "
              "condition of C20_nocross_learn_partial only; it is the same predicate in MidiSpec.v and in this file, the model driver prints "
              "its value, the pending set the records imply (pending_of) and whether the model's ring holds it; canon() sets the plug-in's "
              "values and the real ring beside them, so the correspondence run compares all of it on every history.  No known-finding class "
              "is left.  The bound of 32 controllers is tight (C20_capacity_refuted, outside the property's quantifier; model and code agree "
              "beyond it: the Spec walk counts the controllers learning at once from the events and stops judging at the 33rd).  Not modelled: float overflow / NaN / -0.0.  See notes/C20.md.")
