"""C11 plug-in: the scanner accepts the documented text syntax and canonicalises it.

Case lines (harness/h_C10.cpp):
  sc <hextext> <expected slots>     model + implementation
  xs <hextext> <expected slots>     implementation only (constructs the Coq model does not cover:
                                    ranges, arrays, time tags)
The sentences are generated constructively from (value, spelling) choices, so the
expected values (the denotation) are known without looking at any recogniser.
"""
import struct, re
from props import C10 as P10

HARNESS = ["h_C10.cpp"]
VARIANT = "asan"
TIMEOUT = 1500
RULE = ("sentences of 1..10 values generated from (value, spelling) choices of doc/Guide.adoc: decimal / "
        "hex / octal integers, i and h suffixes, floats with exponent, f and d suffixes, hex floats, a "
        "parenthesised exact value (with inner blanks), chars incl. escapes and the mistyped '\\', strings with "
        "escapes and concatenation, identifiers and quoted symbols, true/false/nil/inf/now/immediately, "
        "colours, MIDI and BLOB with extra blanks, NxA repetitions, a b ... c ranges, arrays with "
        "open-ended ranges; 1..3 blanks / newlines / tabs / % comments at every token boundary.  "
        "Non-trivial = at least 2 values and (a comment, an alternative numeric spelling or a range).")
TRUSTED = ["harness/h_C10.cpp", "the generator's own denotation of each spelling (Python), incl. Python's "
           "float() for decimal floating point literals"]
ASSUMPTIONS = ["TZ=UTC; glibc sscanf", "decimal floating point literals are chosen so that double rounding "
               "(decimal -> double -> float) cannot differ from strtof",
               "the manual does not say how an integer literal with a leading 0 is read: the oracle follows the "
               "code's format selection - a plain \"077\" is read by %d (decimal, 77), the suffixed \"077i\" by "
               "%i (octal, 63); a reading of the documentation under which both are octal would make \"077\" a finding"]

def hx(b):
    return bytes(b).hex() if len(b) else "-"

def f32(x):
    return "f:%08x" % struct.unpack("<I", struct.pack("<f", x))[0]

def f64(x):
    return "d:%016x" % struct.unpack("<Q", struct.pack("<d", x))[0]

def w32(v):
    v &= 0xffffffff
    return v - (1 << 32) if v >= 1 << 31 else v

ESC = {7: "a", 8: "b", 9: "t", 10: "n", 11: "v", 12: "f", 13: "r", 92: "\\"}

def spell_str(rng, b, sym):
    out = '"'
    for c in b:
        if c in ESC:
            out += "\\" + ESC[c]
        elif c == 34:
            out += '\\"'
        else:
            out += chr(c)
        if rng.random() < 0.08:
            out += '"\\' + rng.choice(["", " ", "\n", "\n    ", " \t "]) + '"'
    return out + '"' + ("S" if sym else "")

def hexdigits(rng, v):
    """hexadecimal digits of v, in lower or upper case (C11_grammar_...: GHex is given by its digits)"""
    return ("%x" if rng.random() < 0.7 else "%X") % v

def word(rng):
    """(text, [slots]) of one value in a randomly chosen spelling"""
    k = rng.choice("iiihhfffdcsSSkrmb")
    if k == "i":
        v = rng.choice([0, 1, 7, 8, 9, 10, 42, 63, 64, 255, 1000, 65535, 2147483647, rng.randint(0, 1 << 31 - 1)])
        neg = rng.random() < 0.3
        sv = -v if neg else v
        sg = "-" if neg else rng.choice(["", "", "+"])
        sp = rng.choice(["dec", "dec", "hex", "deci", "hexi", "octi", "zerodec"])
        if sp == "dec":
            return sg + "%d" % v, ["i:%d" % sv]
        if sp == "hex":
            return sg + "0x" + hexdigits(rng, v), ["i:%d" % w32(sv)]
        if sp == "deci":
            return sg + "%di" % v, ["i:%d" % sv] if not ("%d" % v).startswith("0") or v == 0 else None
        if sp == "hexi":
            return sg + "0x" + hexdigits(rng, v) + "i", ["i:%d" % w32(sv)]
        if sp == "octi":
            return sg + "0%oi" % v, ["i:%d" % sv]
        return sg + "0%d" % v, ["i:%d" % sv]          # 077 is read by %d: decimal
    if k == "h":
        v = rng.choice([0, 5, 8, 1 << 40, (1 << 63) - 1, rng.getrandbits(62)])
        neg = rng.random() < 0.3
        sv = -v if neg else v
        sg = "-" if neg else ""
        sp = rng.choice(["dec", "hex", "oct"])
        if sp == "dec":
            return sg + "%dh" % v, ["h:%d" % sv]
        if sp == "hex":
            return sg + "0x" + hexdigits(rng, v) + "h", ["h:%d" % sv]
        return sg + "0%oh" % v, ["h:%d" % sv]
    if k in "fd":
        m = rng.choice([0, 1, 3, 5, 15, 25, 125, 1024, 12345])
        e = rng.choice([-3, -2, -1, 0, 0, 1, 2, 10])
        neg = rng.random() < 0.3
        sp = rng.choice(["point", "exp", "suffix", "hexf", "exact", "dot"])
        sg = "-" if neg else ""
        suf = "d" if k == "d" else rng.choice(["", "f"])
        if sp == "point":
            txt = "%d.%s" % (m // 8, {0: "0", 1: "125", 2: "25", 3: "375", 4: "5", 5: "625", 6: "75", 7: "875"}[m % 8])
        elif sp == "exp":
            txt = "%de%d" % (m, e) if e < 0 or rng.random() < 0.5 else "%dE+%d" % (m, e)
            if e < 0:
                txt = "%d.5e%d" % (m, e) if False else txt
        elif sp == "suffix":
            txt = "%d" % m
            suf = "d" if k == "d" else "f"
        elif sp == "dot":
            txt = "%d." % m
        elif sp == "hexf":
            txt = "0x%x.%xp%+d" % (m, rng.randint(0, 255), e)
        else:
            txt = "%d.%d" % (m, rng.randint(0, 99))
        if sp == "exp" and e < 0:
            # only exactly representable values: m * 10^e with e<0 is not; use a power of two instead
            txt = "%d.%s" % (m, rng.choice(["5", "25", "125", "0625"])) + "e0"
        val = float.fromhex(txt) if sp == "hexf" else float(txt)
        if neg:
            val = -val
        if sp == "exact" or (sp != "hexf" and rng.random() < 0.2):
            # the exact value in parentheses wins
            ex = rng.choice([0.1, 1.5, 3.0e-5, 123456.789, 2.0 ** -140 if k == "f" else 2.0 ** -1060])
            if k == "f":
                ex = struct.unpack("<f", struct.pack("<f", ex))[0]
            h = ex.hex()
            h = h.replace("0x1.0000000000000p", "0x1p")
            if "." in h:
                mant, p = h.split("p")
                mant = mant.rstrip("0").rstrip(".")
                h = mant + "p" + p
            inner = rng.choice(["(%s)", "( %s )", "(%s )", "(  %s)"]) % h
            return sg + txt + suf + rng.choice([" ", "  ", "\n "]) + inner, [f32(ex) if k == "f" else f64(ex)]
        if suf == "" and sp in ("suffix",):
            suf = "f"
        if suf == "" and "." not in txt and "e" not in txt.lower() and "p" not in txt:
            suf = "f"
        if sp == "hexf" and suf == "f":
            suf = ""      # 0x..p+0f : the f is no suffix there
        return sg + txt + suf, [f32(val) if k == "f" else f64(val)]
    if k == "c":
        c = rng.choice([97, 65, 48, 32, 35, 37, 46, 34, 39, 92, 7, 8, 9, 10, 11, 12, 13, 126, 0])
        if c == 0:
            return "'\\0'", ["c:0"]
        if c == 92 and rng.random() < 0.5:
            return "'\\'", ["c:92"]                # the mistyped backslash
        if c in ESC:
            return "'\\%s'" % ESC[c], ["c:%d" % c]
        if c == 39:
            return "'\\''", ["c:39"]
        return "'%c'" % c, ["c:%d" % c]
    if k == "s":
        b = P10.g_str(rng)
        b = bytes(c for c in b if c != 0)
        return spell_str(rng, b, False), ["s:" + hx(b)]
    if k == "S":
        if rng.random() < 0.6:
            n = rng.choice([1, 2, 5, 12])
            s = rng.choice("abcxyzABC_tfniMB") + "".join(rng.choice("abcxyz_019ABC") for _ in range(n - 1))
            if s in P10.RESERVED:
                s += "_"
            return s, ["S:" + s.encode().hex()]
        b = P10.g_str(rng)
        return spell_str(rng, b, True), ["S:" + hx(b)]
    if k == "k":
        return rng.choice([("true", ["T"]), ("false", ["F"]), ("nil", ["N"]), ("inf", ["I"]),
                           ("now", ["t:0000000000000001"]), ("immediately", ["t:0000000000000001"])])
    if k == "r":
        v = rng.getrandbits(32)
        return "#%08x" % v if rng.random() < 0.7 else "#%08X" % v, ["r:%08x" % v]
    if k == "m":
        m = [rng.getrandbits(8) for _ in range(4)]
        sp = rng.choice(["MIDI [0x%02x 0x%02x 0x%02x 0x%02x]", "MIDI[0x%x 0x%x 0x%x 0x%x]",
                         "MIDI [ 0x%02x  0x%02x 0x%02x 0x%02x ]", "MIDI\t[0x%02X 0x%02x\n0x%02x 0x%02x]"])
        return sp % tuple(m), ["m:" + bytes(m).hex()]
    if k == "b":
        n = rng.choice([0, 1, 2, 5])
        d = [rng.getrandbits(8) for _ in range(n)]
        body = "".join(rng.choice([" ", "  ", "\n "]) + "0x%02x" % x for x in d)
        return "BLOB [%d%s]" % (n, body) if rng.random() < 0.6 else "BLOB[ %d%s ]" % (n, body), ["b:" + hx(d)]
    raise ValueError(k)

def sep(rng, allow_comment=True):
    n = rng.randint(1, 3)
    out = ""
    for _ in range(n):
        q = rng.random()
        if q < 0.55:
            out += " "
        elif q < 0.75:
            out += "\n"
        elif q < 0.85 or not allow_comment:
            out += "\t"
        else:
            out += " % " + rng.choice(["a comment", "1 2 3", "\"", "[", "..."]) + "\n"
    return out

def adjacent_ranges(rng):
    """a range directly followed by a range of the same type: the second takes the first one's
    last element for the "a" of "a b ... c" (doc/Guide.adoc), so its step is b - last"""
    k = rng.choice("ihc")
    suf = "h" if k == "h" else ""
    def lit(v):
        return _lit(k, v)
    base = rng.randint(60, 90) if k == "c" else rng.randint(-20, 20)
    n1 = rng.randint(2, 6)
    d1 = rng.choice([1, -1]) if rng.random() < 0.7 else rng.choice([2, 3, -2])
    if k == "c":
        d1 = abs(d1)
    last1 = base + d1 * (n1 - 1)
    if abs(d1) == 1:
        t1 = "%s ... %s" % (lit(base), lit(last1))
        s1 = ["R:%d:1" % n1, "%s:%d" % (k, d1), "%s:%d" % (k, base)]
    else:
        n1 = max(n1, 3); last1 = base + d1 * (n1 - 1)
        t1 = "%s %s ... %s" % (lit(base), lit(base + d1), lit(last1))
        s1 = ["%s:%d" % (k, base), "R:%d:1" % (n1 - 1), "%s:%d" % (k, d1), "%s:%d" % (k, base + d1)]
    d2 = rng.choice([1, 2, 4, -3]) if k != "c" else rng.choice([1, 2, 3])
    n2 = rng.randint(2, 5)
    b2 = last1 + d2
    c2 = b2 + d2 * (n2 - 1)
    t2 = "%s ... %s" % (lit(b2), lit(c2))
    s2 = ["R:%d:1" % n2, "%s:%d" % (k, d2), "%s:%d" % (k, b2)]
    return t1 + sep(rng) + t2, s1 + s2

def _lit(k, v):
    # chars through _clit: a range that ends on the backslash or the quote is written with the escape,
    # not in the mistyped form (quote backslash quote), which directly in front of "]" is an unfinished escape
    # (a false alarm of the generator that the thorough tier met)
    return _clit(v) if k == "c" else "%d%s" % (v, "h" if k == "h" else "")

def rich_array(rng, depth=0):
    """an array as the manual's grammar allows it: plain elements of one type; repetitions and
    ranges (finite, or open-ended as the last element) of possibly ANOTHER type; nested arrays,
    repetitions and an open range of arrays.  Returns (text, slots).  `prev` tracks the value the
    scanner takes for the left neighbour (type letter, integer value or None)."""
    if depth == 0 and rng.random() < 0.35:
        # an array of arrays
        parts, slots = [], []
        n = rng.randint(1, 3)
        for j in range(n):
            it, isl = rich_array(rng, 1)
            q = rng.random()
            if q < 0.3:
                m = rep_count(rng, 2, 6)
                parts.append("%dx%s" % (m, it)); slots += ["R:%d:0" % m] + isl
            elif q < 0.45 and j == 0 and n == 1:
                parts.append(it + sep(rng, False) + "..."); slots += ["R:0:0"] + isl
            else:
                parts.append(it); slots += isl
        if rng.random() < 0.3 and "..." not in "".join(parts):
            # ends in >= 5 equal arrays (printed back as a repetition)
            it, isl = rich_array(rng, 1)
            m = rng.randint(5, 6)
            parts += [it] * m; slots += isl * m
        text = "[" + rng.choice(["", " "]) + sep(rng, False).join(parts) + rng.choice(["", " "]) + "]"
        return text, ["a:97:%d" % len(slots)] + slots
    base = rng.choice("ihcfNs") if depth == 0 else rng.choice("ihc")
    n = rng.randint(0, 4) if depth == 0 else rng.randint(1, 2)
    parts, slots = [], []
    prev = None
    last_ty = 32
    def plain():
        if base in "ihc":
            v = rng.randint(60, 90) if base == "c" else rng.randint(-30, 30)
            return _lit(base, v), ["%s:%d" % (base, v)], (base, v)
        if base == "f":
            v = rng.choice([0.5, 0.25, 1.5, -2.0])
            return repr(v), [f32(v)], ("f", None)
        if base == "N":
            return "nil", ["N"], ("N", None)
        b = b"a" + bytes([rng.choice([98, 99])])
        return '"%s"' % b.decode(), ["s:" + b.hex()], ("s", None)
    for j in range(n):
        t, sl, prev = plain()
        parts.append(t); slots += sl; last_ty = ord(sl[-1][0])
    if depth == 0 and rng.random() < 0.7:
        # one or two repetitions / ranges of an integer type (maybe another one than base)
        for _ in range(rng.choice([1, 1, 2])):
            k2 = rng.choice("ihc")
            q = rng.random()
            if q < 0.3:
                m = rep_count(rng, 2, 5)
                v = rng.randint(60, 90) if k2 == "c" else rng.randint(-30, 30)
                parts.append("%dx%s" % (m, _lit(k2, v))); slots += ["R:%d:0" % m, "%s:%d" % (k2, v)]
                prev = (k2, v); last_ty = ord(k2)
                continue
            b = rng.randint(60, 80) if k2 == "c" else rng.randint(-30, 30)
            if k2 != base and prev is not None and prev[0] == k2:
                # a second element of the other type: its reprint can need the explicit form (below)
                continue
            if prev is not None and prev[0] == k2 and prev[1] != b:
                if k2 != base:
                    # in an array of another type the reprint would need the explicit form
                    # "a b ... c" whose a is a plain element of the wrong type (notes/C11.md)
                    continue
                d = b - prev[1]
                useless = False
            else:
                d = rng.choice([1, -1])
                useless = True
            if abs(d) > 12 or (k2 == "c" and not (40 < b + 3 * d < 120)):
                continue
            open_end = rng.random() < 0.5
            if open_end:
                parts.append(_lit(k2, b) + sep(rng, False) + "...")
                slots += (["R:0:0"] if useless else ["R:0:1", "%s:%d" % (k2, d)]) + ["%s:%d" % (k2, b)]
                last_ty = ord(k2)
                break                                   # an open range ends the array
            m = rng.randint(2, 4)
            c = b + (m - 1) * d
            parts.append(_lit(k2, b) + sep(rng, False) + "..." + sep(rng, False) + _lit(k2, c))
            slots += ["R:%d:1" % m, "%s:%d" % (k2, d), "%s:%d" % (k2, b)]
            prev = (k2, c); last_ty = ord(k2)
    text = "[" + rng.choice(["", " "]) + sep(rng, False).join(parts) + rng.choice(["", " "]) + "]"
    return text, ["a:%d:%d" % (last_ty, len(slots))] + slots

def rep_then_range(rng):
    """hand-written 'NxV b ... c' of one type: V is the a of a b ... c"""
    k = rng.choice("ih")
    v = rng.randint(-9, 9); m = rng.randint(2, 4)
    d = rng.choice([2, 3, -2, 1, -1])
    b = v + d
    n = rng.randint(2, 4)
    c = b + (n - 1) * d
    return "%dx%s%s%s ... %s" % (m, _lit(k, v), sep(rng, False), _lit(k, b), _lit(k, c)), \
        ["R:%d:0" % m, "%s:%d" % (k, v), "R:%d:1" % n, "%s:%d" % (k, d), "%s:%d" % (k, b)]

def _clit(v):
    """a char literal as a writer of the text would put it"""
    if v == 39:
        return "'\\''"
    if v == 92:
        return "'\\\\'"
    return "'%c'" % v

def _tlit(k, v):
    return _clit(v) if k == "c" else "%d%s" % (v, "h" if k == "h" else "")

def implied_step_range(rng):
    """"b ... c" of type i / h / c with the implied unit step (doc/Guide.adoc: d := sgn(c-b)),
    ascending and descending, standing at the start of the text or directly after a value of
    ANOTHER type (no usable "a"): returns (text, slots).  The caller puts it first in the
    sentence or after whatever came before; the left neighbour made here is of another type."""
    k = rng.choice("ihccc")
    d = rng.choice([1, -1, -1])
    n = rng.randint(2, 9)
    if k == "c":
        b = rng.randint(33 + 9, 126 - 9)
    elif k == "i":
        b = rng.choice([rng.randint(-20, 20), 2147483647 - 9 - rng.randint(0, 3), -2147483648 + 9 + rng.randint(0, 3)])
    else:
        b = rng.choice([rng.randint(-20, 20), (1 << 40) + rng.randint(-5, 5), -(1 << 62)])
    c = b + d * (n - 1)
    rt = _tlit(k, b) + sep(rng, False) + "..." + sep(rng, False) + _tlit(k, c)
    rs = ["R:%d:1" % n, "%s:%d" % (k, d), "%s:%d" % (k, b)]
    q = rng.random()
    if q < 0.4:
        return rt, rs                         # (the caller may put it at the very start)
    # a left neighbour of another type
    others = [x for x in "ihcsTNfS" if x != k]
    o = rng.choice(others)
    if o in "ihc":
        v = rng.randint(60, 90) if o == "c" else rng.randint(-30, 30)
        lt, ls = _tlit(o, v), ["%s:%d" % (o, v)]
    elif o == "s":
        lt, ls = '"ab"', ["s:6162"]
    elif o == "S":
        lt, ls = "sym_1", ["S:" + b"sym_1".hex()]
    elif o == "T":
        lt, ls = rng.choice([("true", ["T"]), ("false", ["F"])])
    elif o == "N":
        lt, ls = "nil", ["N"]
    else:
        lt, ls = "0.5", [f32(0.5)]
    if q < 0.55:
        m = rng.randint(2, 5)                 # a repetition of another type in front
        return "%dx%s" % (m, lt) + sep(rng) + rt, ["R:%d:0" % m] + ls + rs
    return lt + sep(rng) + rt, ls + rs

def run_end_array(rng):
    """an array whose last >= 5 elements are a constant or unit-step run (printed back compressed)
    directly followed, outside the array, by a value that would continue the run"""
    k = rng.choice("ihc")
    d = rng.choice([0, 1, -1, 2])
    n = rng.randint(5, 7)
    b = rng.randint(60, 90) if k == "c" else rng.randint(-30, 30)
    vals = [b + d * j for j in range(n)]
    pre = []
    if rng.random() < 0.3:
        pre = [b - 7]
    allv = pre + vals
    parts = [_tlit(k, v) for v in allv]
    slots = ["%s:%d" % (k, v) for v in allv]
    text = "[" + sep(rng, False).join(parts) + "]"
    nxt = b + d * n
    return text + sep(rng) + _tlit(k, nxt), ["a:%d:%d" % (ord(k), len(slots))] + slots + ["%s:%d" % (k, nxt)]

# repetition counts: every digit pattern of "<n>x" (a zero digit inside: 10 20 30 100 101 105 110)
REP_COUNTS = [10, 20, 30, 100, 101, 105, 110, 5, 6, 7, 8, 9, 11, 12, 99, 112]

def rep_count(rng, lo, hi):
    return rng.choice(REP_COUNTS) if rng.random() < 0.4 else rng.randint(lo, hi)

def open_typed_array(rng):
    """an array that ends in an open range written in the explicit form "a b ..." over booleans
    (the step of an alternation is 'true'), floats or integers; nested, repeated or plain"""
    k = rng.choice("BBBfi")
    if k == "B":
        a, b = rng.choice([True, False]), rng.choice([True, False])
        lit = lambda v: "true" if v else "false"
        sl = lambda v: "T" if v else "F"
        if a != b:
            parts, slots, ty = [lit(a), lit(b), "..."], [sl(a), "R:0:1", "T", sl(b)], sl(b)
        else:
            parts, slots, ty = [lit(a), lit(b), "..."], [sl(a), "R:0:0", sl(b)], sl(b)
    elif k == "f":
        x = rng.choice([0.5, 1.5, -2.0, 8.0]); d = rng.choice([0.5, 1.0, -0.25, 2.0])
        parts, slots, ty = [repr(x), repr(x + d), "..."], [f32(x), "R:0:1", f32(d), f32(x + d)], "f"
    else:
        x = rng.randint(-20, 20); d = rng.choice([2, 3, -4, 7])
        parts, slots, ty = [str(x), str(x + d), "..."], ["i:%d" % x, "R:0:1", "i:%d" % d, "i:%d" % (x + d)], "i"
    text = "[" + sep(rng, False).join(parts) + rng.choice(["", " "]) + "]"
    slots = ["a:%d:%d" % (ord(ty), len(slots))] + slots
    q = rng.random()
    if q < 0.25:                                  # nested in an outer array
        return "[" + text + "]", ["a:97:%d" % len(slots)] + slots
    if q < 0.4:                                   # repeated
        m = rep_count(rng, 2, 4)
        return "%dx%s" % (m, text), ["R:%d:0" % m] + slots
    return text, slots

def _flit(rng, k, x):
    """a float / double literal for a value with few binary digits"""
    s = repr(float(x))
    return s + "d" if k == "d" else s + rng.choice(["", "", "f"])

def _fsub(k, x, y):
    """x - y in the format k (operands are values of the format: the double difference is exact
    or rounds once more without harm - 53 >= 2 * 24 + 2)"""
    return struct.unpack("<f", struct.pack("<f", x - y))[0] if k == "f" else x - y

def float_range(rng):
    """ranges over floats and doubles: "a b ... c" (step b - a), "b ... c" (unit step, up or down) behind
    a value of another type, a range directly behind a range (its "a" is the last value of the first
    one), open ranges behind further elements; at top level, in an array, nested, repeated.  The step
    is a slot of the range's type.  Values: few binary digits (all arithmetic exact) or decimal tenths
    (0.1 0.2 ... 0.9: the step is the rounded difference of the rounded literals, the count is what the
    text says - the code finds it with its rounding rule (>= 0.999) and its tolerance 0.001)."""
    k = rng.choice("fd")
    dec = rng.random() < 0.35
    if dec:
        def lit(v):
            t = "%s%d.%d" % (("-" if v < 0 else ""), abs(v) // 10, abs(v) % 10)
            return t + "d" if k == "d" else t + rng.choice(["", "", "f"])
        def num(v):
            x = float("%s%d.%d" % (("-" if v < 0 else ""), abs(v) // 10, abs(v) % 10))
            return struct.unpack("<f", struct.pack("<f", x))[0] if k == "f" else x
        x = rng.choice([1, 3, -7, 22, 0, 9, -15])
        d = rng.choice([1, 2, -3, 7, -1, 11])
        unit = 10
    else:
        lit = lambda v: _flit(rng, k, v)
        num = lambda v: float(v)
        x = rng.choice([0.5, 1.5, -2.0, 8.0, 0.25, -7.75, 100.0, 0.0])
        d = rng.choice([0.5, 1.0, -0.25, 2.0, -1.5, 0.125, -1.0])
        unit = 1.0
    sl = (lambda v: f32(num(v))) if k == "f" else (lambda v: f64(num(v)))
    sln = f32 if k == "f" else f64
    n = rng.randint(2, 6)
    in_array = rng.random() < 0.55
    form = rng.random()
    if form < 0.3:                                 # "b ... c": unit step, no usable neighbour
        sgn = rng.choice([1, -1])
        b, c = x, x + sgn * unit * (n - 1)
        if in_array and rng.random() < 0.5:
            parts, slots = [], []
        else:
            parts, slots = rng.choice([(["nil"], ["N"]), (["true"], ["T"]), (["7"], ["i:7"]), (['"ab"'], ["s:6162"])])
            parts, slots = list(parts), list(slots)
        parts += [lit(b), "...", lit(c)]
        slots += ["R:%d:1" % n, sln(float(sgn)), sl(b)]
        d = sgn * unit
    else:                                          # "a b ... c"
        a, b = x, x + d
        c = b + d * (n - 1)
        parts = [lit(a), lit(b), "...", lit(c)]
        slots = [sl(a), "R:%d:1" % n, sln(_fsub(k, num(b), num(a))), sl(b)]
    if form >= 0.7 and not dec:                    # a second range directly behind: "... c e ... g"
        d2 = rng.choice([0.5, -0.5, 2.0, 0.25, -3.0])
        e = c + d2
        if in_array and rng.random() < 0.5:        # open: ends the array
            parts += [lit(e), "..."]
            slots += ["R:0:1", sl(d2), sl(e)]
        else:
            n2 = rng.randint(2, 5)
            parts += [lit(e), "...", lit(e + d2 * (n2 - 1))]
            slots += ["R:%d:1" % n2, sl(d2), sl(e)]
    elif in_array and form >= 0.5:                 # further elements, then the open range
        e = c + d; g = e + d
        parts += [lit(e), lit(g), "..."]
        slots += [sl(e), "R:0:1", sln(_fsub(k, num(g), num(e))), sl(g)]
    if not in_array:
        return sep(rng, False).join(parts), slots
    text = "[" + rng.choice(["", " "]) + sep(rng, False).join(parts) + rng.choice(["", " "]) + "]"
    slots = ["a:%d:%d" % (ord(k), len(slots))] + slots
    q = rng.random()
    if q < 0.25:
        return "[" + text + "]", ["a:97:%d" % len(slots)] + slots
    if q < 0.45:
        m = rep_count(rng, 2, 4)
        return "%dx%s" % (m, text), ["R:%d:0" % m] + slots
    return text, slots

def structured(rng):
    q = rng.random()
    if q < 0.15:
        return open_typed_array(rng)
    if q < 0.3:
        return float_range(rng)
    """ranges, repetitions, arrays: (text, slots)"""
    q = rng.random()
    if q < 0.15:
        return adjacent_ranges(rng)
    if q < 0.45:
        return rich_array(rng)
    if q < 0.5:
        return rep_then_range(rng)
    if q < 0.62:
        return implied_step_range(rng)
    if q < 0.66:
        return run_end_array(rng)
    q = rng.random()
    if q < 0.3:
        n = rep_count(rng, 1, 9)
        t, sl = word(rng)
        while sl is None or " " in t or "\n" in t or t[0] in "+-0123456789." and False:
            t, sl = word(rng)
        return "%dx%s" % (n, t), ["R:%d:0" % n] + sl
    if q < 0.6:
        a = rng.randint(-20, 20); d = rng.choice([1, -1, 2, 3, -5]); n = rng.randint(2, 9)
        k = rng.choice("ih")
        suf = "h" if k == "h" else ""
        last = a + d * (n - 1)
        if abs(d) == 1 and rng.random() < 0.5:
            return "%d%s ... %d%s" % (a, suf, last, suf), ["R:%d:1" % n, "%s:%d" % (k, d), "%s:%d" % (k, a)]
        if n < 3:
            n = 3; last = a + d * (n - 1)
        # "a b ... c": a is a value of its own, the range starts at b
        return "%d%s %d%s ... %d%s" % (a, suf, a + d, suf, last, suf), \
            ["%s:%d" % (k, a), "R:%d:1" % (n - 1), "%s:%d" % (k, d), "%s:%d" % (k, a + d)]
    n = rng.randint(0, 5)
    k = rng.choice("ihsc")
    parts, slots = [], []
    for _ in range(n):
        if k == "i":
            v = rng.randint(-99, 99); parts.append("%d" % v); slots.append("i:%d" % v)
        elif k == "h":
            v = rng.randint(-99, 99); parts.append("%dh" % v); slots.append("h:%d" % v)
        elif k == "c":
            v = rng.choice([97, 98, 120]); parts.append("'%c'" % v); slots.append("c:%d" % v)
        else:
            b = b"ab" + bytes([rng.choice([99, 100])]); parts.append('"%s"' % b.decode()); slots.append("s:" + b.hex())
    ty = ord(slots[-1][0]) if slots else 32
    inner = "".join(p + sep(rng, False) for p in parts)
    return "[" + rng.choice(["", " "]) + inner.rstrip(" \n\t") + rng.choice(["", " "]) + "]", \
        ["a:%d:%d" % (ty, len(slots))] + slots

def gen(rng, tier, dist):
    n = 4000 if tier == "quick" else 200000
    out = []
    def bump(k):
        dist[k] = dist.get(k, 0) + 1
    for _ in range(n):
        nw = rng.choice([1, 1, 2, 2, 3, 4, 6, 10])
        text, slots, kind = "", [], "sc"
        prev_t = ""
        lead = rng.random()
        for j in range(nw):
            if rng.random() < 0.15 or (lead < 0.12 and j == min(nw - 1, int(lead * 33))):
                t, sl = structured(rng); bump("structured")
                # "b ... c" takes a preceding value of b's type for the "a" of "a b ... c"
                # (doc/Guide.adoc): keep such a neighbour away unless it is meant
                # (after an array the scanner takes the array's last element: finding
                # range-after-array, generated on purpose now and then)
                has_ell = re.search(r"\s\.\.\.\s", t) is not None
                tt0 = re.sub(r"(^|\s)%[^\n]*", " ", text).rstrip(" \n\t")
                # (a range after an array that ends in an open range: the closing bracket is no
                # neighbour for the checker since fix D31; generated, with the array's last slot of
                # another type so that the scanner finds no neighbour either)
                if has_ell and not t.startswith("[") and tt0.endswith("]") and tt0[:-1].rstrip(" \n\t").endswith("..."):
                    if re.sub(r"(^|\s)%[^\n]*", " ", prev_t).count("...") >= 2:
                        # the array holds another range in front of its open one: the checker's search
                        # finds that one first (class range-after-array) - kept apart
                        text += "nil" + sep(rng)
                        slots.append("N")
                    else:
                        bump("range-after-open-array")
                if has_ell and slots and slots[-1][0] == sl[-1][0]:
                    tt = text.rstrip(" \n\t")
                    after_array = tt.endswith("]") and not tt[:-1].rstrip(" \n\t").endswith("...")
                    if not (after_array and not t.split(" ... ")[0].count(" ") and rng.random() < 0.5):
                        text += "nil" + sep(rng)
                        slots.append("N")
            else:
                t, sl = word(rng)
                while sl is None:
                    t, sl = word(rng)
            text += t
            slots += sl
            prev_t = t
            if j + 1 < nw or rng.random() < 0.3:
                text += sep(rng)
        bump("words=%d" % nw)
        bump(kind)
        out.append("%s %s %s" % (kind, text.encode("latin-1").hex(), ";".join(slots)))
    return out

def fields(line):
    return P10.fields(line)

def canon(case, line):
    if case.startswith("x"):
        return "SKIP"
    return " ".join(t for t in line.split(" ") if t.split("=")[0] in ("C", "N", "R", "V"))

def spec_check(case, impl):
    f = case.split(" ")
    if impl.startswith("CRASH") or impl in ("NOOUT", "BADCASE"):
        return "crash: the implementation did not answer (%s)" % impl[:200]
    d = fields(impl)
    text = bytes.fromhex(f[1])
    exp = f[2].split(";")
    c = int(d["C"])
    if c <= 0:
        return "check: the syntax checker rejects %r (count %d)" % (text, c)
    if c != len(exp):
        return "count: checker says %d values for %r, the sentence denotes %d (%s)" % (c, text, len(exp), f[2])
    if int(d["N"]) != c:
        return "agree: checker says %d values, scanner wrote %s for %r" % (c, d["N"], text)
    if int(d["R"]) != len(text):
        return "consume: scanner read %s of %d bytes of %r" % (d["R"], len(text), text)
    got = d["V"].split(";")
    if got != exp:
        return "denote: %r scanned as %s, the spelling denotes %s" % (text, d["V"], f[2])
    if d.get("EQ2") != "1":
        return "reprint: printing the scanned values of %r and scanning again gives other values (%s)" % (
            text, d.get("P2", "")[:200])
    return None

def nontrivial(case, impl):
    f = case.split(" ")
    text = bytes.fromhex(f[1])
    return ";" in f[2] and (b"%" in text or b"0x" in text or b"..." in text or b"e" in text)

def _array_ends(slots):
    """indices of the last slot of every array in the flat slot list (nested arrays included)"""
    ends = set()
    for h, t in enumerate(slots):
        if t.startswith("a:"):
            try:
                n = int(t.split(":")[2])
            except (IndexError, ValueError):
                continue
            if n > 0:
                ends.add(h + n)
    return ends

def _fl_val(tok):
    """exact value (Fraction) of a slot f:<hex> / d:<hex>"""
    from fractions import Fraction
    if tok.startswith("f:"):
        return Fraction(struct.unpack("<f", struct.pack("<I", int(tok[2:], 16)))[0])
    return Fraction(struct.unpack("<d", struct.pack("<Q", int(tok[2:], 16)))[0])

def _fl_fits(k, q):
    """is the rational q a value of the format k (float / double)?"""
    try:
        x = float(q)
        if k == "f":
            x = struct.unpack("<f", struct.pack("<f", x))[0]
    except OverflowError:
        return False
    from fractions import Fraction
    return Fraction(x) == q

def _inexact_at(slots, j):
    """is slots[j] the header of a range over floats / doubles whose values start + i * step (and the
    product i * step) are not all values of the format, or whose left neighbour a (same type, directly in
    front) has a + step != start: the arithmetic the printer and the scanner do on it rounds"""
    m = re.match(r"R:(-?\d+):1$", slots[j])
    if not m or j + 2 >= len(slots) or slots[j + 1][:2] not in ("f:", "d:") or slots[j + 2][:2] != slots[j + 1][:2]:
        return False
    k = slots[j + 1][0]
    try:
        dl, st = _fl_val(slots[j + 1]), _fl_val(slots[j + 2])
    except (ValueError, OverflowError):
        return False
    n = int(m.group(1))
    for i in range(1, max(n, 3)):
        if not _fl_fits(k, i * dl) or not _fl_fits(k, st + i * dl):
            return True
    if j > 0 and slots[j - 1][:2] == k + ":":
        try:
            if _fl_val(slots[j - 1]) + dl != st:
                return True
        except (ValueError, OverflowError):
            return False
    return False

def _inexact_float_range(slots):
    return any(_inexact_at(slots, j) for j in range(len(slots)))

def _ulp(k, q):
    """one unit in the last place of the format k at the magnitude of the rational q"""
    from fractions import Fraction
    import math
    q = abs(q)
    p, emin = (24, -126) if k == "f" else (53, -1022)
    if q == 0:
        return Fraction(2) ** (emin - p + 1)
    e = max(math.floor(math.log2(float(q))) if float(q) > 0 else emin, emin)
    return Fraction(2) ** (e - p + 1)

def _fl_round(k, q):
    from fractions import Fraction
    x = float(q)
    if k == "f":
        x = struct.unpack("<f", struct.pack("<f", x))[0]
    return Fraction(x)

def _written_out(slots):
    """the slots written out element by element: [(text, mark)] - mark is None for a plain slot, else
    (type, largest magnitude) for an element of an inexact float range (elements computed as the library
    does: start + i * step, each operation rounded).  Array headers are kept without their length (the
    compression inside differs between two scans), an endless range stays one entry."""
    out, j = [], 0
    while j < len(slots):
        t = slots[j]
        m = re.match(r"R:(-?\d+):1$", t)
        rep = re.match(r"R:(\d+):0$", t)
        if rep and int(rep.group(1)) > 0 and j + 1 < len(slots):
            # n x value / n x [array]: the repeated element written out n times
            span = 1 + (int(slots[j + 1].split(":")[2]) if slots[j + 1].startswith("a:") else 0)
            out += _written_out(slots[j + 1:j + 1 + span]) * min(int(rep.group(1)), 100000)
            j += 1 + span
        elif t.startswith("a:"):
            out.append((":".join(t.split(":")[:2]), None)); j += 1
        elif m and j + 2 < len(slots):
            n, k = int(m.group(1)), slots[j + 1][0]
            if n <= 0 or n > 100000:
                out.append((";".join(slots[j:j + 3]), None))
            elif k in "fd":
                d, st = _fl_val(slots[j + 1]), _fl_val(slots[j + 2])
                es = [_fl_round(k, st + _fl_round(k, i * d)) for i in range(n)]
                big = max(abs(e) for e in es)
                out += [((k, e), (k, big, i) if _inexact_at(slots, j) else None) for i, e in enumerate(es)]
            else:
                d, st = int(slots[j + 1][2:]), int(slots[j + 2][2:])
                w = 64 if k == "h" else (8 if k == "c" else 32)
                out += [("%s:%d" % (k, ((st + i * d + 2 ** (w - 1)) % 2 ** w) - 2 ** (w - 1)), None) for i in range(n)]
            j += 3
        elif t[:2] in ("f:", "d:") and not re.search(r"[^0-9a-f]", t[2:]):
            try:
                out.append(((t[0], _fl_val(t)), None))
            except (ValueError, OverflowError):
                out.append((t, None))
            j += 1
        else:
            out.append((t, None)); j += 1
    return out

def _inexact_bound(mark):
    """how far element i of an inexact range may be off in the second scan, in units in the last place at
    the magnitude of the range's largest element: two rounded operations on either side (2 ulp together)
    and the re-derived step c - b (half an ulp at that magnitude) taken i times.  One ulp flat is too
    narrow: 0.9d 1.1d ... 1.7d comes back with 1.7000000000000006 for 1.7000000000000002 (2 ulp)."""
    from fractions import Fraction
    return (2 + Fraction(mark[2], 2)) * _ulp(mark[0], mark[1])

def _only_inexact_ranges_differ(v, v2):
    """the second scan differs from the first ONLY as the finding says: written out element by element
    (the printer compresses again, so the slots themselves differ also where nothing is wrong) both scans
    have the same elements except inside the inexact float ranges of the first scan, and there each
    element is off by at most _inexact_bound (a few units in the last place at the magnitude of the
    range's largest element); at least one element differs."""
    a, b = _written_out(v), _written_out(v2)
    if len(a) != len(b):
        return False
    differ = 0
    for (x, mark), (y, _) in zip(a, b):
        if x == y:
            continue
        if mark is None or not isinstance(y, tuple) or y[0] != mark[0]:
            return False
        if abs(x[1] - y[1]) > _inexact_bound(mark):
            return False
        differ += 1
    return differ >= 1

def _num(tok):
    from fractions import Fraction
    return _fl_val(tok) if tok[:2] in ("f:", "d:") else Fraction(int(tok[2:]))

def _delta_from_array_end(exp, got, p):
    """the step the scanner wrote for the range at slot p is its first value b minus the last value of the
    array in front of it (for an array that ends in a range: that range's last element); floats: rounded
    in the format, integers: modulo the width"""
    try:
        b, step = _num(exp[p + 2]), _num(got[p + 1])
        last = _num(exp[p - 1])
        if p >= 4 and re.match(r"R:\d+:1$", exp[p - 3]):
            last = last + (int(exp[p - 3].split(":")[1]) - 1) * _num(exp[p - 2])
        k = exp[p + 2][0]
        if k in "fd":
            x = float(b - last)
            if k == "f":
                x = struct.unpack("<f", struct.pack("<f", x))[0]
            from fractions import Fraction
            return Fraction(x) == step
        w = 2 ** (64 if k == "h" else 32)
        return (b - last - step) % w == 0
    except (ValueError, IndexError, OverflowError, struct.error):
        return False

def classify(case, impl, failure):
    # float-range-inexact-step: the scanned values hold a range over floats / doubles on which the
    # range arithmetic rounds (0.1 0.2 ... 0.5); only the failure kind reprint is classified, and only when
    # the second scan (V2=) differs from the first inside such ranges alone, in the way the finding says
    if failure.startswith("reprint: ") and "=" in impl:
        d = fields(impl)
        v, v2 = d.get("V", "-").split(";"), d.get("V2", "-").split(";")
        try:
            if d.get("V2", "-") != "-" and _only_inexact_ranges_differ(v, v2):
                return "float-range-inexact-step"
        except (ValueError, IndexError):
            pass
    """range-after-array: a range "b ... c" directly behind an array whose last slot has b's type.  The
    checker counts it with the unit step, the scanner takes the array's last value for the left neighbour:
    the scanned slots differ from the denotation in that range's count and step ONLY (failure kind
    denote; crashes, rejected or partly consumed texts and any other difference are not classified)."""
    import re
    f = case.split(" ")
    if failure.startswith("denote: ") and "=" in impl:
        d = fields(impl)
        exp = f[2].split(";")
        got = d.get("V", "-").split(";")
        text = re.sub(r"(^|\s)%[^\n]*", " ", bytes.fromhex(f[1]).decode("latin-1"))
        diff = [i for i in range(min(len(exp), len(got))) if exp[i] != got[i]]
        if (len(exp) == len(got) and diff and re.search(r"\]\s+\S+\s+\.\.\.", text)):
            p = diff[0]
            ends = _array_ends(exp)
            # the misread range, and the ranges of its type that follow it directly: each takes the
            # last value of the one before for its left neighbour, so the wrong step is handed on
            allowed, q = set(), p
            while (q + 2 < len(exp) and exp[q].startswith("R:") and exp[q].endswith(":1")
                   and got[q].startswith("R:") and got[q].endswith(":1") and exp[q + 2] == got[q + 2]
                   and exp[q + 1][:1] == got[q + 1][:1] and exp[q + 2][:1] == exp[p + 2][:1]):
                allowed |= {q, q + 1}
                q += 3
            if (allowed and all(i in allowed for i in diff)
                    and (p - 1) in ends                      # the slot before the range closes an array
                    and exp[p - 1][:1] == exp[p + 2][:1]     # ... and has the type of the range's first value
                    and _delta_from_array_end(exp, got, p)): # ... and the scanned step is b - (array's last value)
                return "range-after-array"
    return None

TECHNIQUE = ("Coq proofs over the same recogniser models as C10 (token lemmas shared by checker and scanner, "
             "loops over white-space separated sentences) + differential correspondence on generated sentences")
LEVEL_TEXT = ("Partial. For every sentence of the modelled fragment (values of C10's good_val in any spelling the printer can "
              "produce, separated by arbitrary non-empty white space): checker count = values written = sentence length, whole "
              "text consumed, values = denotation, white-space invariance, reprint (C11_agree_denotes_partial, "
              "C11_simulation_partial, C11_ws_invariant_partial, C11_reprint_partial). Alternative numeric spellings, comments, "
              "identifiers, colours/MIDI/BLOB are in the model and compared with the implementation; NxA, ranges and arrays are "
              "now in the model and compared with the implementation; NxV repetitions are in the theorems (C11_elements_agree_partial); "
              "the widened grammar (Grammar.v gtok/gword: suffix i, hexadecimal literals plain and with i/h, decimal floats without exact value plain and with f/d, comments between words) "
              "is accepted by both recognisers and scanned to its denotation (C11_grammar_agree_denotes_partial, "
              "C11_grammar_simulation_partial, C11_grammar_ws_invariant_partial); "
              "sentences of items and arrays of items without a range tail directly after an array: C10_mixed_reads_partial.")
LEVEL_NOTE = "See notes/C11.md (fragment limits, known finding range-after-array)."
