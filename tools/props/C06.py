"""C06 plug-in: ThreadLink is a lossless FIFO between two threads under every
interleaving.  (Plug-in interface: see tools/props/C17.py.)

Case lines (harness/h_C06.cpp and ocaml/C06/driver.ml read the same lines):

  ring <N> <MM> <wscript> <rscript> <sched> <stream>
     wscript  r<hex> raw_write | a<hex> writeArray | v<hex> write, comma separated
     rscript  h0 h1  hasNext / hasNextLookahead ; t0 t1  if(hasNext(la)) read(la)
     sched    W R  one hook-level step of writer / reader (a hook = RTOSC_VERIF_POINT
              before a shared access); w r  run the thread's current operation to its
              end (sequential histories); after the schedule the writer, then the
              reader run to completion.
  soak <MM> <nmsg> <count> <seed>     free-running two-thread run (FIFO self-check)

The Spec oracle below is written from the property text and the meaning of the
hook ids only; it does not use the Coq model."""
import os, re

HARNESS = ["h_C06.cpp"]
VARIANT = "asan"
TIMEOUT = 900

RULE = ("two real threads on the real ThreadLink under a forced schedule. Rings ThreadLink(MM,n) with MM in "
        "{16,17,18,20,24,30,32,34,62}, n in 2..8 (N = MM*n <= 186, N mod 4 in {0,1,2,3} so messages wrap at every offset). "
        "Writer scripts: raw_write / writeArray / write of OSC messages (integer, string and BLOB arguments, blob contents any bytes) of every size 8..MM+12 (step 4) incl. longer "
        "than MaxMsg; stream wrapfield: on rings whose size is no multiple of 4 (30x3, 34x3, 62x3, 45x3, 17x3 ...) filler messages are written and read until the next "
        "message - a blob message or a bundle - starts where the ring's end falls 1..3 bytes into a blob's size field / its tag string / its address / a bundle "
        "element's size, sequentially and under hook-level schedules; reader scripts: hasNext, hasNextLookahead, guarded read, guarded read_lookahead. Streams: seq "
        "(operations in a random total order, sizes aimed at free space -4/0/+4), ilv (random hook-level schedules "
        "with bursts), pre (sequential prefix that fills/wraps the ring, then a hook-level schedule), dfs (every "
        "schedule prefix of a fixed length for short histories, then drain), soak (free-running). Non-trivial = the "
        "history has a wrap-around or a dropped write and, for hook-level schedules, at least 3 context switches.")
TRUSTED = ["harness/h_C06.cpp: hand-off semaphores force the schedule; the guarded hook RTOSC_VERIF_POINT and the "
           "accessor rtosc_verif_ring_peek in src/cpp/thread-link.cpp report the position and the indices",
           "meta-theorem: C++11 DRF-SC (a race-free program using only seq_cst atomics has interleaving semantics); "
           "race freedom of the plain buffer bytes is theorem C06_drf",
           "the hook stands before each memcpy, not inside it (byte granularity is covered by the model and C06_drf only)",
           "Section hypothesis frame_hd: frame (m ++ rest) = length m for well-formed m that is self-delimiting or "
           "has nothing behind it (discharged for the OSC length model: C06_frame_ok_osc, C06_fifo_osc_bundle_last)"]
ASSUMPTIONS = ["exactly one writer thread and one reader thread; reads are guarded by hasNext with the same lookahead flag",
               "messages are well-formed non-bundle OSC messages (a bundle followed by another message cannot be framed: "
               "finding bundle-not-last)",
               "compiler/hardware implement seq_cst atomics correctly"]

# ---------------------------------------------------------------------------
def pad4(b):
    return b + b"\0" * (4 - len(b) % 4)

def osc(path, tags, args):
    out = pad4(path) + pad4(b"," + tags.encode())
    for t, a in zip(tags, args):
        if t == "i":
            out += int(a & 0xffffffff).to_bytes(4, "big")
        elif t == "s":
            out += pad4(a)
        elif t == "b":
            out += len(a).to_bytes(4, "big") + a + b"\0" * (-len(a) % 4)
    return out

def make_msg(rng, size, ident):
    """an OSC message of exactly `size` bytes (size % 4 == 0, size >= 8)"""
    assert size % 4 == 0 and size >= 8
    shapes = ["", "i", "s", "ii", "si", "is", "b", "ib", "sb", "bi", "bb"]
    rng.shuffle(shapes)
    for tags in shapes:
        fixed = 4 * ((len(tags) + 1) // 4 + 1) + 4 * tags.count("i")
        nstr = tags.count("s") + tags.count("b")      # fields of variable length (a blob: size word + padded data)
        rest = size - fixed            # address field + string fields
        if rest < 4 * (1 + nstr):
            continue
        # split rest into 1+nstr fields, each a positive multiple of 4
        units = rest // 4
        cuts = [1] * (1 + nstr)
        for _ in range(units - (1 + nstr)):
            cuts[rng.randrange(1 + nstr)] += 1
        def text(nbytes, first):
            # nbytes field -> string length in [nbytes-4, nbytes-1]
            ln = max(1 if first else 0, nbytes - rng.choice([1, 2, 3, 4]))
            ln = min(ln, nbytes - 1)
            s = bytes(rng.choice(b"abcdefghijklmnopqrstuvwxyz0123456789") for _ in range(ln))
            return s
        addr = text(cuts[0], True)
        addr = b"/" + addr[1:] if addr else b"/"
        if len(addr) >= 2:
            addr = addr[:1] + bytes([97 + ident % 26]) + addr[2:]
        args, k = [], 1
        for t in tags:
            if t == "i":
                args.append(rng.choice([0, 1, ident, 0x7fffffff, 0x2f616263, rng.getrandbits(31)]))
            elif t == "b":
                args.append(blob_data(rng, 4 * cuts[k] - 4)); k += 1
            else:
                args.append(text(cuts[k], False)); k += 1
        m = osc(addr, tags, args)
        if len(m) == size:
            return m, tags
    return osc(b"/" + b"x" * (size - 8 - 1 if size > 8 else 0), "", [])[:size], ""

def blob_data(rng, room):
    """blob contents whose padded length is `room` (a multiple of 4): any bytes, also 0, ',' '#' '/' and 0xff"""
    ln = room if room == 0 else room - rng.choice([0, 0, 1, 2, 3])
    return bytes(rng.choice(b"\0\0\x01,#/bz\x7f\x80\xff") for _ in range(ln))

def bundle(msgs):
    out = b"#bundle\0" + (1).to_bytes(8, "big")
    for m in msgs:
        out += len(m).to_bytes(4, "big") + m
    return out

RINGS = [(16, 2), (16, 3), (16, 4), (17, 3), (17, 5), (18, 3), (18, 4), (20, 2), (20, 5),
         (24, 3), (24, 4), (32, 2), (32, 3), (32, 4), (16, 8), (20, 8), (30, 3), (34, 3), (62, 2)]
# rings whose size is no multiple of 4: only there a 4-byte field of a message can straddle the ring's end
WRAP_RINGS = [(30, 3), (34, 3), (17, 3), (17, 5), (18, 3), (22, 5), (26, 3), (33, 2), (35, 3), (37, 3), (38, 3), (41, 3), (45, 3), (62, 3)]
assert all((mm * n) % 4 for mm, n in WRAP_RINGS)

def field_msg(rng, MM, ident):
    """a message of at most MM bytes with a blob argument (or a one/two element bundle) and the offsets of the
    fields whose bytes the ring reader looks at: -> (bytes, {kind: [offsets]}, is_bundle)"""
    lim = (MM // 4) * 4
    def plain(room, tagsets):
        for _ in range(40):
            tags = rng.choice(tagsets)
            addr = b"/" + bytes([97 + ident % 26]) + bytes(rng.choice(b"abcxyz019") for _ in range(rng.randint(0, 5)))
            args = []
            for t in tags:
                if t == "i":
                    args.append(rng.choice([0, 1, 0x7fffffff, 0x2f616263, rng.getrandbits(31)]))
                elif t == "s":
                    args.append(bytes(rng.choice(b"abcxyz") for _ in range(rng.randint(0, 6))))
                else:
                    args.append(blob_data(rng, 4 * rng.randint(0, max(0, (room - 16) // 4))))
            m = osc(addr, tags, args)
            if len(m) <= room:
                offs = {"address": [0], "tag-string": [len(pad4(addr))], "blob-size": []}
                pos = len(pad4(addr)) + len(pad4(b"," + tags.encode()))
                for t, a in zip(tags, args):
                    if t == "b":
                        offs["blob-size"].append(pos)
                    pos += 4 if t == "i" else len(pad4(a)) if t == "s" else 4 + len(a) + (-len(a) % 4)
                return m, offs
        m = osc(b"/" + bytes([97 + ident % 26]), "b", [b""])
        return m, {"address": [0], "tag-string": [4], "blob-size": [8]}
    if lim >= 36 and rng.random() < 0.3:
        # a bundle (it stays the last message of the history: see finding bundle-not-last)
        e1, _ = plain(min(lim - 20, 24) if lim >= 48 and rng.random() < 0.5 else lim - 20, ["", "i", "b", "s"])
        elems, offs, pos = [e1], {"bundle-element-size": [16]}, 16 + 4 + len(e1)
        if lim - pos - 4 >= 8:
            e2, _ = plain(lim - pos - 4, ["", "i", "b"])
            elems.append(e2); offs["bundle-element-size"].append(pos)
        return bundle(elems), offs, True
    m, offs = plain(lim, ["b", "b", "ib", "sb", "bi", "bb", "bs", "sbi"])
    return m, offs, False

def gen_wrapfield(rng, dist, hook_level):
    """a history that moves both indices round a ring whose size is no multiple of 4 until the next message
    starts where the ring's end falls INSIDE one of its fields (1..3 bytes of the field in front of the end):
    a blob's 32-bit size, the type tag string, the address, a bundle element's size.  Every filler message is
    read before the next is written; the aimed message is followed by one more message (unless it is a bundle)."""
    MM, n = rng.choice(WRAP_RINGS); N = MM * n
    lim = (MM // 4) * 4
    ws, rs, P = [], [], 0
    for i in range(rng.randint(0, 3)):                     # somewhere on the first laps
        m, _ = make_msg(rng, 4 * rng.randint(2, lim // 4), i)
        ws.append(wop_str(rng.choice("rra"), m)); rs.append("t0"); P += len(m)
    B, offs, isb = field_msg(rng, MM, len(ws))
    kind = rng.choice([k for k in offs if offs[k]])
    fo = rng.choice(offs[kind])
    cands = [D for D in range(0, 4 * N + 8, 4) if D != 4 and (P + D + fo) % N in (N - 3, N - 2, N - 1)]
    if not cands:
        return None
    D = rng.choice(cands[:4])
    split = (P + D + fo) % N
    while D > 0:
        size = min(lim, D)
        if D - size == 4:
            size -= 4
        m, _ = make_msg(rng, size, len(ws))
        ws.append(wop_str(rng.choice("rra"), m)); rs.append("t0"); D -= size
    k = len(ws)
    ws.append(wop_str(rng.choice("ra") if not isb else "r", B))
    rs += rng.choice([["t0"], ["t1", "t0"], ["h0", "t0"], ["h1", "t1", "t0"]])
    if not isb and rng.random() < 0.7:
        m, _ = make_msg(rng, 4 * rng.randint(2, min(lim, N - 1 - len(B)) // 4), k + 1)
        ws.append(wop_str(rng.choice("rra"), m)); rs += ["t0"]
    rs += ["h0", "h1"]
    sched = "wr" * k
    if hook_level:
        sched += ilv_sched(rng, rng.randint(4, 90))
    else:
        sched += "w" * (len(ws) - k) + "r" * (len(rs) - k)
    kk = "wrapfield:%s-straddles-the-ring-end" % kind
    dist[kk] = dist.get(kk, 0) + 1
    kk = "wrapfield:%d-bytes-of-the-field-in-front-of-the-end" % (N - split)
    dist[kk] = dist.get(kk, 0) + 1
    return line(N, MM, ws, rs, sched, "wrapfield")

def wop_str(kind, m):
    return kind + m.hex()

def known_classes():
    p = os.path.join(os.path.dirname(os.path.dirname(os.path.dirname(os.path.abspath(__file__)))), "known-findings.txt")
    out = set()
    if os.path.exists(p):
        for line in open(p):
            m = re.match(r"finding:\s+property=C06\s+class=(\S+)", line.strip())
            if m:
                out.add(m.group(1))
    return out

def gen_history(rng, N, MM, nw, nr, bundles_ok):
    """writer/reader scripts; sizes aimed at the free space and MaxMsg"""
    ws, rs = [], []
    occ = 0
    for i in range(nw):
        free = N - 1 - occ
        r = rng.random()
        if r < 0.25:
            size = (free // 4) * 4 + rng.choice([-4, 0, 0, 4])
        elif r < 0.40:
            size = (MM // 4) * 4 + rng.choice([-4, 0, 4, 8, 12])
        else:
            size = 4 * rng.randint(2, max(2, MM // 4))
        size = max(8, min(size, ((MM + 12) // 4) * 4))
        m, tags = make_msg(rng, size, i)
        kind = rng.choice("rrav") if tags in ("", "i", "s", "ii", "si", "is") else rng.choice("rra")
        if bundles_ok and rng.random() < 0.5 and size >= 28:
            inner, _ = make_msg(rng, size - 20, i)
            m, kind = bundle([inner]), "r"
        ws.append(wop_str(kind, m))
        if len(m) <= MM and len(m) <= free:
            occ += len(m)
        if rng.random() < 0.4 and occ:
            occ = max(0, occ - rng.choice([8, 12, 16, 20]))
    for i in range(nr):
        rs.append(rng.choice(["h0", "h1", "t0", "t0", "t0", "t1", "t1"]))
    return ws, rs

def seq_sched(rng, nw, nr):
    s = ["w"] * nw + ["r"] * nr
    # biased shuffles: runs of writes (fill) then reads, or plain random
    mode = rng.random()
    if mode < 0.5:
        rng.shuffle(s)
    else:
        out, w, r = [], nw, nr
        while w or r:
            burst = rng.randint(1, 5)
            if (rng.random() < 0.55 and w) or not r:
                k = min(burst, w); out += ["w"] * k; w -= k
            else:
                k = min(burst, r); out += ["r"] * k; r -= k
        s = out
    return "".join(s)

def ilv_sched(rng, n):
    out = []
    while len(out) < n:
        t = rng.choice("WR")
        out += [t] * rng.choice([1, 1, 1, 2, 3, 5, 8, 13])
    return "".join(out[:n])

def line(N, MM, ws, rs, sched, stream):
    return "ring %d %d %s %s %s %s" % (N, MM, ",".join(ws) or "-", ",".join(rs) or "-", sched or "-", stream)

def gen(rng, tier, dist):
    quick = tier == "quick"
    out = []
    def count(k, n=1):
        dist[k] = dist.get(k, 0) + n
    bundles_ok = "bundle-not-last" in known_classes()
    # (a) sequential histories
    for _ in range(1500 if quick else 80000):
        MM, n = rng.choice(RINGS); N = MM * n
        nw, nr = rng.randint(1, 14), rng.randint(0, 16)
        ws, rs = gen_history(rng, N, MM, nw, nr, bundles_ok and rng.random() < 0.05)
        out.append(line(N, MM, ws, rs, seq_sched(rng, nw, nr), "seq"))
        count("seq"); count("ring=%dx%d" % (MM, n))
    # (b) random hook-level schedules
    for _ in range(1500 if quick else 80000):
        MM, n = rng.choice(RINGS); N = MM * n
        nw, nr = rng.randint(1, 8), rng.randint(1, 10)
        ws, rs = gen_history(rng, N, MM, nw, nr, False)
        out.append(line(N, MM, ws, rs, ilv_sched(rng, rng.randint(4, 160)), "ilv"))
        count("ilv"); count("ring=%dx%d" % (MM, n))
    # (b') sequential prefix that fills / wraps the ring, then a hook-level schedule
    for _ in range(800 if quick else 40000):
        MM, n = rng.choice(RINGS[:10]); N = MM * n
        nw, nr = rng.randint(3, 10), rng.randint(2, 10)
        ws, rs = gen_history(rng, N, MM, nw, nr, False)
        k = rng.randint(1, nw - 1)
        pre = "w" * k + "r" * rng.randint(0, min(nr, k))
        out.append(line(N, MM, ws, rs, pre + ilv_sched(rng, rng.randint(4, 120)), "pre"))
        count("pre")
    # (b+) blob messages / bundles placed so that the ring's end falls inside a size field, the tag string,
    #      the address (rings whose size is no multiple of 4)
    for i in range(700 if quick else 40000):
        c = gen_wrapfield(rng, dist, i % 3 == 2)
        if c:
            out.append(c); count("wrapfield")
    # (b'') every schedule prefix of a fixed length for short histories
    hists = 1 if quick else 10
    depth = 9 if quick else 14
    for h in range(hists):
        MM, n = [(16, 2), (17, 3), (16, 3), (18, 3), (20, 2), (16, 2)][h % 6]; N = MM * n
        ws, rs = gen_history(rng, N, MM, 3, 3, False)
        rs = [rng.choice(["t0", "t0", "t1"]) for _ in rs]
        pre = rng.choice(["", "w", "wr", "ww"])
        for bits in range(1 << depth):
            sched = "".join("W" if (bits >> i) & 1 else "R" for i in range(depth))
            out.append(line(N, MM, ws, rs, pre + sched, "dfs"))
        count("dfs", 1 << depth)
    # (c) free-running soak under ASan (the TSan build runs the same lines in thorough, see pre_build)
    for i in range(2 if quick else 8):
        out.append("soak %d %d %d %d" % (rng.choice([24, 32, 40]), rng.choice([2, 3, 4]),
                                         3000 if quick else 100000, rng.getrandbits(24)))
        count("soak")
    return out

# ---------------------------------------------------------------------------
def canon(case, ln):
    if case.startswith("soak"):
        return "soak ok" if ln.startswith("soak ok") else ln
    return ln

def parse_out(ln):
    d = {}
    for f in ln.split(" "):
        if "=" not in f:
            return None
        k, v = f.split("=", 1)
        d[k] = v
    if not all(k in d for k in ("ev", "wo", "ro", "fin")):
        return None
    return d


def fnv(b):
    h = 2166136261
    for x in b:
        h = ((h ^ x) * 16777619) & 0xffffffff
    return h

class _Shape(Exception):
    """the event trace cannot be read as a sequence of operations: the linearisation
    points the oracle needs (ids 1, 4, 11, 16/17) are not where program order puts
    them.  The property says nothing about hook ids, so this is no Spec failure; the
    model/implementation tie compares the full event trace and reports it."""

def spec_check(case, impl):
    try:
        return _judge(case, impl, False)
    except _Shape:
        return None

def is_bundle(m):
    return m.startswith(b"#bundle\0")

def _judge(case, impl, wedge):
    """wedge=False: the Spec.  wedge=True: the Spec with the behaviour finding
    bundle-not-last describes put in its place - a read whose target message is a
    bundle that is followed, at the read's own load of write, by another published
    message returns nothing and consumes nothing (a normal read still resets the
    lookahead position); everything else (drops, free space,
    hasNext, the other messages, final indices and buffer) is judged as before.
    classify() uses it to make sure the finding explains the WHOLE trace."""
    f = case.split(" ")
    if f[0] == "soak":
        return None if impl.startswith("soak ok") else "soak: free-running FIFO self-check failed: " + impl[:200]
    if impl.startswith("CRASH") or impl == "NOOUT" or impl.startswith("HANG"):
        return "crash: " + impl[:300]
    d = parse_out(impl)
    if d is None:
        return "format: unreadable harness output " + impl[:100]
    N, MM = int(f[1]), int(f[2])
    wops = [] if f[3] == "-" else [(o[0], bytes.fromhex(o[1:])) for o in f[3].split(",")]
    rops = [] if f[4] == "-" else f[4].split(",")
    evs = []
    if d["ev"] != "-":
        for e in d["ev"].rstrip(";").split(";"):
            m = re.match(r"([WR])(\d+):(-?\d+),(-?\d+),(-?\d+),([0-9a-f]{8})$", e)
            if not m:
                return "format: event " + e
            evs.append((m.group(1), int(m.group(2)), int(m.group(3)), int(m.group(4)), int(m.group(5)), m.group(6)))
    wo = [] if d["wo"] == "-" else d["wo"].split(",")
    ro = [] if d["ro"] == "-" else d["ro"].split(",")
    fin = d["fin"].split(",")
    fw, fr, frl, fbuf = int(fin[0]), int(fin[1]), int(fin[2]), (b"" if fin[3] == "-" else bytes.fromhex(fin[3]))
    if len(wo) != len(wops):
        return "format: %d writer results for %d writes" % (len(wo), len(wops))
    wev = [(i, e) for i, e in enumerate(evs) if e[0] == "W"]
    rev = [(i, e) for i, e in enumerate(evs) if e[0] == "R"]
    # ---- reader: pair events and outputs with the script (program order) ----
    # times (global event index) of: each store of read (id 17), each hasNext's load of write
    consumed_at = []          # event index of the k-th normal read's store of read
    rpos = 0
    ri = 0
    rlog = []                 # (kind, la, value, event index of the linearisation point)
    for op in rops:
        la = op[1] == "1"
        if rpos + 2 > len(rev) or [rev[rpos][1][1], rev[rpos + 1][1][1]] != [1, 2]:
            raise _Shape("hasNext is not (load write, load read) in the event trace")
        t_has = rev[rpos][0]
        rpos += 2
        if ri >= len(ro) or not re.match(r"H[01]:[01]$", ro[ri]) or (ro[ri][1] == "1") != la:
            return "format: reader output %d is not the hasNext answer" % ri
        b = ro[ri][3] == "1"
        ri += 1
        rlog.append(("H", la, b, t_has, t_has))
        if op[0] == "t" and b:
            # the read: from its own load of write (id 1) to the store of the index
            # (id 16 lookahead / 17 normal); what lies between is not the oracle's business
            if rpos >= len(rev) or rev[rpos][1][1] != 1:
                raise _Shape("read does not start with the load of write")
            t_vec = rev[rpos][0]
            while rpos < len(rev) and rev[rpos][1][1] not in (16, 17):
                rpos += 1
            if rpos >= len(rev) or rev[rpos][1][1] != (16 if la else 17):
                raise _Shape("read does not end with the store of its index")
            t_store = rev[rpos][0]
            rpos += 1
            if ri >= len(ro) or not ro[ri].startswith("R%d:" % (1 if la else 0)):
                return "format: reader output %d is not the read result" % ri
            data = ro[ri][3:]
            ri += 1
            rlog.append(("R", la, b"" if data == "-" else bytes.fromhex(data), t_store, t_vec))
            # a read that returned nothing took nothing out of the queue (it is judged
            # below); for the writer's free space only real consumptions count
            if not la and data != "-":
                consumed_at.append(t_store)
    if rpos != len(rev) or ri != len(ro):
        raise _Shape("reader events/outputs left over")
    # ---- writer: decide every write from the abstract queue --------------------
    # free space at the moment the writer loads read (event id 4)
    acc = []                  # accepted messages, in order
    pub_at = []               # event index of their publishing store (id 11)
    # sizes of the messages the reader consumed, in order, are those of acc (FIFO, checked below)
    wpos = 0
    drops = []
    for k, (kind, m) in enumerate(wops):
        ln = len(m)
        if kind == "r" and ln > MM:
            if wo[k] != "D":
                return "drop-maxmsg: raw_write of %d bytes > MaxMsg %d was queued" % (ln, MM)
            drops.append((k, None)); continue
        if kind != "r" and ln > MM:
            ln = 0            # the encoder reports 0: nothing to queue
        if wpos + 2 > len(wev) or [wev[wpos][1][1], wev[wpos + 1][1][1]] != [3, 4]:
            raise _Shape("write %d does not start with ring_write_size (load write, load read)" % k)
        t_dec = wev[wpos + 1][0]
        h0 = wev[wpos][1][5]
        first = wpos
        wpos += 2
        ncons = sum(1 for t in consumed_at if t < t_dec)
        if ncons > len(acc):
            return "fifo: %d messages consumed but only %d accepted" % (ncons, len(acc))
        occ = sum(len(x) for x in acc[ncons:])
        fits = ln <= N - 1 - occ
        if not fits:
            if wo[k] != "D":
                return "drop-nofit: write %d of %d bytes was queued with %d bytes free" % (k, ln, N - 1 - occ)
            drops.append((k, first)); continue
        # up to the publishing store (id 11); a write that never gets there was dropped
        while wpos < len(wev) and wev[wpos][1][1] not in (11, 3):
            wpos += 1
        if wpos >= len(wev) or wev[wpos][1][1] != 11:
            if wo[k] == "D":
                return "lost: write %d of %d bytes fits (%d free, MaxMsg %d) but was dropped" % (k, ln, N - 1 - occ, MM)
            raise _Shape("write %d was accepted without a publishing store" % k)
        t_pub = wev[wpos][0]
        wpos += 1
        if ln == 0:
            if wo[k] != "D":
                return "drop-maxmsg: write of %d bytes > MaxMsg %d changed the write index" % (len(m), MM)
            drops.append((k, first)); continue
        if wo[k] != "A":
            return "lost: write %d of %d bytes fits (%d free, MaxMsg %d) but was dropped" % (k, ln, N - 1 - occ, MM)
        acc.append(m); pub_at.append(t_pub)
    if wpos != len(wev):
        raise _Shape("writer events left over")
    # a dropped write disturbs nothing: the buffer is the same at its first event and at the writer's next operation
    starts = [i for i, (_, e) in enumerate(wev) if e[1] == 3]
    for k, first in drops:
        if first is None:
            continue
        nxt = [i for i in starts if i > first]
        hb = wev[first][1][5]
        ha = wev[nxt[0]][1][5] if nxt else "%08x" % fnv(fbuf)
        wb = wev[first][1][2]
        wa = wev[nxt[0]][1][2] if nxt else fw
        if hb != ha or wb != wa:
            return "drop-disturbs: dropped write %d changed the buffer or the write index" % k
    # ---- FIFO, lookahead, hasNext ---------------------------------------------
    c = p = 0
    for kind, la, val, t, t0 in rlog:
        npub = sum(1 for x in pub_at if x < t)
        if kind == "H":
            avail = npub - c - (p if la else 0)
            if val != (avail > 0):
                return ("hasnext: hasNext%s answered %d with %d published, %d consumed, %d looked ahead"
                        % ("Lookahead" if la else "", val, npub, c, p))
        else:
            idx = c + p if la else c
            if idx >= len(acc):
                return "fifo: read returned a message but only %d were accepted" % len(acc)
            if val == b"":
                # guarded by a hasNext that answered 1, so a message was due
                if wedge and is_bundle(acc[idx]) and sum(1 for x in pub_at if x < t0) > idx + 1:
                    if not la:
                        p = 0         # read_lookahead = read = read + 0
                    continue          # the finding: nothing returned, nothing consumed
                return "fifo: %s read %d returned nothing, expected message %d = %s" % (
                    "lookahead" if la else "normal", idx, idx, acc[idx].hex())
            if val != acc[idx]:
                kindtxt = "torn/foreign" if val not in acc else "out of order/duplicated"
                return "fifo: %s read %d returned %s, expected message %d = %s (%s)" % (
                    "lookahead" if la else "normal", idx, val.hex(), idx, acc[idx].hex(), kindtxt)
            if pub_at[idx] > t:
                return "fifo: message %d returned before it was published" % idx
            if la:
                p += 1
            else:
                c += 1; p = 0
    # ---- final state: nothing lost, nothing disturbed ----------------------------
    W = sum(len(x) for x in acc)
    R = sum(len(x) for x in acc[:c])
    RL = sum(len(x) for x in acc[:c + p])
    if (fw, fr, frl) != (W % N, R % N, RL % N):
        return "final: indices (%d,%d,%d), the history gives (%d,%d,%d)" % (fw, fr, frl, W % N, R % N, RL % N)
    if len(fbuf) != N:
        return "final: buffer has %d bytes" % len(fbuf)
    pending = b"".join(acc[c:])
    got = bytes(fbuf[(R + i) % N] for i in range(len(pending)))
    if got != pending:
        return "lost: the queued bytes are %s, the unread messages are %s" % (got.hex(), pending.hex())
    if d.get("err", "0") != "0":
        return "oob: out-of-bounds access reported"
    return None

def nontrivial(case, impl):
    f = case.split(" ")
    if f[0] != "ring":
        return True
    d = parse_out(impl)
    if d is None:
        return False
    N = int(f[1])
    drop = "D" in d["wo"]
    total = sum(len(o) // 2 for o, a in zip(f[3].split(","), d["wo"].split(",")) if a == "A") if f[3] != "-" else 0
    wrap = total >= N
    if f[5].islower():
        return drop or wrap
    sw = sum(1 for a, b in zip(f[5], f[5][1:]) if a != b)
    return (drop or wrap) and sw >= 3

def is_bundle_not_last(case):
    f = case.split(" ")
    if f[0] != "ring" or f[3] == "-":
        return False
    ws = f[3].split(",")
    return any(bytes.fromhex(o[1:]).startswith(b"#bundle\0") for o in ws[:-1])

def classify(case, impl, failure):
    """bundle-not-last = the signature of the finding and nothing else: a guarded
    read (or lookahead read) returned nothing where a bundle was due that another
    published message follows, and with exactly that behaviour granted (_judge with
    wedge=True) the rest of the trace satisfies the Spec.  A crash, a wrong drop
    decision, a disturbed buffer, wrong final indices, an out-of-bounds report, a
    wrong hasNext answer or a wrong non-empty message in the same case are never
    excused."""
    if not re.match(r"fifo: (normal|lookahead) read \d+ returned nothing", failure):
        return None
    if not is_bundle_not_last(case):
        return None
    try:
        rest = _judge(case, impl, True)
    except _Shape:
        return None
    return "bundle-not-last" if rest is None else None

# ---------------------------------------------------------------------------
def pre_build(ctx):
    """thorough tier: the same harness built with ThreadSanitizer runs free-running
    soaks and a sample of forced schedules; any race report fails the check."""
    if ctx["tier"] != "thorough":
        return
    import random, subprocess
    exe = ctx["build_harness"]("C06tsan", HARNESS, "tsan", ctx["log"])
    rng = random.Random(ctx["seed"] * 31 + 5)
    lines = ["soak %d %d %d %d" % (mm, n, 1500000, rng.getrandbits(24))
             for mm, n in [(24, 2), (32, 3), (40, 4), (24, 4), (32, 2), (64, 2)]]
    env = dict(os.environ)
    env["TSAN_OPTIONS"] = "halt_on_error=1:exitcode=66"
    outs = ctx["run_lines"](exe, lines, shards=len(lines), timeout=600, env=env)
    bad = [(l, o) for l, o in zip(lines, outs) if not o.startswith("soak ok")]
    ctx["log"]("tsan soak: %d runs, %d bad" % (len(lines), len(bad)))
    EXTRA["tsan_soak"] = {"runs": len(lines), "bad": len(bad), "outputs": outs}
    if bad:
        raise ctx["BuildError"]("ThreadSanitizer soak failed: %s -> %s" % bad[0])

EXTRA = {}
def extra_evidence(ctx):
    return dict(EXTRA)

TECHNIQUE = ("Coq proof of an inductive invariant of a two-thread small-step model whose steps are the individual shared "
             "accesses (ghost virtual counters and abstract queue) + forced-schedule differential correspondence against "
             "the real ThreadLink on two real threads through guarded hooks + TSan soak")
LEVEL_TEXT = ("For every ring size, every writer/reader script of well-formed messages and every schedule (unbounded) the "
              "model's reads are exactly the accepted messages in order, hasNext is the abstract emptiness test at its "
              "load of write, dropped writes change nothing, lookahead reads do not consume, the plain buffer accesses of "
              "the two threads never conflict. The model is tied to the code on every run: same schedule on two real "
              "threads, every event (hook id, indices, buffer hash), every result and the final buffer compared. "
              "With the OSC framing function: proved for scripts of well-formed non-bundle messages "
              "(C06_fifo_osc_partial) and for scripts whose only bundle is the last message (C06_fifo_osc_bundle_last); "
              "a bundle followed by another message wedges the queue (C06_bundle_not_last_refuted, finding "
              "bundle-not-last; the classifier accepts only that signature - an empty guarded read of such a bundle, "
              "the rest of the trace judged with that behaviour granted).")
LEVEL_NOTE = ("Trusted: Coq kernel, extraction, OCaml driver, harness/scheduler, generator, DRF-SC meta-theorem. The framing "
              "hypothesis is discharged for the OSC length model (C06_frame_ok_osc, C06_fifo_osc_bundle_last); the order "
              "of hook ids inside an operation is compared by the tie only (the Spec oracle needs ids 1, 4, 11, 16/17).")
