"""C03 plug-in: Realtime safety - the message path never allocates, never locks.

The Coq model is GCC's call graph, regenerated from $VERIF_REPO on every run
(pre_proofs -> tools/callgraph.py -> coq/RtGraph/Graph_gen.v).  The dynamic
harness (harness/h_C03.cpp) interposes the allocator and pthread_mutex_lock
and drives every RT entry point; it validates the indirect-call table of the
translator and is the search for a concrete failing input when the graph
theorem breaks.  Interface: see tools/props/C17.py."""
import os, sys, json, struct, re
sys.path.insert(0, os.path.dirname(os.path.dirname(os.path.abspath(__file__))))
import callgraph

HARNESS = ["h_C03.cpp", "h_C03_sugar.cpp"]
VARIANT = "plain"          # the interposed allocator conflicts with ASan
HARNESS_LIBS = ["-ldl"]
TIMEOUT = 900

RULE = ("streams: msg (OSC messages with every value tag ifsbhtdScrmTFNI, 0..12 arguments, address lengths of every "
        "residue mod 4; measured, validated, read argument by argument and by iterator, rebuilt with rtosc_amessage / "
        "rtosc_avmessage / rtosc_message into capacities 0, len-1, len, len+1 and larger, bundled, bundle read back, "
        "length taken through a two-segment ring at every 4th cut); match (port-name patterns incl. '#N', '{a,b}', "
        "'*', argument restrictors, against matching and non-matching messages); reply (RtData and the capturing "
        "subclass, reply/broadcast/chain va-forms with payloads up to 9000 bytes, i.e. beyond the 8192-byte stack "
        "buffer); disp (Ports::dispatch, twice per case, with no loc / loc / loc of size 0, base_dispatch on and "
        "off, plain and capturing RtData, through (a0) a ClonePorts table with a \"*\" default handler, (a) the static sugar tree Root/Mid/Leaf that instantiates every "
        "port-sugar callback macro and (b) generated trees of 1..4 tables with 1..12 ports each: hashed (no '#'), "
        "enumerated ('#N' names), colliding names that defeat the perfect hash, nested via a recursion callback, "
        "with replying / silent / no default handler; messages addressed to an existing port with each accepted "
        "argument list (in and out of range), with wrong argument types, with every tag, to enumerated indices "
        "inside and outside the range, to absent ports, to prefixes and extensions of names, to deep absent paths); "
        "link (ThreadLink of 32..1024 x 2..8 bytes, random op sequences of raw_write / write / writeArray / read / "
        "read_lookahead / hasNext / hasNextLookahead / peak, simulated in the generator so that empty, partly "
        "filled, wrapped and full rings and oversized writes all occur; in 30 % of the cases every write is followed "
        "by reads / look-aheads, so that the ring is read in the state the write left, wrapped included); the varargs "
        "builders (rtosc_message, ThreadLink::write, RtData::reply / broadcast) also with 32, 33, 40 and 80 "
        "value-carrying arguments, measuring only and into too small buffers; bundles built IN PLACE (msg stream, 3 per "
        "case: the element lies at the destination, in its header, where it will land, behind the result, flush with "
        "the end, across the end, across the start, adjacent before / after; one or two elements, the second outside "
        "or inside as well; destination exact, larger, too small); hist (histories of 2..8 messages dispatched one "
        "after the other on ONE object of the static tree, of Leaf::ports, of the ClonePorts table or of a generated "
        "tree, 70 % of the steps on one focus port, weighted towards the rString ports (16- and 48-byte fields, values "
        "of 0..200 characters), the option ports (integer, char, known symbol, unknown symbols of 0..300 characters "
        "with '_' and blanks) and the array ports (other elements of the same array); read-backs; wrong argument "
        "types; addresses of up to 400 characters and 60 levels that match nothing below the rRecur* ports; with "
        "location tracking through the nested tables).  Non-trivial = the RT section did real "
        "work: a callback replied or broadcast, a port matched, a message was rebuilt or a ring read returned a "
        "message.")
TRUSTED = ["the C03 translator: g++ 12.2 -O2 -g -DNDEBUG -fcallgraph-info (.ci files), tools/callgraph.py, its "
           "indirect-call table (rules FN and VIRT), the C1->C2 constructor alias rule and the excluded abort-only edges "
           "(__throw_bad_function_call, __stack_chk_fail, __assert_fail, abort).  Reduced on every run by three cross-checks "
           "against the object code (objdump): every call / tail-jump instruction of every function reachable from an RT "
           "entry is an edge of the graph and no function has more indirect call instructions than the graph has "
           "indirect edges for it; every entry of the compiled vtables of rtosc::RtData and c03::CaptureData is a target of "
           "rule VIRT; the analysed objects are instruction-identical to the objects the dynamic harness links.  And by a "
           "source check: every callback macro of port-sugar.h is expanded in h_C03_sugar.cpp",
           "harness/h_C03.cpp: malloc/calloc/realloc/free/memalign/aligned_alloc/posix_memalign, operator new/delete "
           "(all forms) and pthread_mutex_lock/trylock are defined in the executable and counted while a thread-local "
           "flag is set; harness/h_C03_sugar.cpp instantiates every port-sugar callback macro once (the same source is "
           "analysed statically and driven dynamically)",
           "vm_compute (the reachability checks on the regenerated graph)"]
ASSUMPTIONS = ["user callbacks are outside the claim (the property text: 'assuming callbacks are RT safe'); the callbacks "
               "considered are the port-sugar macros' lambdas and the harness glue in h_C03_sugar.cpp",
               "every Port::cb / default_handler reached by dispatch is non-empty (else std::function throws "
               "bad_function_call, which allocates): the edge to __throw_bad_function_call is excluded under this precondition",
               "libc leaf functions reached (memcpy memset strlen strcmp strncmp strchr strrchr strstr strncpy strtol "
               "strtod __ctype_b_loc) are assumed not to allocate or lock; glibc's strtod can allocate for inputs of "
               "thousands of digits, which rMap(min/max) metadata never contains",
               "stack use (VLAs in rtosc_vmessage/rtosc_avmessage, the 8192-byte reply buffers) is not heap allocation and is not bounded here"]

VALUE_TAGS = "ifsbhtdScrmTFNI"

# ---------------------------------------------------------------------------
# a small OSC encoder (the generator knows every length it produces)
def pad4z(b):
    return b + b"\0" * (4 - len(b) % 4)

def enc_arg(t, v):
    if t in "icr":  return struct.pack(">i", v)
    if t == "f":    return struct.pack(">f", v)
    if t in "ht":   return struct.pack(">q", v)
    if t == "d":    return struct.pack(">d", v)
    if t == "m":    return bytes(v)
    if t in "sS":   return pad4z(v)
    if t == "b":    return struct.pack(">i", len(v)) + v + b"\0" * ((4 - len(v) % 4) % 4)
    return b""

def enc_msg(addr, tags, vals):
    out = pad4z(addr) + pad4z(b"," + tags.encode())
    k = 0
    for t in tags:
        if t in "TFNI":
            continue
        out += enc_arg(t, vals[k]); k += 1
    return out

def rnd_val(rng, t):
    if t in "icr":  return rng.choice([0, 1, -1, 127, 128, 2**31 - 1, -2**31, rng.randint(-1000, 1000)])
    if t == "f":    return rng.choice([0.0, 1.0, -1.5, 1e30, 0.25, float(rng.randint(-200, 200))])
    if t in "ht":   return rng.choice([0, 1, -1, 2**63 - 1, rng.randint(-10**12, 10**12)])
    if t == "d":    return rng.choice([0.0, 2.5, -1e300, float(rng.randint(-5, 5))])
    if t == "m":    return [rng.randint(0, 255) for _ in range(4)]
    # now and then an argument that alone is larger than RtData's 8192-byte reply buffer
    if t in "sS":   return bytes(rng.choice(b"abcxyz019_") for _ in range(rng.choice([0, 1, 2, 3, 4, 5, 7, 8, 17] * 6 + [9000])))
    if t == "b":    return bytes(rng.randint(0, 255) for _ in range(rng.choice([0, 1, 3, 4, 5, 8, 13] * 8 + [9000])))
    return None

def rnd_args(rng, tags):
    return [rnd_val(rng, t) for t in tags if t not in "TFNI"]

def rnd_msg(rng, addr, tags):
    return enc_msg(addr, tags, rnd_args(rng, tags))

def bump(dist, k, n=1):
    dist[k] = dist.get(k, 0) + n

# fixed variadic shapes of the harness (build_shape / ThreadLink::write)
SHAPES = {
    0: enc_msg(b"/w0", "", []),
    1: enc_msg(b"/write/one", "i", [42]),
    2: enc_msg(b"/w2", "sf", [b"a string argument", 2.5]),
    3: enc_msg(b"/w3", "b", [bytes(range(1, 9))]),
    4: enc_msg(b"/every/tag", "ifsbhtdScrmTFNI", [1, 2.0, b"s", bytes(range(1, 6)), 4, 5, 6.0, b"S", 99, 0x11223344, [0x90, 0x3c, 0x7f, 0]]),
    # more than 32 value-carrying arguments (MANY33 / MANY32 / MANY40 / MANY80 of the harness): the varargs
    # interface converts the va_list into an array sized by the type string
    5: enc_msg(b"/w33", "i" * 33, list(range(1, 9)) * 4 + [9]),
    6: enc_msg(b"/w32", "i" * 32, list(range(1, 9)) * 4),
    7: enc_msg(b"/w40", "i" * 16 + "TF" + "i" * 24, list(range(1, 9)) * 5),
    8: enc_msg(b"/w80", "isfd" * 20, [7, b"str", 1.5, 2.5] * 20),
}

# ---------------------------------------------------------------------------
# mirror of c03::Leaf::ports (harness/h_C03_sugar.cpp): index, name stem, array?, argument alternatives
LEAF = [
    (0, "pc", False, ["", "c"]), (1, "pf", False, ["", "f"]), (2, "pi", False, ["", "i"]),
    (3, "pt", False, ["", "T", "F"]), (4, "po", False, ["", "i", "c", "S"]), (5, "pco", False, ["", "i", "c", "S"]),
    (6, "af", True, ["", "f"]), (7, "at", True, ["", "T", "F"]), (8, "ai", True, ["", "i"]),
    (9, "ao", True, ["", "i", "c", "S"]), (10, "am", True, ["", "T", "F"]), (11, "bl", True, ["", "i"]),
    (12, "bl", False, [""]), (13, "str", False, ["", "s"]), (14, "act", False, [""]), (15, "acti", False, ["i"]),
    (16, "is_on", False, [""]), (17, "self", False, [""]), (18, "dummy", False, None), (19, "cross", False, [""]),
    (20, "lstr", False, ["", "s"]),
]
def argspec(alts):
    if alts is None:
        return ""
    if alts == [""]:
        return ":"
    return ":" + "".join(":" + a for a in alts)   # "::i:c:S"

OPTS = {4: [b"red", b"blue", b"green", b"teal"], 5: [b"one", b"two", b"three"], 9: [b"x", b"y", b"z"]}
# symbols that are no option of any port: short ones and ones beyond std::string's 15-byte in-place buffer,
# spelled with '_' and with blanks (a lookup that normalises the spelling has to copy the value)
NO_OPTS = [b"nosuchoption", b"", b"r", b"redd", b"no_such_option_at_all", b"State Variable Filter",
           b"a_rather_long_symbol_that_is_no_option_of_this_port", b"red_blue_green_teal_", b"x" * 16, b"y" * 15, b"z" * 300]
STR_LENS = [0, 1, 2, 7, 14, 15, 16, 17, 31, 46, 47, 48, 49, 64, 200]
def rnd_str(rng, n=None):
    n = rng.choice(STR_LENS) if n is None else n
    return bytes(rng.choice(b"abcxyz019_ ") for _ in range(n))

def args_for(rng, leaf, kind):
    """(tags, vals) for a message to the given Leaf callback; kind: ok | wrong | all"""
    idx, stem, arr, alts = leaf
    # rtosc_match_args accepts any argument list that *starts with* the last
    # alternative of the port's restrictor, and rToggle/rOption/rArrayT echo the
    # incoming type string into data.broadcast with at most one value (a
    # memory-safety matter outside C03: such a message makes the real code read
    # a string pointer that was never passed).  Messages with unsuitable
    # arguments therefore start with a tag no alternative starts with.
    heads = set(a[0] for a in (alts or []) if a)
    free_tags = [t for t in VALUE_TAGS if t not in heads]
    if kind == "all":
        rest = rng.sample(VALUE_TAGS, len(VALUE_TAGS))
        tags = rng.choice(free_tags) + "".join(rest)
        return tags, rnd_args(rng, tags)
    if kind == "wrong" or alts is None:
        tags = rng.choice(free_tags) + "".join(rng.choice(VALUE_TAGS) for _ in range(rng.randint(0, 3)))
        return tags, rnd_args(rng, tags)
    t = rng.choice(alts)
    if t == "S" and idx in OPTS:
        v = rng.choice(OPTS[idx] + [rng.choice(NO_OPTS), rng.choice(NO_OPTS)])
        return t, [v]
    if t == "s" and stem in ("str", "lstr"):
        return t, [rnd_str(rng)]
    return t, rnd_args(rng, t)

# static sugar tree: (relative address from the root, leaf descriptor)
def static_paths(rng):
    mids = ["mid/"] + ["mids%d/" % i for i in range(2)]
    leafs = ["leaf/", "pleaf/"] + ["leaves%d/" % i for i in range(3)] + ["pleaves%d/" % i for i in range(3)]
    m = rng.choice(mids); l = rng.choice(leafs)
    leaf = rng.choice(LEAF)
    nm = leaf[1] + (str(rng.randint(0, 3)) if leaf[2] else "")
    return m + l + nm, leaf

def gen_cloned(rng, dist):
    """ClonePorts(Leaf::ports, {pc pf po str act, "*"}): hashed table with the library's default-handler idiom"""
    leafs = {l[1]: l for l in LEAF if not l[2]}
    r = rng.random()
    if r < 0.55:
        leaf = leafs[rng.choice(["pc", "pf", "po", "str", "act"])]
        path = leaf[1]
        tags, vals = args_for(rng, leaf, rng.choice(["ok", "ok", "ok", "wrong", "all"]))
        bump(dist, "disp-cloned-port")
    else:
        path = rng.choice(["nosuch", "p", "pcx", "pi", "pt", "", "pc/x", "stri", "zz/yy/xx", "a" * 40])
        tags = rng.choice(["", "i", "f", "s", "TFNI"]); vals = rnd_args(rng, tags)
        bump(dist, "disp-cloned-default-handler")
    base = rng.choice([0, 1])
    mode = rng.choice("LLZ") + str(base) + rng.choice("PCC")
    bump(dist, "disp-mode-" + mode[0] + mode[2])
    return "disp g=4,5,6 S2 %s %s" % (enc_msg((("/" if base else "") + path).encode(), tags, vals).hex(), mode)

def gen_static(rng, dist):
    r = rng.random()
    tree = rng.choice(["S0", "S0", "S0", "S1"])
    if r < 0.62:
        path, leaf = static_paths(rng)
        kind = rng.choice(["ok", "ok", "ok", "ok", "wrong", "all"])
        tags, vals = args_for(rng, leaf, kind)
        bump(dist, "disp-static-" + kind)
    elif r < 0.72:     # the ports of Mid / Root themselves
        path = rng.choice(["pf", "mid/pc", "mids1/pc", "mid/leaf", "mid", "mids0/leaf", "mid/pleaf/"])
        tags = rng.choice(["", "f", "c", "i"]); vals = rnd_args(rng, tags)
        bump(dist, "disp-static-inner")
    else:              # non-matching: absent names, out-of-range indices, truncated / extended names
        path, leaf = static_paths(rng)
        how = rng.choice(["absent", "index", "trunc", "ext", "deep", "empty"])
        if how == "absent":  path = path.rsplit("/", 1)[0] + "/" + rng.choice(["nosuch", "zz", "p", "pcc", "a"])
        elif how == "index": path = re.sub(r"\d", lambda m: str(rng.choice([4, 7, 9, 12])), path, count=1)
        elif how == "trunc": path = path[:rng.randint(0, len(path) - 1)]
        elif how == "ext":   path = path + rng.choice(["x", "/", "/x", "0", "#"])
        elif how == "deep":  path = path + "/" + "/".join(rng.choice(["a", "leaf", "mid", "pc"]) for _ in range(rng.randint(1, 6)))
        else:                path = ""
        tags = rng.choice(["", "i", "f", "T", "s"]); vals = rnd_args(rng, tags)
        bump(dist, "disp-static-nomatch-" + how)
    base = rng.choice([0, 1])
    addr = ("/" if base else "") + path
    # the sugar callbacks reply to data.loc: it has to be non-NULL (ports.h: "must also
    # contain the location if an answer is being expected"); Z = loc given, loc_size 0
    # selects dispatch's branch without location tracking
    mode = rng.choice("LLZ") + str(base) + rng.choice("PCC")
    bump(dist, "disp-mode-" + mode[0] + mode[2])
    return "disp g=4,5,6 %s %s %s" % (tree, enc_msg(addr.encode(), tags, vals).hex(), mode)

NAME_POOLS = [
    ["ab", "ba", "aa", "bb", "a", "b", "abc", "bca", "cab", "acb"],            # collisions: the perfect hash often fails
    ["volume", "pan", "freq", "q", "gain", "type", "enable", "mode", "detune", "phase", "rate", "depth", "mix"],
    ["p%d" % i for i in range(14)],
    ["x", "xx", "xxx", "xxxx", "y", "yy", "xy", "yx"],
    # longer than libstdc++'s 15-byte small-string buffer: a std::string copy of such a name allocates
    ["oscillator_frequency_coarse", "oscillator_frequency_fine", "filter_cutoff_frequency", "filter_resonance_amount",
     "envelope_attack_time_ms", "envelope_release_time_ms", "modulation_depth_percent", "global_output_volume_db"],
]

QUIET = (14, 15, 18)     # act, acti, dummy: callbacks that never touch data.loc

def gen_tree(rng, dist, quiet=False):
    """returns (spec, tables) ; tables[i] = list of (name-with-argspec, stem, leaf-or-None, subtable-or-None, K)"""
    nt = rng.choice([1, 1, 2, 2, 3, 4])
    tables, specs = [], []
    for i in range(nt):
        enumerated = rng.random() < 0.4
        # the array callbacks take their index from the first digit of the name:
        # stems of '#' ports are purely alphabetic
        pool = rng.choice([q for q in NAME_POOLS if not (enumerated and any(c.isdigit() for c in q[0]))])
        n = rng.choice([1, 2, 3, 4, 5, 6, 8, 12])
        stems = rng.sample(pool, min(n, len(pool)))
        ports = []
        for s in stems:
            if i + 1 < nt and rng.random() < (0.5 if not any(p[3] for p in ports) else 0.15):
                j = rng.randint(i + 1, nt - 1)
                if enumerated and rng.random() < 0.5:
                    K = rng.choice([2, 3, 10, 16])
                    ports.append((s + "#%d/" % K, s, None, j, K))
                else:
                    ports.append((s + "/", s, None, j, 0))
                continue
            if quiet:
                leaf = LEAF[rng.choice(QUIET)]
                K = rng.choice([0, 0, 2, 4]) if enumerated else 0
                ports.append((s + ("#%d" % K if K else "") + argspec(leaf[3]), s, leaf, None, K))
            elif enumerated and rng.random() < 0.6:
                leaf = rng.choice([l for l in LEAF if l[2]])
                K = rng.choice([1, 2, 3, 4])
                ports.append((s + "#%d" % K + argspec(leaf[3]), s, leaf, None, K))
            else:
                leaf = rng.choice([l for l in LEAF if not l[2]])
                ports.append((s + argspec(leaf[3]), s, leaf, None, 0))
        flag = rng.choice("--ss" if quiet else "--ds")
        tables.append((flag, ports))
        specs.append(flag + ":" + "|".join("%s.%s" % (p[0].encode().hex(), ("L%d" % p[2][0]) if p[2] else ("R%d" % p[3]))
                                         for p in ports))
        kind = "enumerated" if any("#" in p[0] for p in ports) else "hashed"
        bump(dist, "gen-table-" + kind)
        bump(dist, "gen-table-default-" + flag)
    bump(dist, "gen-tree-tables=%d" % nt)
    return "G" + ";".join(specs), tables

def gen_generated(rng, dist):
    quiet = rng.random() < 0.2      # trees that can be dispatched with d.loc == NULL
    spec, tables = gen_tree(rng, dist, quiet)
    # walk down to a port
    t, path, leaf = 0, "", None
    for _ in range(6):
        flag, ports = tables[t]
        p = rng.choice(ports)
        inst = p[1] + (str(rng.randint(0, p[4] - 1)) if p[4] else "")
        if p[3] is not None:
            path += inst + "/"; t = p[3]; continue
        path += inst; leaf = p[2]; break
    r = rng.random()
    if leaf is not None and r < 0.6:
        kind = rng.choice(["ok", "ok", "ok", "wrong", "all"])
        tags, vals = args_for(rng, leaf, kind)
        bump(dist, "disp-gen-" + kind)
    else:
        how = rng.choice(["absent", "index", "trunc", "ext", "deep"])
        if how == "absent":  path = path.rsplit("/", 1)[0] + ("/" if "/" in path else "") + rng.choice(["nosuch", "zz", "ab", "q", "p99"])
        elif how == "index": path = re.sub(r"\d+", lambda m: str(rng.choice([4, 16, 99, 123456])), path, count=1)
        elif how == "trunc": path = path[:rng.randint(0, max(0, len(path) - 1))]
        elif how == "ext":   path = path + rng.choice(["x", "/", "/x", "0"])
        else:                path = path + "/" + "/".join(rng.choice(["a", "ab", "p1"]) for _ in range(rng.randint(1, 5)))
        tags = rng.choice(["", "i", "f", "T", "s", "ifsb"]); vals = rnd_args(rng, tags)
        bump(dist, "disp-gen-nomatch-" + how)
    base = rng.choice([0, 1])
    addr = ("/" if base else "") + path
    mode = rng.choice("NNLZ" if quiet else "LLLZ") + str(base) + rng.choice("PCC")
    bump(dist, "disp-mode-" + mode[0] + mode[2])
    return "disp g=4,5,6 %s %s %s" % (spec, enc_msg(addr.encode(), tags, vals).hex(), mode)

# ---------------------------------------------------------------------------
# histories: several messages, one after the other, to ONE object (what an earlier message stored is what the
# next callback finds: a value beyond std::string's in-place buffer, a set option, an array element)
HIST_WEIGHT = {"str": 6, "lstr": 10, "po": 6, "pco": 5, "ao": 6, "af": 3, "at": 3, "ai": 3, "am": 3, "bl": 2}

def hist_step(rng, leaf):
    """(tags, vals) of one step of a history on the given Leaf callback"""
    idx, stem, arr, alts = leaf
    if alts is None or alts == [""]:
        return args_for(rng, leaf, "ok")
    r = rng.random()
    if r < 0.15:
        return "", []                                   # read back what the previous step stored
    if r < 0.22:
        return args_for(rng, leaf, "wrong")
    if stem in ("str", "lstr"):
        return "s", [rnd_str(rng, rng.choice([0, 3, 15, 16, 17, 30, 47, 48, 90]))]
    if idx in OPTS:
        t = rng.choice("icSSS")
        if t == "S":
            return t, [rng.choice(OPTS[idx] + NO_OPTS)]
        return t, [rng.choice([0, 1, 2, 3, 5, -1, 100])]
    return args_for(rng, leaf, "ok")

def gen_hist(rng, dist):
    r = rng.random()
    if r < 0.45:
        tree = rng.choice(["S0", "S0", "S0", "S1"])
        prefix = rng.choice(["mid/"] + ["mids%d/" % i for i in range(2)]) + \
                 rng.choice(["leaf/", "pleaf/"] + ["leaves%d/" % i for i in range(3)] + ["pleaves%d/" % i for i in range(3)])
        pool, sub = LEAF, None
    elif r < 0.6:
        tree, prefix, pool, sub = "S3", "", LEAF, None
    elif r < 0.7:
        tree, prefix, sub = "S2", "", None
        pool = [l for l in LEAF if l[1] in ("pc", "pf", "po", "str", "lstr", "act")]
    else:
        tree, tables = gen_tree(rng, dist)
        t, prefix, pool = 0, "", None
        for _ in range(6):
            flag, ports = tables[t]
            subs = [p for p in ports if p[3] is not None]
            if subs and rng.random() < 0.6:
                p = rng.choice(subs)
                prefix += p[1] + (str(rng.randint(0, p[4] - 1)) if p[4] else "") + "/"; t = p[3]; continue
            break
        pool = [p for p in tables[t][1] if p[2] is not None]
        sub = True
        if not pool:
            return gen_hist(rng, dist)
    bump(dist, "hist-tree-" + tree[:2].rstrip("-ds:"))
    def pick():
        if sub:
            p = rng.choice(pool)
            return p[2], p[1] + (str(rng.randint(0, p[4] - 1)) if p[4] else ""), p[4]
        leaf = rng.choices(pool, [HIST_WEIGHT.get(l[1], 1) for l in pool])[0]
        return leaf, leaf[1] + (str(rng.randint(0, 3)) if leaf[2] else ""), 4 if leaf[2] else 0
    focus = pick()
    bump(dist, "hist-focus-" + focus[0][1])
    base = rng.choice([0, 1])
    steps = rng.choice([2, 2, 3, 4, 6, 8])
    bump(dist, "hist-steps=%d" % steps)
    msgs = []
    for _ in range(steps):
        r = rng.random()
        if r < 0.7:
            leaf, name, K = focus
            if K and rng.random() < 0.3:                 # another element of the same array port
                name = re.sub(r"\d+$", "", name) + str(rng.randint(0, K - 1))
        elif r < 0.88:
            leaf, name, K = pick()
        else:
            # nothing matches below the recursion ports: a long remaining address travels down with the message
            leaf = None
            name = rng.choice(["nosuch", "x" * rng.choice([16, 100, 400]), "/".join(["deep"] * rng.choice([3, 20, 60])),
                               focus[1] + "x" * 40, focus[1] + "/" + "y" * 200])
            bump(dist, "hist-step-long-unmatched-address")
        tags, vals = hist_step(rng, leaf) if leaf else (rng.choice(["", "i", "s"]), None)
        if vals is None:
            vals = rnd_args(rng, tags)
        msgs.append(enc_msg((("/" if base else "") + prefix + name).encode(), tags, vals).hex())
    mode = rng.choice("LLLZ") + str(base) + rng.choice("PCC")
    bump(dist, "hist-mode-" + mode[0] + mode[2])
    return "hist g=4,5,6 %s %s %s" % (tree, ",".join(msgs), mode)

def gen_msg(rng, dist):
    al = rng.choice([1, 2, 3, 4, 5, 6, 7, 8, 11, 12, 13, 31, 32, 33, 64])
    addr = b"/" + bytes(rng.choice(b"abcdefgh/_09") for _ in range(al - 1))
    nt = rng.choice([0, 1, 1, 2, 3, 4, 6, 8, 12])
    if rng.random() < 0.1:
        tags = VALUE_TAGS
    else:
        tags = "".join(rng.choice(VALUE_TAGS) for _ in range(nt))
    vals = rnd_args(rng, tags)
    m = enc_msg(addr, tags, vals)
    L = len(m)
    # layout, for the in-place bundles: where the type string starts / ends and where the blobs' length fields are
    a0 = len(pad4z(addr)); a1 = a0 + len(pad4z(b"," + tags.encode()))
    blobs, pos, k = [], a1, 0
    for t in tags:
        if t in "TFNI":
            continue
        if t == "b":
            blobs.append(pos)
        pos += len(enc_arg(t, vals[k])); k += 1
    lay = (a0, a1, blobs)
    cap = rng.choice([0, max(0, L - 1), L, L + 1, L + 8, 4, 16, 8192, max(0, L - 4)])
    bump(dist, "msg-cap-" + ("lt" if cap < L else "eq" if cap == L else "gt"))
    bump(dist, "msg-nargs=%d" % len(tags))
    for t in set(tags):
        bump(dist, "msg-tag-" + t)
    shape = rng.randint(0, 9)
    bump(dist, "msg-varargs-" + ("more-than-32-values" if shape in (6, 8, 9) else "32-values" if shape == 7 else "few-values"))
    return "msg g=1,2 %s %d %d %d %s" % (m.hex(), cap, shape, L, ",".join(inplace(rng, dist, L, lay) for _ in range(3)))

def inplace(rng, dist, L, lay):
    """one bundle built in place: <off>:<dlen>:<n>[:<off2>] - the message (L bytes) lies at destination+off.

    What the pinned rtosc_bundle does with an overlapping element (memory safety is C02's subject, the harness
    has to survive it): it clears the destination first, then measures every element twice - for the fit test
    and again right before copying it, after '#bundle' and the time tag have been written.  An element inside
    the destination is all zero by then (length 0, or 16 when it starts at the destination: it reads as an empty
    bundle); one reaching past the end has lost its head (0, or its own length when only a 4-byte address was
    cleared).  An element that starts BEFORE the destination keeps its head and gets '#bundle'+time tag as
    its body for the second measurement: a blob length taken from those bytes sends memcpy far out of every
    buffer (seen: SIGSEGV).  Such a cut is generated only where both measurements stay within the message:
    inside the address / at the ',' (no message any more), or behind the type string with every blob's
    length field before the cut."""
    a0, a1, blobs = lay
    n = rng.choice([1, 1, 1, 2, 2])
    total = 16 + n * (4 + L)
    dlen = rng.choice([total, total, total + 4, total + 64, total + 256 + L, 2 * total, max(0, total - 4), 16, 8192])
    how = rng.choice(["same-pointer", "in-header", "landing-spot", "behind-the-result", "flush-with-the-end", "inside",
                      "straddles-the-end", "straddles-the-end", "straddles-the-start", "straddles-the-start",
                      "adjacent-before", "adjacent-after"])
    k = rng.choice([4, 8, 12, max(4, L // 2 // 4 * 4), max(4, L - 4)])
    off = {"same-pointer": 0, "in-header": rng.choice([4, 8, 12]), "landing-spot": rng.choice([16, 20, 24]),
           "behind-the-result": total + rng.choice([0, 4, 32]), "flush-with-the-end": dlen - L,
           "inside": rng.randrange(0, max(1, dlen - L), 4) if dlen > L else 0,
           "straddles-the-end": dlen - L + min(k, L), "straddles-the-start": -min(k, L),
           "adjacent-before": -L, "adjacent-after": dlen}[how]
    off = max(-L, min(off, dlen))
    if -L < off < 0:
        cut = -off
        if not (cut <= a0 or (cut >= a1 and all(b + 4 <= cut for b in blobs))):
            cut = rng.choice([c for c in range(4, a0 + 1, 4)] + [c for c in range(a1, L, 4) if all(b + 4 <= c for b in blobs)])
            off = -cut
    bump(dist, "bundle-in-place-" + how)
    bump(dist, "bundle-in-place-" + ("fits" if total <= dlen else "does-not-fit"))
    if n == 2 and rng.random() < 0.6 and 0 <= off and off + L <= dlen:
        # the second element in the destination as well, next to the first where there is room (both entirely
        # inside: what the pinned code copies for an element it could still read lands where the second lies)
        off2 = off + L + rng.choice([0, 4, 16])
        if off2 + L > dlen:
            off2 = off - L - rng.choice([0, 4])
        if 0 <= off2 and off2 + L <= dlen:
            bump(dist, "bundle-in-place-two-elements-inside")
            return "%d:%d:%d:%d" % (off, dlen, n, off2)
    return "%d:%d:%d" % (off, dlen, n)

PATTERNS = ["abc", "abc:", "abc::i", "abc::i:f:s", "a#8", "a#8/", "foo/", "foo#16/", "a*", "*", "{ab,cd}x", "{ab,cd}",
            "{ab,abc}d", "x{1,2,3}", "bar#3::T:F", "volume::c", "a/b", "a#2/b#3", ""]
def gen_match(rng, dist):
    pat = rng.choice(PATTERNS)
    stem = re.split(r"[:#{*]", pat)[0]
    r = rng.random()
    if r < 0.5:      # likely matching
        addr = stem
        if "#" in pat:
            addr += str(rng.randint(0, int(re.search(r"#(\d+)", pat).group(1)) + 2))
            addr += "/" if pat.split(":")[0].endswith("/") else ""
        if "{" in pat:
            alts = re.search(r"\{([^}]*)\}", pat).group(1).split(",")
            addr = pat[:pat.index("{")] + rng.choice(alts) + pat[pat.index("}") + 1:]
        if pat.endswith("*"):
            addr += rng.choice(["", "x", "xyz"])
    elif r < 0.8:
        addr = rng.choice(["", "a", "ab", "abcd", "zzz", "foo", "foo/", "foo/bar", "a9", "a12/", "cdx", "abd", "x2", "x4"])
    else:
        addr = stem[:rng.randint(0, len(stem))] + rng.choice(["", "/", "x"])
    tags = rng.choice(["", "i", "f", "s", "T", "F", "if", "c"])
    bump(dist, "match-pattern-" + ("enum" if "#" in pat else "opt" if "{" in pat else "star" if "*" in pat else "plain"))
    return "match g=3 %s %s" % ((pat.encode().hex() or "-"), rnd_msg(rng, addr.encode(), tags).hex())

def gen_reply(rng, dist):
    n = rng.choice([0, 1, 100, 4000, 8000, 8150, 8160, 8170, 8180, 8192, 8200, 9000])
    bump(dist, "reply-" + ("fits" if n < 8150 else "edge" if n < 8192 else "oversized"))
    return "reply g=6 %s %d %s" % (rng.choice("PC"), n, rng.choice("rb"))

def gen_link(rng, dist):
    maxmsg = rng.choice([32, 64, 128, 1024])
    nmsg = rng.choice([2, 3, 4, 8])
    size = maxmsg * nmsg
    fifo, la, used, wpos, rpos = [], 0, 0, 0, 0
    ops, res = [], []
    seen = set()
    scripted = rng.random() < 0.3     # every write is followed by reads: the ring is read in the state the write left
    follow = []
    for _ in range(rng.choice([4, 8, 16, 32, 48])):
        free = size - 1 - used
        r = rng.random()
        if follow:
            r = follow.pop(0)
        if r < 0.45:
            k = rng.random()
            if k < 0.5:
                tags = "".join(rng.choice("ifsTb") for _ in range(rng.randint(0, 3)))
                m = rnd_msg(rng, b"/" + bytes(rng.choice(b"abc") for _ in range(rng.randint(1, 9))), tags)
                if rng.random() < 0.15:   # a message around MaxMsg: just fits / just too long
                    m = enc_msg(b"/big", "s", [bytes(rng.choice(b"abc") for _ in
                                                     range(max(0, maxmsg + rng.choice([-16, -13, -12, -9, -8, 0, 4, 40]))))])
                op = rng.choice("wA"); L = len(m)
                if L > maxmsg:
                    # "all messages (matching, non-matching, oversized ...)": raw_write drops a message
                    # longer than MaxMsg (fix f8be5c8), writeArray cannot encode it; neither may allocate
                    L = 0; seen.add("oversized-raw_write" if op == "w" else "oversized-writeArray")
                op += m.hex()
            else:
                s = rng.randint(0, 8)
                op = "W%d" % s; L = len(SHAPES[s])
                if L > maxmsg:
                    L = 0; seen.add("oversized-write")
            if L and free >= L:
                fifo.append(L); used += L
                if wpos + L >= size: seen.add("wrapped")
                wpos = (wpos + L) % size
            elif L:
                seen.add("full-write-dropped")
            ops.append(op)
            if scripted:
                follow = [rng.choice([0.5, 0.75, 0.85, 0.93]) for _ in range(rng.choice([1, 2, 3]))]
        elif r < 0.7:
            ops.append("r")
            if fifo:
                L = fifo.pop(0); used -= L; la = 0; res.append("r%d" % L)
                rpos = (rpos + L) % size
                if rpos < L and rpos: seen.add("read-of-a-wrapped-message")
            else:
                res.append("r-1"); seen.add("read-on-empty")
        elif r < 0.82:
            ops.append("l")
            if la < len(fifo):
                res.append("l%d" % fifo[la]); la += 1; seen.add("lookahead-ahead")
            else:
                res.append("l-1")
        elif r < 0.9:
            ops.append("h"); res.append("h%d" % (1 if fifo else 0))
        elif r < 0.96:
            ops.append("H"); res.append("H%d" % (1 if la < len(fifo) else 0))
        else:
            ops.append("p")
        if not fifo: seen.add("empty")
        elif used > size // 2: seen.add("more-than-half-full")
        else: seen.add("partly-filled")
    for s in seen:
        bump(dist, "link-state-" + s)
    return "link g=7 %d %d %s %s" % (maxmsg, nmsg, ",".join(ops), ",".join(res) or "-")

def gen(rng, tier, dist):
    scale = 1 if tier == "quick" else 250
    out = ["cbs g=5"]
    for _ in range(700 * scale):  out.append(gen_static(rng, dist))
    for _ in range(900 * scale):  out.append(gen_generated(rng, dist))
    for _ in range(150 * scale):  out.append(gen_cloned(rng, dist))
    for _ in range(500 * scale):  out.append(gen_hist(rng, dist))
    for _ in range(500 * scale):  out.append(gen_msg(rng, dist))
    for _ in range(250 * scale):  out.append(gen_match(rng, dist))
    for _ in range(60 * scale):   out.append(gen_reply(rng, dist))
    for _ in range(250 * scale):  out.append(gen_link(rng, dist))
    return out

# ---------------------------------------------------------------------------
def canon(case, line):
    """implementation: a=.. f=.. l=..  ->  clean / dirty ; model: clean / reach"""
    m = re.match(r"a=(\d+) f=(\d+) l=(\d+) ", line)
    if m:
        return "clean" if m.group(1) == m.group(2) == m.group(3) == "0" else "dirty"
    if line == "clean":
        return "clean"
    if line == "reach":
        return "dirty"
    return line

_graph = None
def graph():
    global _graph
    if _graph is None:
        here = os.path.dirname(os.path.dirname(os.path.dirname(os.path.abspath(__file__))))
        try:
            _graph = json.load(open(os.path.join(here, "_work", "C03", "graph.json")))
        except (OSError, ValueError):
            _graph = {}
    return _graph

def spec_check(case, impl):
    """The property itself, on the implementation's output: nothing was
    allocated, freed or locked inside the RT section."""
    stream = case.split(" ", 1)[0]
    m = re.match(r"a=(\d+) f=(\d+) l=(\d+) first=(.*?) \|", impl)
    if not m:
        return "harness: no verdict for this case (%s)" % impl[:300]
    a, f, l = int(m.group(1)), int(m.group(2)), int(m.group(3))
    if a or f or l:
        return ("rt-unsafe-%s: %d allocation(s), %d deallocation(s), %d lock(s) inside the RT section; first: %s"
                % (stream, a, f, l, m.group(4)))
    if stream == "cbs":
        # every callback type the dynamic run drives must be a target of the indirect-call table
        G = graph()
        hs = set(G.get("dem", {}).get(h, "") for h in G.get("handlers", []))
        hs.discard("")
        if not hs:
            # without the handler list the check below would pass vacuously
            return ("table: _work/C03/graph.json is missing, unreadable or lists no std::function handler: "
                    "'every driven callback is a target of the indirect-call table' cannot be checked")
        if "cbs=" not in impl:
            return "table: the harness did not list the callbacks it drove (%s)" % impl[:200]
        for t in impl.split("cbs=", 1)[1].split("|"):
            want = "std::_Function_handler<void (char const*, rtosc::RtData&), %s>::_M_invoke(" % t
            if not any(h.startswith(want) for h in hs):
                return "table: callback %s is driven dynamically but is not a target of the indirect-call table" % t
    return None

def nontrivial(case, impl):
    s = case.split(" ", 1)[0]
    if s in ("disp", "hist"):
        m = re.search(r"matches=(\d+) replies=(\d+) broadcasts=(\d+)", impl)
        return bool(m and (int(m.group(1)) or int(m.group(2)) or int(m.group(3))))
    if s == "msg":
        m = re.search(r"rebuilt=(\d+)", impl)
        return bool(m and int(m.group(1)) > 0)
    if s == "link":
        return bool(re.search(r"[rl][1-9]", impl.split("res=", 1)[-1]))
    if s == "match":
        return " match=1" in impl
    return s == "reply"

def minimise(case, impl, failure, run):
    """greedy shrinking of a failing case: drop ring operations / ports of generated
    tables as long as the RT section still allocates or locks"""
    f = case.split(" ")
    def fails(c):
        o = run([c])[0]
        sf = spec_check(c, o)
        return (o, sf) if sf and sf.startswith("rt-unsafe") else None
    if not failure.startswith("rt-unsafe"):
        return case, impl, failure
    best = (case, impl, failure)
    if f[0] == "link":
        ops = f[4].split(",")
        i = 0
        while i < len(ops) and len(ops) > 1:
            cand = ops[:i] + ops[i + 1:]
            c = " ".join(f[:4] + [",".join(cand)] + f[5:])
            r = fails(c)
            if r:
                ops = cand; best = (c, r[0], r[1])
            else:
                i += 1
    elif f[0] == "hist":
        ms = f[3].split(",")
        i = 0
        while i < len(ms) and len(ms) > 1:
            cand = ms[:i] + ms[i + 1:]
            c = " ".join(f[:3] + [",".join(cand)] + f[4:])
            r = fails(c)
            if r:
                ms = cand; best = (c, r[0], r[1])
            else:
                i += 1
    elif f[0] == "disp" and f[2].startswith("G"):
        tabs = [t.split(":", 1) for t in f[2][1:].split(";")]
        tabs = [[fl, ps.split("|")] for fl, ps in tabs]
        for ti in range(len(tabs)):
            i = 0
            while i < len(tabs[ti][1]) and len(tabs[ti][1]) > 1:
                keep = tabs[ti][1][:i] + tabs[ti][1][i + 1:]
                spec = "G" + ";".join("%s:%s" % (fl, "|".join(keep if k == ti else ps)) for k, (fl, ps) in enumerate(tabs))
                c = " ".join(f[:2] + [spec] + f[3:])
                r = fails(c)
                if r:
                    tabs[ti][1] = keep; best = (c, r[0], r[1])
                else:
                    i += 1
    return best

# ---------------------------------------------------------------------------
_diag = {"graph": None, "problems": []}

def pre_proofs(ctx):
    """Regenerate coq/RtGraph/Graph_gen.v from $VERIF_REPO; when the graph
    theorems cannot hold any more, say which entry reaches which forbidden
    symbol along which path (this lands in the replay file)."""
    G = callgraph.generate(ctx)
    _diag["graph"] = G
    probs = callgraph.diagnose(G)
    _diag["problems"] = probs
    ctx["log"]("call graph: %d nodes, %d defined, %d RT entries, %d forbidden, %d reachable from the entries"
               % (len(G["names"]), len(G["defined"]), len(G["entries"]), len(G["forbidden"]),
                  len(callgraph.reachable(G, G["entries"]))))
    oc = G.get("objcheck", {})
    ctx["log"]("object-code cross-check: %d reachable functions disassembled, %d objects identical to the driven build, %d discrepancies"
               % (oc.get("functions_checked", 0), oc.get("objects_identical_to_plain_build", 0), len(oc.get("discrepancies", []))))
    if probs:
        # one line per offending last edge (caller -> forbidden symbol), shortest path first;
        # kept short because vcheck stores the tail of the message in the replay file
        best = {}
        for p in probs:
            k = tuple(p["path"][-2:])
            if k not in best or len(p["path"]) < len(best[k]["path"]):
                best[k] = p
        lines = []
        for p in sorted(best.values(), key=lambda q: len(q["path"]))[:6]:
            what = "forbidden" if "forbidden" in p else "external symbol outside the allow-list"
            lines.append("RT entry [%s] reaches %s [%s] along: %s"
                         % (p["entry"], what, p["path"][-1], " -> ".join(p["path"])))
        for l in lines:
            ctx["log"]("STATIC PATH: " + l)
        msg = ("the regenerated call graph has a path from an RT entry point to a forbidden / not-allowed "
               "symbol, so Properties_C03 cannot check any more (%d offending edge(s)):\n" % len(best))
        raise ctx["BuildError"](msg + "\n".join(l[:600] for l in lines)[-1700:])
    if oc.get("discrepancies"):
        raise ctx["BuildError"]("GCC's .ci call graph does not agree with the object code:\n" +
                                "\n".join(oc["discrepancies"][:12]))

def extra_evidence(ctx):
    G = _diag["graph"]
    if not G:
        return {}
    R = callgraph.reachable(G, G["entries"])
    ds = set(G["defined"])
    return {"call_graph": {
        "nodes": len(G["names"]), "defined": len(G["defined"]), "reachable_from_entries": len(R),
        "entries_per_group": {callgraph.GROUPS[g]: len(v) for g, v in G["groups"].items()},
        "forbidden_symbols": len(G["forbidden"]),
        "externals_reached": sorted(x for x in R if x not in ds),
        "indirect_sites_reached": sorted(set("%s: %s @ %s" % (r, G["dem"][a], s) for a, s, r in G["sites"] if a in R)),
        "excluded_edges": ["%s -> %s" % (G["dem"][a], G["dem"][b]) for a, b in G["excluded"] if a in R],
        "object_code_cross_check": G.get("objcheck"),
        "static_problems": _diag["problems"][:10]}}

TECHNIQUE = ("translator + Coq: GCC's post-optimisation call graph of the library and of every instantiated port-sugar "
             "callback is regenerated on every check into a Coq graph; reachability is decided by a verified DFS "
             "(reachable_complete / reachable_sound proved once, generically) evaluated with vm_compute; the indirect-call "
             "table is validated by driving the same callbacks, generated port trees, messages and ThreadLinks under "
             "allocator / mutex interposition")
LEVEL_CATEGORY = "proof"    # of the graph statements; the run-time property itself is PARTIAL (LEVEL_NOTE)
LEVEL_TEXT = ("PARTIAL (call-graph level). Proved for the call graph GCC emits for the current source (-O2 -g -DNDEBUG): no path of direct calls, or of "
              "indirect calls as resolved by the explicit table, leads from any RT entry point (rtosc_message/vmessage/"
              "amessage/avmessage, all readers, bundle functions, rtosc_match*, Ports::dispatch, each of the instantiated "
              "sugar callbacks, RtData::reply/broadcast/chain, every ThreadLink method) to malloc/calloc/realloc/free/"
              "posix_memalign/aligned_alloc/operator new/delete/pthread_mutex_lock/trylock/__cxa_allocate_exception/"
              "std::__throw_*/std::string growth (C03_no_forbidden_reachable); every reachable symbol is either defined in "
              "the analysed code or an allow-listed libc leaf function - 12 are reached: memcpy memset strlen strcmp strncmp strchr strrchr strstr strncpy strtol strtod __ctype_b_loc (C03_reachable_closed_world); every reachable "
              "indirect call site is resolved by the table (C03_indirect_calls_resolved); only edges into abort-only "
              "functions are left out (C03_excluded_edges_abort_only).  The table is validated on every run by counting "
              "allocator and mutex calls while generated trees, messages and rings are driven through every entry point.")
LEVEL_NOTE = ("PARTIAL. Not shown by the theorems: (1) what happens inside the libc leaf functions that are reached (memcpy, "
              "memset, strlen, strcmp, strncmp, strchr, strrchr, strstr, strncpy, strtol, strtod, __ctype_b_loc) - glibc's strtod "
              "may allocate for inputs with thousands of digits; (2) the correctness of the indirect-call table (std::function "
              "call in Ports::dispatch -> the handlers of h_C03_sugar.cpp; virtual RtData calls -> the base class' and the "
              "harness subclass' members), of the C1->C2 alias rule and of GCC's .ci output: these are validated dynamically "
              "only, by the interposition run on generated inputs; (3) anything a user callback or a user RtData subclass "
              "does; (4) other compilers, optimisation levels or standard libraries than the pinned g++ 12.2 -O2 / libstdc++; "
              "(5) stack growth (VLAs, 8192-byte reply buffers).  Excluded edges: std::__throw_bad_function_call (empty "
              "Port::cb), __stack_chk_fail, __assert_fail, abort.")
