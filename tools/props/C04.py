"""C04 plug-in: dispatch delivers a message to exactly the port it addresses.

Case line:
  disp <tree> <address hex> <types hex>
<tree> = '.'-separated tokens, preorder:
  table := T <tid> <dflt> <nports> <pos> <assoc> port*      port := <name hex> <hassub> [table]
<pos>/<assoc> are the library's own lookup tables for that table (obtained by
running the harness in 'tables' mode through the RTOSC_VERIF hook
Ports::verif_tables while generating); the model takes them as the result of
the hash *search* and models what the library does with them.

The Spec oracle below works on the names only (C05's Python oracle for the
pattern language, applied level by level); it knows nothing of hashes.
"""
import os, re
from props import C05 as P5

HARNESS = ["h_C04.cpp"]
VARIANT = "asan"
TIMEOUT = 3000

RULE = ("port trees: 1..24 names per table over {a b c} + digits (lengths 1..3, anagrams and shared prefixes "
        "frequent), leaves with/without ':types' (also two leaves with the same name and different types), "
        "'#N' enumerations in about a third of the tables (such tables take the linear scan, the others the "
        "perfect hash when the library finds one), sub-trees 'name/' and 'name#N/' nested up to 4 levels, "
        "default handler on about a quarter of the tables (hashed and unhashed ones; it must run exactly when no port of a reached table takes the message, with and without location buffer); in about 6 % of the tables names with bytes 0x7f / 0x80 / 0xe9 / 0xff; in about a third of the tables names of several address "
        "components, with and without '#N', as leaves and as sub-trees at every depth (a#2/b#3/, a#2/k#2:i, x/y/, u/v/w/; "
        "a '#'-free table holding one takes the linear scan too); in about 30 % of the tables half of the names carry alternative "
        "groups {a,b,..} (2..3 non-empty alternatives of letters, none a prefix of another: C05's side conditions alts_prefix_free / "
        "enum_delimited) at the start, in the middle, at the end of a component or as a whole component, before or after a '#N', in "
        "one-component and multi-component names, as leaves and as sub-trees ({on,off}/, {ab,cd}x::i, p{q,r}#2:i, a#2{x,y}/, a#2/{x,y}b/; "
        "also in otherwise literal tables - the kind the pinned code hashed); their addresses spell one of the alternatives (86 %), the "
        "group's own text, a shortened / extended alternative, or two alternatives; "
        "addresses derived from a randomly chosen port path: exact, one character appended / removed / changed, "
        "index N-1 / N / N+1 / leading zeros / 10..20 digits (a valid index zero-padded, valid index + j*2^32, + j*2^64, 2^31 / 2^32 / 2^63 / 2^64 boundaries; 22 % of the enumerated components), '/' dropped or doubled, leading '/' dropped, a byte 0x7f / 0x80 / 0xe9 / 0xff changed in / inserted / appended / as a whole component (8 %), plus random short "
        "addresses; type strings equal to an alternative, a proper extension of one (the text leaves that verdict open: the two runs must then agree), with the first tag changed, with the last tag dropped, or unrelated. "
        "Each case is dispatched twice (with and without location buffer); in a third of the cases the location buffer is a reused one "
        "that still holds a non-empty string (another address of the tree, a text around one, '/', arbitrary non-NUL bytes, 40..200 bytes) when it is handed to the root dispatch.  Non-trivial = the table of the "
        "addressed port has >= 3 ports and at least one callback was invoked or a near-miss address was used.")
TRUSTED = ["harness/h_C04.cpp: Ports subclass filling the public `ports` vector and calling refreshMagic(); callbacks "
           "that record (port, msg offset, d.obj, d.loc, d.port) and re-dispatch like rRecurCb/rRecursCb (index at the '#', "
           "SNIP of one component per '/' of the port's name, child object); a third of the sub-tree ports are served by the "
           "library's own rRecurCb / rRecursCb (port-sugar.h) behind the recording wrapper, a proxy `ports` object forwards "
           "their dispatch call to the run-time built sub-table and translates the pointer they computed back to the "
           "harness's object numbering; hooks Ports::verif_tables (add-only, RTOSC_VERIF)",
           "tools/props/C04.py: the Python Spec oracle (C05's pattern oracle - literal text, #N, alternatives - applied level by level)",
           "the perfect-hash search (find_pos, find_assoc) is not modelled: its output is an input of the model; "
           "what is modelled and proved is everything the library does with it"]
ASSUMPTIONS = ["port names of the documented form literal text / #N / {a,b,..} / trailing '/' / ':types' (any bytes but NUL and ':' in "
               "names and addresses - no 7-bit restriction since fix 7baa3a8); alternative groups inside C05's side conditions (no alternative a "
               "prefix of another, none empty or starting with a digit behind '#N' - outside them C05 has known findings) and without '/'; "
               "an enumerated SUB-TREE name has no alternative group in front of its first '#' (p{q,r}#2/ is generated as a leaf only: "
               "rBOILS_BEGIN looks for the index as many characters into the message as the name has in front of its '#' - proposed finding "
               "index-behind-alternatives, notes/C04.md); where the type string is a proper extension of an "
               "alternative the text gives no verdict on that port (counted in dist as no-verdict:...): the oracle then only "
               "requires both runs and all tables to agree; location buffer large enough (ports.cpp: 'buffer_size is not properly handled yet'); "
               "callbacks of sub-tree ports follow the recursion contract SNIP + dispatch of rRecur*Cb"]

_ctx = None
def pre_build(ctx):
    global _ctx
    _ctx = ctx

hx, unhx = P5.hx, P5.unhx

# ---- trees -------------------------------------------------------------------
class Tab:
    def __init__(self, tid, dflt, ports):
        self.tid, self.dflt, self.ports = tid, dflt, ports     # ports: [(name bytes, Tab|None)]
        self.pos, self.assoc = "?", "?"

def ser(t):
    out = ["T", str(t.tid), "1" if t.dflt else "0", str(len(t.ports)), t.pos, t.assoc]
    for name, sub in t.ports:
        out += [hx(name), "1" if sub else "0"]
        if sub:
            out += ser(sub)
    return out

def parse_tree(s):
    tk = s.split(".")
    k = [0]
    def go():
        assert tk[k[0]] == "T"
        t = Tab(int(tk[k[0] + 1]), tk[k[0] + 2] == "1", [])
        n = int(tk[k[0] + 3])
        t.pos, t.assoc = tk[k[0] + 4], tk[k[0] + 5]
        k[0] += 6
        for _ in range(n):
            name, hs = unhx(tk[k[0]]), tk[k[0] + 1] == "1"
            k[0] += 2
            t.ports.append((name, go() if hs else None))
        return t
    return go()

def walk(t):
    yield t
    for _, s in t.ports:
        if s:
            yield from walk(s)

def parse_name(name):
    """Port::name -> C05 pattern AST (literal text, #N, {a,b,..}, trailing '/', ':types')"""
    i = name.find(b":")
    path, types = (name, None) if i < 0 else (name[:i], name[i + 1:].split(b":"))
    sub = path.endswith(b"/")
    if sub:
        path = path[:-1]
    segs, lit, j = [], b"", 0
    while j < len(path):
        if path[j:j + 1] == b"#" and j + 1 < len(path) and P5.isdig(path[j + 1]):
            if lit:
                segs.append(("L", lit)); lit = b""
            e = j + 1
            while e < len(path) and P5.isdig(path[e]):
                e += 1
            segs.append(("E", path[j + 1:e]))
            j = e
        elif path[j:j + 1] == b"{" and b"}" in path[j:]:      # {a,b,...}: one of the alternatives
            if lit:
                segs.append(("L", lit)); lit = b""
            e = path.index(b"}", j)
            segs.append(("A", path[j + 1:e].split(b",")))
            j = e + 1
        else:
            lit += path[j:j + 1]; j += 1
    if lit:
        segs.append(("L", lit))
    return (segs, sub, types)

# ---- the Spec ------------------------------------------------------------------
def child_obj(o, tid, i, n):
    return o * 131 + tid * 17 + i * 7 + n + 1

def macro_port(tid, i):
    """the harness serves these sub-tree ports with the library's rRecurCb / rRecursCb"""
    return (tid + i) % 3 == 0

def first_number(m):
    j = 0
    while j < len(m) and not P5.isdig(m[j]):
        j += 1
    e = j
    while e < len(m) and P5.isdig(m[e]):
        e += 1
    return int(m[j:e]) if e > j else 0

def index_at_hash(ast, m):
    """the index an enumerated sub-tree port hands down: the number the address spells at the
    name's first '#N' (what precedes it is spelled as the name says: literal text, one of the
    alternatives)"""
    segs = ast[0]
    k = next((i for i, (kk, _) in enumerate(segs) if kk == "E"), None)
    if k is None:
        return 0
    ends = P5.spell_ends(segs[:k], m)
    return first_number(m[min(ends):]) if ends else 0

def macro_index(name, m):
    """what rBOILS_BEGIN reads: as many characters into the message as the NAME has in front of
    its first '#' (not past the end of the message), then the first run of digits (0 without one)"""
    h = name.find(b"#")
    return first_number(m[min(h, len(m)):]) if h >= 0 else 0

def finding_index(name, ast, m):
    """the index the known finding index-behind-alternatives predicts: the macro's for a name with
    an alternative group in front of its first '#', the documented one everywhere else"""
    return macro_index(name, m) if alt_before_hash(name) else index_at_hash(ast, m)

def expected(t, addr, ty, chosen=None, index=None):
    """What a root dispatch must do, in order, derived from the names alone:
         ("E", tid, idx, msg offset, obj, loc)   a port callback
         ("D", tid, msg offset, obj, loc)        the default handler of a table none of whose
                                                 ports took the message (fix 0074cc3: on every path)
    plus `free`: the ports the address reaches whose type string is a PROPER EXTENSION of one
    of their alternatives.  For those the property text gives NO VERDICT (C05: "no type string
    that is neither equal to nor an extension of an alternative ever matches" - an extension
    may or may not match), so the oracle cannot say whether the callback runs.  What it does
    say: such a port is a candidate only because an alternative is a prefix of the tags (a
    port whose alternatives are no prefix is 'mustnot' and reported as spurious); the verdict
    must be the same in the run with and in the run without location buffer (lookup
    strategies); and it must be a function of (type specification, tags) - the same in every
    table of the tree.  `chosen` = the candidates taken (None: all of them); everything else in the expectation -
    the other ports, order, objects, loc, default handlers, matches - follows from the names."""
    full = addr
    off0 = 1 if addr[:1] == b"/" else 0
    out, free = [], []
    def level(t, off, obj):
        m = full[off:]
        hit = False
        for i, (name, sub) in enumerate(t.ports):
            ast = parse_name(name)
            ends = P5.spec_path(ast, m)
            if not ends:
                continue
            st = P5.spec_types(ast, ty)
            if st == "mustnot":
                continue
            if st == "free":
                free.append((t.tid, i, off, obj))
                if chosen is not None and (t.tid, i, off, obj) not in chosen:
                    continue
            hit = True
            end = min(ends)
            loc = b"/" + full[off0:off + end]
            out.append(("E", t.tid, i, off, obj, loc))
            if sub:
                # the level below is addressed by what follows the matched name; the
                # index an enumerated parent hands down is the one spelled at its first '#'
                n = index(name, ast, m) if index else index_at_hash(ast, m)
                level(sub, off + end, child_obj(obj, t.tid, i, n))
        if not hit and t.dflt:
            out.append(("D", t.tid, off, obj, b"/" + full[off0:off]))
    level(t, off0, 1)
    return out, free

def parse_run(s, withloc):
    f = s.split(" ")
    evs, dfl, seq = [], [], []
    if f[0] != "-":
        for e in f[0].split(";"):
            if e == "ERR":
                raise ValueError("ERR event")
            head, rest = e.split("@")
            r = rest.split("/")
            if head.startswith("D"):
                dfl.append((int(head[1:]), int(r[0]), int(r[1]), r[2]))
                seq.append(("D",) + dfl[-1][:3])
            else:
                tid, i = head.split(":")
                evs.append((int(tid), int(i), int(r[0]), int(r[1]), r[2], int(r[3]), r[4]))
                seq.append(("E",) + evs[-1][:4])
    d = dict(kv.split("=") for kv in f[1:])
    return evs, dfl, int(d["m"]), d.get("loc"), int(d["obj"]), seq

def spec_check(case, impl):
    return judge(case, impl, None)

def judge(case, impl, index):
    """the oracle; `index` = None: the index an enumerated sub-tree hands down is the one the
    address spells at the name's first '#' (the property); classify() passes finding_index to
    ask whether the output is exactly what the known finding predicts"""
    f = case.split(" ")
    if impl.startswith("CRASH") or impl in ("NOOUT", "BADCASE"):
        return "crash: " + impl[:300]
    try:
        t = parse_tree(f[1])
        addr, ty = unhx(f[2]), unhx(f[3])
        Ls, Ns, Rs = impl.split(" | ")
        Lev, Ldf, Lm, Lloc, Lobj, Lseq = parse_run(Ls[2:], True)
        Nev, Ndf, Nm, _, Nobj, Nseq = parse_run(Ns[2:], False)
    except Exception as e:
        return "crash: unparsable output %s (%s)" % (impl[:120], e)
    names = {tb.tid: tb for tb in walk(t)}
    def pname(tid, i):
        return names[tid].ports[i][0].decode("latin1")
    # no-verdict ports (type string a proper extension of an alternative): which of them ran is
    # read off the run with buffer; the verdict must depend on (type specification, tags) only
    ran = frozenset((a, b, c, d) for a, b, c, d, _, _, _ in Lev)
    seq_all, free = expected(t, addr, ty, ran, index)
    verdict = {}
    for fr in free:
        spec = names[fr[0]].ports[fr[1]][0].split(b":", 1)[1]
        v = fr in ran
        if verdict.setdefault(spec, (v, fr))[0] != v:
            o = verdict[spec][1]
            return ("extension-inconsistent: type string '%s' against the specification ':%s': port '%s' (table %d) is %s, "
                    "port '%s' (table %d) is %s" % (ty.decode("latin1"), spec.decode("latin1"), pname(fr[0], fr[1]), fr[0],
                    "invoked" if v else "not invoked", pname(o[0], o[1]), o[0], "invoked" if not v else "not invoked"))
    exp = [e[1:] for e in seq_all if e[0] == "E"]
    want = [(a, b, c, d) for a, b, c, d, _ in exp]
    gotL = [(a, b, c, d) for a, b, c, d, _, _, _ in Lev]
    gotN = [(a, b, c, d) for a, b, c, d, _, _, _ in Nev]
    if gotL != gotN:
        dl = [g for g in gotL if g not in gotN]
        dn = [g for g in gotN if g not in gotL]
        g, where = (dl[0], "only with") if dl else ((dn[0], "only without") if dn else (gotL[0], "in another order with"))
        return ("strategy-dependent: port '%s' (table %d, msg offset %d, obj %d) is invoked %s a location buffer"
                % (pname(g[0], g[1]), g[0], g[2], g[3], where))
    for tag, got in (("with", gotL), ("without", gotN)):
        for g in got:
            if g not in want:
                return ("spurious-callback: %s location buffer port '%s' (table %d) is invoked (msg offset %d, obj %d) "
                        "but the address does not match its path / types" % (tag, pname(g[0], g[1]), g[0], g[2], g[3]))
        for w in want:
            if got.count(w) != 1:
                return ("missing-callback: %s location buffer port '%s' (table %d) must be invoked exactly once "
                        "(msg offset %d, obj %d), it is invoked %d times" % (tag, pname(w[0], w[1]), w[0], w[2], w[3], got.count(w)))
        if got != want:
            return "order: %s location buffer the callbacks run in another order than the ports" % tag
    if gotL != gotN:
        return "strategy-dependent: the callbacks invoked with and without a location buffer differ"
    for (a, b, c, d, loc), (_, _, _, _, gl, pok, lf) in zip(exp, Lev):
        if gl != hx(loc):
            return "loc: port '%s' sees loc '%s', its full address is '%s'" % (pname(a, b), unhx(gl).decode("latin1") if gl != "~" else "NULL", loc.decode("latin1"))
        if not pok:
            return "port-pointer: port '%s' does not see its own Port in d.port" % pname(a, b)
        if (lf == "L") != (names[a].ports[b][1] is None):
            return "leaf-flag: port '%s' reports Port::ports %s" % (pname(a, b), "NULL" if lf == "L" else "non-NULL")
    for (_, _, _, _, gl, pok, lf), (a, b, _, _) in zip(Nev, want):
        if not pok:
            return "port-pointer: port '%s' does not see its own Port in d.port (no location buffer)" % pname(a, b)
    leaves = sum(1 for (a, b, _, _) in gotL if names[a].ports[b][1] is None)
    if Lm != leaves + len(Ldf):
        return "matches: d.matches = %d after the root dispatch, %d leaf callbacks (+%d default handler) were invoked" % (Lm, leaves, len(Ldf))
    if Lobj != 1 or Nobj != 1:
        return "obj-restored: d.obj is %d / %d after the root dispatch (with / without location buffer), it was 1" % (Lobj, Nobj)
    if Nm != 0:
        return "matches: d.matches = %d after a root dispatch without location buffer" % Nm
    if Lloc != hx(b"/"):
        return "loc-restored: loc is '%s' after the root dispatch" % Lloc
    # the default handler: in BOTH runs, exactly for the tables reached without a matching port,
    # at its place in the sequence, with the message suffix, object and location of that level
    wantD = [e[1:] for e in seq_all if e[0] == "D"]
    for tag, got in (("with", Ldf), ("without", Ndf)):
        for g in got:
            if (g[0], g[1], g[2]) not in [(a, b, c) for a, b, c, _ in wantD]:
                return ("default-handler: %s location buffer table %d runs its default handler (msg offset %d, obj %d) although "
                        "one of its ports matches / it was not reached" % (tag, g[0], g[1], g[2]))
        for w in wantD:
            n = sum(1 for g in got if (g[0], g[1], g[2]) == w[:3])
            if n != 1:
                return ("default-handler-missing: %s location buffer table %d has a default handler and none of its ports takes "
                        "the message (msg offset %d, obj %d): it must run once, it runs %d times" % (tag, w[0], w[1], w[2], n))
    for (a, b, c, loc), g in zip(wantD, Ldf):
        if g[3] != hx(loc):
            return "loc: the default handler of table %d sees loc '%s', the location of its level is '%s'" % (
                a, unhx(g[3]).decode("latin1") if g[3] != "~" else "NULL", loc.decode("latin1"))
    wseq = [e[:5] if e[0] == "E" else e[:4] for e in seq_all]
    for tag, got in (("with", Lseq), ("without", Nseq)):
        if got != wseq:
            return "order: %s location buffer callbacks and default handlers run in another order than the ports" % tag
    # the hypothesis of C04_strategy_independent on the library's own tables
    for tb in walk(t):
        if tb.pos not in ("-", "?"):
            pos = [int(x) for x in tb.pos.split("_")]
            sp = [int(x) for x in tb.assoc.split("_")] if tb.assoc != "-" else []
            assoc = dict(zip(sp[0::2], sp[1::2]))
            hs = []
            for name, _ in tb.ports:
                i = name.find(b":")
                key = name[:i] if i > 0 else name
                hs.append(len(key) + sum(assoc.get(key[p], 0) for p in pos if p < len(key)))
            # the hypotheses of the tree theorems (tree_ok): a hashed table has literal
            # single-component names and non-negative assoc values
            if any(v < 0 for v in assoc.values()):
                return "hypothesis: table %d has a negative assoc value" % tb.tid
            for name, _ in tb.ports:
                ast = parse_name(name)
                if len(ast[0]) != 1 or ast[0][0][0] != "L" or b"/" in ast[0][0][1]:
                    return "hypothesis: table %d is hashed although '%s' is not a literal single-component name" % (tb.tid, name.decode("latin1"))
            if len(set(hs)) != len(hs):
                return "tables-invalid: table %d is looked up by hash although two of its names hash alike (%s)" % (tb.tid, hs)
    if not Rs.endswith("T=ok"):
        return "crash: the tables in the case line are not the library's (%s)" % Rs[-60:]
    return None

def classify(case, impl, failure):
    """index-behind-alternatives: an enumerated SUB-TREE port whose name has an alternative group in
    front of its first '#' ("p{q,r}#2/"): rBOILS_BEGIN (port-sugar.h) looks for the index as many
    characters into the message as the NAME has in front of its '#', so the child object is taken
    from the wrong place.  The class is granted only when the output is EXACTLY what the finding
    predicts and nothing else is wrong:
      * the failure is one about a callback / default handler seen with another object
        (spurious-callback, missing-callback, default-handler, default-handler-missing: the only
        reports a wrong object number can produce - everything else is judged before or
        independently of the object),
      * the address reaches such a port (the port matches, so its callback runs and hands an
        object down) and the number read at the macro's position differs from the one spelled at
        the '#',
      * and the whole oracle, run again with the macro's number for exactly these ports
        (finding_index) and the documented number for every other port, accepts the output: same
        events, same order, the objects below such a port are the child objects of the number at the
        wrong position, loc / d.port / matches / default handlers all as the property demands.
    So a tree that merely CONTAINS such a name does not excuse anything: a port that is not
    reached, a port reached twice, a wrong loc, ... below or beside it stay violations."""
    if not failure or failure.split(":")[0] not in ("spurious-callback", "missing-callback",
                                                     "default-handler", "default-handler-missing"):
        return None
    try:
        f = case.split(" ")
        t = parse_tree(f[1])
        addr, ty = unhx(f[2]), unhx(f[3])
        seq, _ = expected(t, addr, ty)
    except Exception:
        return None
    names = {tb.tid: tb for tb in walk(t)}
    wrong = False
    for e in seq:                      # the ports on the addressed path (free ports included: they may hand down too)
        if e[0] != "E":
            continue
        name, sub = names[e[1]].ports[e[2]]
        if sub is not None and alt_before_hash(name):
            m = addr[e[3]:]
            if macro_index(name, m) != index_at_hash(parse_name(name), m):
                wrong = True
    if not wrong:
        return None
    if judge(case, impl, finding_index) is None:
        return "index-behind-alternatives"
    return None

def canon(case, line):
    """object numbers are compared modulo 2^32: the harness numbers objects in unsigned 32-bit
    arithmetic, the model in Z (they differ only behind indices of ten and more digits, which no
    port accepts - seen on a default-handler call)"""
    return re.sub(r"(?<=/)(\d{10,})(?=/)", lambda m: str(int(m.group(1)) % 4294967296), line)

def nontrivial(case, impl):
    f = case.split(" ")
    t = parse_tree(f[1])
    return len(t.ports) >= 3 and (("@" in impl.split(" | ")[0]) or len(f) > 4 and f[4] != "exact")

# ---- generator -------------------------------------------------------------------
TYSPECS = [b"", b"", b"", b":i", b"::i", b":i:f", b":ii", b":", b":s:i", b":if:i", b":ii:f", b":i:ii"]

def alt_group(rng):
    """{a,b,..}: 2..3 non-empty alternatives of letters, none a prefix of another, no '/', none
    starting with a digit (C05's side conditions alts_prefix_free / enum_delimited)"""
    if rng.random() < 0.12:
        return rng.choice([b"{on,off}", b"{ab,cd}", b"{q,r}", b"{a,b,c}"])
    alts = []
    want = rng.choice([2, 2, 3])
    while len(alts) < want:
        a = bytes(rng.choice(b"abcq") for _ in range(rng.choice([1, 1, 2, 2, 3])))
        if all(not a.startswith(b) and not b.startswith(a) for b in alts):
            alts.append(a)
    return b"{" + b",".join(alts) + b"}"

def with_alts(rng, base):
    """an alternative group at the start, in the middle, at the end of the component / the whole component"""
    g = alt_group(rng)
    r = rng.random()
    if r < 0.3:
        return g + base, "start"
    if r < 0.45:
        return g, "whole"
    if r < 0.7 and len(base) >= 2:
        return base[:1] + g + base[1:], "middle"
    return base + g, "end"

def component(rng, allow_hash, alts=False):
    c = bytes(rng.choice(b"abck") for _ in range(rng.choice([1, 1, 2])))
    if alts and rng.random() < 0.4:
        c = with_alts(rng, c)[0]
    if allow_hash and rng.random() < 0.5:
        c += b"#" + str(rng.choice([1, 2, 3, 4, 10])).encode()
        if alts and rng.random() < 0.3:
            c += alt_group(rng)
    return c

def alt_before_hash(name):
    """an alternative group in front of the name's first '#': the array callbacks (rBOILS_BEGIN)
    look for the index as many characters into the message as the NAME has in front of its '#'"""
    return b"#" in name and b"{" in name.split(b"#")[0]

HIGH = b"\x7f\x80\xe9\xff"      # 0x7f: one past the 127-entry letter table of the pinned code; >= 0x80: negative as a plain char

def gen_names(rng, n, allow_hash, allow_sub, friendly=False, multi=False, high=False, alts=False):
    names, seen = [], set()
    keys = set()
    tries = 0
    while len(names) < n and tries < 400:
        tries += 1
        l = rng.choice([1, 1, 2, 2, 2, 3, 3])
        base = bytes(rng.choice(b"abc" + HIGH if high else b"abc") for _ in range(l))
        if rng.random() < 0.15:
            base += bytes([rng.choice(b"012")])
        if names and rng.random() < 0.25:                  # anagram / prefix / extension of an earlier one
            b0 = re.sub(rb"\{[^}]*\}", b"", rng.choice(names).split(b":")[0]).split(b"#")[0].split(b"/")[0]
            if b0:
                r = rng.random()
                if r < 0.4:
                    bl = list(b0); rng.shuffle(bl); base = bytes(bl)
                elif r < 0.7:
                    base = b0 + bytes([rng.choice(b"abc")])
                else:
                    base = b0[:max(1, len(b0) - 1)]
        name = base
        if alts and rng.random() < 0.5:                    # {ab,cd}x  p{q,r}x  p{q,r}  {on,off}
            name = with_alts(rng, base)[0]
        if allow_hash and rng.random() < 0.35:
            if P5.isdig(name[-1]):
                name += b"x"
            name += b"#" + str(rng.choice([1, 2, 3, 4, 10, 16])).encode()
            if alts and rng.random() < 0.5:                # a#2{x,y}: the alternatives do not start with a digit
                name += alt_group(rng)
        if multi and rng.random() < 0.4:                   # a name of several address components: a#2/b#3/ x/y/ a#2/k#2:i u/v/w
            for _ in range(rng.choice([1, 1, 1, 2])):
                name += b"/" + component(rng, allow_hash, alts)
        sub = allow_sub and rng.random() < (0.45 if b"/" in name else 0.3)
        if sub and alt_before_hash(name):
            # see ASSUMPTIONS: such a name is generated as a leaf only; as a sub-tree it is the known
            # finding index-behind-alternatives, whose witness runs from corpus/C04/findings.txt
            sub = False
        if sub:
            name += b"/"
        else:
            name += rng.choice(TYSPECS)
        key = name.split(b":")[0]
        if name in seen or (friendly and key in keys):
            continue
        seen.add(name)
        keys.add(key)
        names.append(name)
        if b"#" in name and rng.random() < 0.3:     # a literal sibling that overlaps the enumeration (x#3/ and x1/)
            head, tail = name.split(b"#", 1)
            j = 0
            while j < len(tail) and P5.isdig(tail[j]):
                j += 1
            twin = head + str(rng.randrange(int(tail[:j]) + 1)).encode() + tail[j:]
            if twin not in seen and not (twin.endswith(b"/") and alt_before_hash(twin)):    # a#2/b{c,d}#3/ -> a1/b{c,d}#3/
                seen.add(twin); names.append(twin)
        if not friendly and not sub and b":" in name and rng.random() < 0.2 and len(names) < n:   # same key, other types
            other = name.split(b":")[0] + rng.choice([b":f", b":T", b":ss"])
            if other not in seen:
                seen.add(other); names.append(other)
    return names

def gen_tree(rng, depth, counter, maxdepth):
    n = rng.choice([1, 2, 3, 3, 4, 4, 5, 6, 8, 10, 12, 16, 20, 24]) if depth == 0 else rng.choice([1, 2, 3, 4, 6, 9])
    friendly = rng.random() < 0.45          # literal names with distinct keys: the library hashes these
    allow_hash = (not friendly) and rng.random() < 0.5
    multi = rng.random() < (0.2 if friendly else 0.35)   # a '#'-free table with such a name is not hashed either
    high = rng.random() < 0.06              # port names with bytes >= 0x7f (refreshMagic wrote outside the letter table)
    alts = rng.random() < 0.3               # names with alternative groups; without '#' / inner '/' the pinned code hashed such a table
    names = gen_names(rng, n, allow_hash, depth + 1 < maxdepth, friendly, multi, high, alts)
    if not friendly and rng.random() < 0.08:
        names.insert(rng.randrange(len(names) + 1), rng.choice([b"a/b", b"b/a", b"ab/c", b"a/b:i"]))
    tid = counter[0]; counter[0] += 1
    ports = []
    for nm in names:
        isub = nm.endswith(b"/")
        ports.append((nm, gen_tree(rng, depth + 1, counter, maxdepth) if isub else None))
    return Tab(tid, rng.random() < 0.25, ports)

def long_index(rng, n):
    """an index of 10..20 digits: a valid index written with leading zeros (must match), or a
    value >= 2^32 that is congruent to a valid index modulo 2^32 / 2^64 (must not: an index
    read into a 32-bit or 64-bit unsigned must not wrap into the range), or a boundary"""
    k = rng.randint(0, max(0, n - 1))
    r = rng.random()
    if r < 0.25:
        return str(rng.choice([k, k, n - 1, n])).encode().rjust(rng.randint(10, 20), b"0"), "index-zero-padded-10..20-digits"
    if r < 0.55:
        return str((1 << 32) * rng.choice([1, 1, 1, 2, 3, 1 << 8, 1 << 16, (1 << 31) - 1]) + k).encode(), "index-valid+j*2^32"
    if r < 0.75:
        return str((1 << 64) * rng.choice([1, 1, 2, 10]) + k).encode(), "index-valid+j*2^64"
    if r < 0.85:
        return str(rng.choice([(1 << 32) + n, (1 << 32) - 1, (1 << 31) + k, (1 << 64) - 1, (1 << 63) + k])).encode(), "index-boundary-2^31/2^32/2^63/2^64"
    return (b"0" * rng.randint(1, 8) + str((1 << 32) + k).encode()), "index-zero-padded-valid+2^32"

def spell(rng, name, dist=None):
    """text of an address component for this port name + the kind of index chosen"""
    ast = parse_name(name)
    out = b""
    for k, v in ast[0]:
        if k == "L":
            out += v
        elif k == "A":
            r = rng.random()
            a = rng.choice(v)
            if r < 0.86:
                out += a                                   # one of the alternatives
                kk = "alternative-spelled"
            elif r < 0.91:
                out += b"{" + b",".join(v) + b"}"          # the group's own text is no spelling of it
                kk = "alternative-near-miss:the-group's-text"
            elif r < 0.96:
                out += a[:-1] if rng.random() < 0.5 else a + bytes([rng.choice(b"abq")])
                kk = "alternative-near-miss:shortened/extended"
            else:
                out += b",".join(v[:2])
                kk = "alternative-near-miss:two-alternatives"
            if dist is not None:
                dist[kk] = dist.get(kk, 0) + 1
        else:
            n = int(v)
            x = rng.choice([0, n - 1, n - 1, n, n + 1, rng.randint(0, max(0, n - 1))])
            s = str(max(0, x)).encode()
            if rng.random() < 0.15:
                s = b"0" + s
            if rng.random() < 0.22:
                s, kk = long_index(rng, n)
                if dist is not None:
                    dist[kk] = dist.get(kk, 0) + 1
            out += s
    return out + (b"/" if ast[1] else b""), ast

def gen_stale(rng, t):
    """what a location buffer that is not fresh holds when it is handed to a root dispatch: the
    address of another message, a text built around one, "/" (what a dispatch leaves behind),
    arbitrary non-NUL bytes, a long string"""
    r = rng.random()
    if r < 0.35:
        s = gen_address(rng, t)[0]
    elif r < 0.5:
        s = rng.choice([b"reply to ", b"/some/earlier/address", b"scratch", b"x"]) + (gen_address(rng, t)[0] if rng.random() < 0.5 else b"")
    elif r < 0.58:
        s = b"/"
    elif r < 0.8:
        s = bytes(rng.choice(b"abc/#:1 ~" + HIGH) for _ in range(rng.randint(1, 12)))
    else:
        s = bytes(rng.choice(b"abcdefgh/") for _ in range(rng.randint(40, 200)))
    s = s.replace(b"\0", b"")
    return s or b"/"

def gen_address(rng, t, dist=None):
    text = b"/"
    tb = t
    ast = None
    while True:
        name, sub = rng.choice(tb.ports)
        s, ast = spell(rng, name, dist)
        text += s
        if sub and rng.random() < 0.85:
            tb = sub
        else:
            break
    types = ast[2]
    kind = "exact"
    r = rng.random()
    if r < 0.45:
        pass
    elif r < 0.55:
        text += bytes([rng.choice(b"abc0/")]); kind = "appended"
    elif r < 0.65 and len(text) > 2:
        i = rng.randrange(1, len(text)); text = text[:i] + text[i + 1:]; kind = "removed"
    elif r < 0.75 and len(text) > 1:
        i = rng.randrange(1, len(text)); text = text[:i] + bytes([rng.choice(b"abc01")]) + text[i + 1:]; kind = "changed"
    elif r < 0.79:
        text = text.replace(b"/", b"//", 2)[1:] if rng.random() < 0.5 else text[1:]; kind = "slashes"
    elif r < 0.85:
        text = b"/" + bytes(rng.choice(b"abc/1") for _ in range(rng.randint(1, 5))); kind = "random"
    elif r < 0.93:
        # a byte >= 0x7f somewhere in the address: changed / inserted / appended / a whole component
        hb = bytes([rng.choice(HIGH)])
        q = rng.random()
        if q < 0.4 and len(text) > 1:
            i = rng.randrange(1, len(text)); text = text[:i] + hb + text[i + 1:]
        elif q < 0.6 and len(text) > 1:
            i = rng.randrange(1, len(text) + 1); text = text[:i] + hb + text[i:]
        elif q < 0.8:
            text += hb
        else:
            cut = text.rfind(b"/", 0, len(text) - 1) + 1
            text = text[:cut] + bytes(rng.choice(HIGH) for _ in range(rng.randint(1, 3)))
        kind = "high-byte"
    else:
        text += rng.choice([b"/", b"/a", b"a/"]); kind = "extra-level"
    if types is None or rng.random() < 0.15:
        ty = rng.choice([b"", b"i", b"f", b"T", b"ii"])
    else:
        a = rng.choice(types) if rng.random() < 0.5 else types[-1]
        r = rng.random()
        if r < 0.4:
            ty = a                                              # admitted
        elif r < 0.65:
            ty = a + rng.choice([b"i", b"f", b"s", b"ii"])      # an extension of an alternative
        elif r < 0.75 and a:
            ty = bytes([rng.choice(b"ifsc")]) + a[1:]           # first tag changed
        elif r < 0.85 and a:
            ty = a[:-1]                                         # last tag dropped
        else:
            ty = rng.choice([b"c", b"b", b"cc", b""])
    return text, ty, kind

def types_free(t, ty):
    """True if ty is a proper extension of some alternative somewhere (Spec says nothing there)"""
    for tb in walk(t):
        for name, _ in tb.ports:
            if P5.spec_types(parse_name(name), ty) == "free":
                return True
    return False

def fetch_tables(trees, log):
    """the library's pos/assoc for every table (hook, harness 'tables' mode)"""
    if _ctx is None:
        return False
    try:
        exe = _ctx["build_harness"]("C04", HARNESS, VARIANT, log)
    except Exception:
        return False
    env = dict(os.environ)
    env.setdefault("ASAN_OPTIONS", "detect_leaks=0:abort_on_error=0:exitcode=99")
    outs = _ctx["run_lines"](exe, ["tables " + ".".join(ser(t)) for t in trees], env=env)
    ok = True
    for t, o in zip(trees, outs):
        try:
            tabs = {}
            for e in o.split(" "):
                tid, pos, assoc = e.split(":")
                tabs[int(tid)] = (pos, assoc)
            for tb in walk(t):
                tb.pos, tb.assoc = tabs[tb.tid]
        except Exception:
            ok = False
    return ok

def gen(rng, tier, dist):
    ntrees = 1400 if tier == "quick" else 25000
    per = 14 if tier == "quick" else 24
    trees = []
    for _ in range(ntrees):
        maxdepth = rng.choice([1, 1, 2, 2, 3, 3, 4])
        trees.append(gen_tree(rng, 0, [0], maxdepth))
    # the findings' witnesses are always there
    for names in ([b"ab", b"ba", b"aa", b"bb"], [b"c", b"a/b"], [b"a", b"bcd"], [b"a", b"a/"],
                  [b"ab", b"cd", b"ef"], [b"a\xe9", b"b\x7f", b"\xff"]):
        trees.append(Tab(0, False, [(n, None) for n in names]))
    for names in ([b"ab", b"cd", b"ef"], [b"a#2", b"cd"], [b"a:i", b"b"]):     # default handler: hashed / unhashed table
        trees.append(Tab(0, True, [(n, None) for n in names]))
    # names with alternative groups: as sub-tree ({on,off}/), combined with '#N', in a table without
    # '#' and without inner '/' (the only kind the pinned generate_minimal_hash hashed)
    def leaves(names, tid, dflt=False):
        return Tab(tid, dflt, [(n, None) for n in names])
    trees.append(Tab(0, False, [(b"{on,off}/", leaves([b"x", b"y:i", b"{a,b}z"], 1)), (b"p{q,r}#2:i", None), (b"ab", None)]))
    trees.append(leaves([b"{ab,cd}x::i", b"ef", b"gh"], 0))
    trees.append(leaves([b"{ab,cd}x", b"p{q,r}", b"a{b,c}d", b"k"], 0, True))
    trees.append(Tab(0, False, [(b"{on,off}/", leaves([b"x", b"y"], 1)), (b"zz/", leaves([b"{x,y}", b"w"], 2)), (b"v", None)]))
    trees.append(Tab(0, False, [(b"a#2{x,y}/", leaves([b"u{v,w}#3", b"k"], 1)), (b"a#2/{x,y}b/", leaves([b"c"], 2))]))
    got = fetch_tables(trees, lambda s: None)
    dist["tables-from-library"] = bool(got)
    out = []
    for t in trees:
        for tb in walk(t):
            k = "table-hashed" if tb.pos not in ("-", "?") else "table-linear"
            dist[k] = dist.get(k, 0) + 1
            if k == "table-hashed" and len(tb.ports) >= 8:
                dist["table-hashed-with>=8-ports"] = dist.get("table-hashed-with>=8-ports", 0) + 1
            if tb.dflt:
                dist["table-with-default-handler"] = dist.get("table-with-default-handler", 0) + 1
                dist["table-with-default-handler-" + k[6:]] = dist.get("table-with-default-handler-" + k[6:], 0) + 1
            if any(c >= 0x7f for nm, _ in tb.ports for c in nm):
                dist[k + "-with-name-bytes>=0x7f"] = dist.get(k + "-with-name-bytes>=0x7f", 0) + 1
            lit_multi_sub = False
            if any(b"{" in nm for nm, _ in tb.ports):
                plain = not any(b"#" in nm or b"/" in nm.split(b":")[0].rstrip(b"/") for nm, _ in tb.ports)
                kk = "table-with-alternative-names-" + ("and-no-#-no-inner-/:" + k[6:] if plain else "and-#-or-inner-/")
                dist[kk] = dist.get(kk, 0) + 1
            for i, (name, sub) in enumerate(tb.ports):
                key = name.split(b":")[0]
                if b"{" in key:
                    segs = parse_name(name)[0]
                    ia = [j for j, (sk, _) in enumerate(segs) if sk == "A"]
                    where = set()
                    for j in ia:
                        first = j == 0 or (segs[j - 1][0] == "L" and segs[j - 1][1].endswith(b"/"))
                        last = j == len(segs) - 1 or (segs[j + 1][0] == "L" and segs[j + 1][1].startswith(b"/"))
                        where.add("whole" if first and last else "start" if first else "end" if last else "middle")
                    for w in where:
                        kk = "port-alternatives-%s-of-component-%s%s" % (w, "subtree" if sub else "leaf", "-with-#N" if b"#" in key else "")
                        dist[kk] = dist.get(kk, 0) + 1
                if b"/" in key.rstrip(b"/"):
                    kk = "port-multi-component-%s-%s" % ("enumerated" if b"#" in key else "literal", "subtree" if sub else "leaf")
                    dist[kk] = dist.get(kk, 0) + 1
                    lit_multi_sub = lit_multi_sub or (sub is not None)
                if sub and macro_port(tb.tid, i):
                    kk = "subtree-port-served-by-" + ("rRecursCb" if b"#" in key else "rRecurCb")
                    dist[kk] = dist.get(kk, 0) + 1
            if lit_multi_sub and not any(b"#" in nm for nm, _ in tb.ports):
                dist["table-without-#-with-multi-component-subtree-name"] = dist.get("table-without-#-with-multi-component-subtree-name", 0) + 1
        nt = sum(1 for _ in walk(t))
        dist["trees-with-%d-tables" % min(nt, 6)] = dist.get("trees-with-%d-tables" % min(nt, 6), 0) + 1
        s = ".".join(ser(t))
        names_of = {tb.tid: tb for tb in walk(t)}
        seen = set()
        for _ in range(per):
            addr, ty, kind = gen_address(rng, t, dist)
            if (addr, ty) in seen or not P5.addr_ok(addr):
                continue
            # a third of the root dispatches get a location buffer that is not fresh
            stale = gen_stale(rng, t) if rng.random() < 0.33 else None
            if stale is not None:
                kk = "loc-buffer-reused:" + ("holds-'/'" if stale == b"/" else "holds-an-address" if stale[:1] == b"/" else "holds-other-text")
                dist[kk] = dist.get(kk, 0) + 1
            if types_free(t, ty):
                dist["types-extension-of-an-alternative"] = dist.get("types-extension-of-an-alternative", 0) + 1
            sq, fr = expected(t, addr, ty)
            if fr:       # the address reaches such a port: whether it runs has NO VERDICT in the Spec oracle
                dist["no-verdict:address-reaches-a-port-whose-alternative-is-properly-extended"] = dist.get("no-verdict:address-reaches-a-port-whose-alternative-is-properly-extended", 0) + 1
            na = sum(1 for e in sq if e[0] == "E" and b"{" in names_of[e[1]].ports[e[2]][0])
            if na:
                kk = "address-invokes-a-port-with-alternatives" + ("-opening-the-name" if any(
                    e[0] == "E" and names_of[e[1]].ports[e[2]][0][:1] == b"{" for e in sq) else "")
                dist[kk] = dist.get(kk, 0) + 1
            nd = sum(1 for e in sq if e[0] == "D")
            if nd and not fr:
                hashed = any(e[0] == "D" and names_of[e[1]].pos not in ("-", "?") for e in sq)
                kk = "default-handler-expected-in-" + ("hashed" if hashed else "linear") + "-table"
                dist[kk] = dist.get(kk, 0) + 1
            if any(c >= 0x7f for c in addr):
                dist["address-with-byte>=0x7f"] = dist.get("address-with-byte>=0x7f", 0) + 1
            seen.add((addr, ty))
            dist["address-" + kind] = dist.get("address-" + kind, 0) + 1
            out.append("disp %s %s %s %s %s" % (s, hx(addr), hx(ty), kind, hx(stale) if stale else "-"))
    return out

TECHNIQUE = ("Coq proofs about a hand-written model of Ports::dispatch (linear scan, hashed lookup, tree descent) built on "
             "C05's matcher model + differential correspondence on run-time built port trees under ASan with the "
             "library's own hash tables + independent Python Spec oracle")
LEVEL_TEXT = ("Proved per table of Ports::dispatch, for ANY callbacks, any number of ports, any address / type string "
              "(any bytes, no ':'): the loops invoke exactly the ports whose name matches (C05's matcher), once each, in port "
              "order (C04_exactly_matching_*, C04_scan_hits_are_matches); for every literal table the repaired library "
              "hashes - pos/assoc being ANY output of the search - the hashed lookup hits port j iff the linear scan does and "
              "never fails - no read outside the 256-entry letter table - (C04_strategy_independent), at most one port is hit (C04_one_port), the default handler runs only "
              "when none is (C04_default_handler_only_when_no_port_matches) and then on every path, hashed or scanned, with or without buffer "
              "(C04_default_handler_every_path, C04_unhashed_same_calls); whatever the tables are the hashed branch never "
              "invokes a port whose name does not match (C04_hash_sound); the callback sees its own Port, loc = location + "
              "its name, and the buffer is restored (C04_port_pointer_and_loc, C04_loc_restored_*). The pinned functions are "
              "refuted on {ab,ba,aa,bb}, {c,a/b}, {a,bcd} (C04_pinned_refuted, C04_multicomponent_refuted, "
              "C04_prefix_refuted; three fix: commits), the 127-entry plain-char letter table on {ab,cd,ef} with /\\xe9\\xe9 "
              "(C04_highbyte_refuted, fix 7baa3a8) and the default handler that ran on one path only (C04_default_path_refuted, fix 0074cc3). Proved for a tree of any depth (Ports/TreeProofs.v): a root dispatch "
              "logs exactly spec_events with and without buffer (C04_tree_dispatch_*), matches = leaf callbacks "
              "(C04_matches_count), own Port (C04_port_pointer), same callbacks and the same default-handler calls with and without buffer "
              "(C04_tree_strategy_independent), never the model's error event (C04_no_error, C04_spec_events_no_error), one leaf for an addressed path (C04_exactly_one_leaf); for names of the "
              "documented form with ANY number of address components (a#2/b#3/, x/y/, a#2/k#2:i) every callback's loc is a "
              "prefix of the full address and a leaf's loc is the full address (C04_loc_full_address), the table below a "
              "sub-tree port receives exactly what follows the matched name (C04_snip_strips_matched_name), the index handed "
              "down is the one spelled at the '#' (C04_index_at_hash_partial). Names with alternatives {a,b,..}: the model's matcher is C05's "
              "match_path, so every tree theorem covers them; C04_loc_full_address and C04_snip_strips_matched_name hold for alternatives "
              "without '/' and ':' (alts_plain); the pinned code hashed { {ab,cd}x, ef, gh } and put the name's text into loc "
              "(C04_alternatives_refuted, two fix: commits, C04_alternatives_repaired; example C04_alternatives_nonvacuous: "
              "{on,off}/ and p{q,r}#2:i).")
LEVEL_NOTE = ("Trusted: Coq kernel, extraction, OCaml driver, harness (run-time built Ports, re-dispatching callbacks), the hook "
              "Ports::verif_tables, generators, the Python Spec oracle. The perfect-hash search is not modelled: its output "
              "is an input. Strategy independence is stated for literal single-component names (what the library hashes); "
              "tables with '#' or '{' names take the linear scan in both runs. C04_index_at_hash_partial is stated for a literal prefix in front of the '#'.")
