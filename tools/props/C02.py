"""C02: fixed-buffer discipline - never write past the caller's buffer, fail closed."""
from props.osc_common import *
import struct

HARNESS = ["h_osc.cpp"]
DRIVER = "OSC"
VARIANT = "asan"
RULE = ("every generated message (C01's generator) and bundle (0..8 elements, messages and nested bundles) is built "
        "into an exact-size heap block, pre-filled with 0xAA, under AddressSanitizer (red zones on both sides), for "
        "every capacity 0..needed+8 when the encoding is short (messages <= 60 bytes, bundles <= 80 bytes) and, for "
        "longer ones, every capacity within +-8 of the needed size plus a 10-15% sample of the capacities below; all "
        "three message constructors (rtosc_amessage, rtosc_vmessage, rtosc_avmessage) and the NULL probe. Return value "
        "and the whole block are compared between model and implementation; the Spec oracle demands the return value, "
        "an all-zero block on failure and the encoding at the front of the block on success. Non-trivial = capacity "
        "within +-8 of the needed size; distinct by case text.")
TRUSTED = ["AddressSanitizer (an out-of-bounds write aborts the harness, which shows up as CRASH)",
           "harness/h_osc.cpp: rtosc_bundle is called through a fixed-arity switch (0..8 elements)"]
ASSUMPTIONS = ["a NESTED-BUNDLE element pointer handed to rtosc_bundle is followed by a zero word (the API's precondition: bundles "
               "are not self-delimiting); message elements may be followed by anything or by the end of their block",
               "ThreadLink::write/writeArray (cap = MaxMsg) and RtData::reply/broadcast (cap = 8192) are not modelled: "
               "C02_fixed_capacity is the capacity-generic theorem read at a fixed capacity; the callers themselves are tied "
               "only by the correspondence streams rt and tl (they must forward exactly what the model of the constructor "
               "yields for that capacity, or nothing)",
               "the address is not the exact string #bundle (not_bundle_addr); total encoded size < 2^32 and blob lengths < 2^31 "
               "(the code's unsigned / int32 arithmetic is modelled without wrap-around in the encoder)"]
TECHNIQUE = ("Coq proof about a write-chunk model of rtosc_amessage / rtosc_bundle with explicit capacity (out-of-bounds writes "
             "representable) + differential correspondence for every capacity 0..needed+8 under ASan")
LEVEL_TEXT = ("Theorems in coq/Properties_C02.v: for every capacity, the model of rtosc_amessage never writes outside the "
              "destination, returns 0 with an all-zero buffer when the encoding does not fit, the exact size otherwise, and the "
              "NULL probe returns that size; same for rtosc_bundle. Tied to the code by running model and implementation for "
              "every capacity around the needed size and comparing the whole destination block.")
LEVEL_NOTE = "Trusted: Coq kernel, extraction, driver, harness, ASan, generator. The C code is modelled by hand (coq/Osc/OscModel.v)."

def tree_bytes(t):
    if t[0] == "M":
        return t[1]
    body = b"#bundle\0" + struct.pack(">Q", t[1])
    for k in t[2]:
        kb = tree_bytes(k)
        body += struct.pack(">I", len(kb)) + kb
    return body

def gen_tree(rng, depth):
    if depth == 0 or rng.random() < 0.55:
        a, t, ar = gen_message(rng)
        return ("M", enc_spec(a, t, ar))
    n = rng.choice([0, 1, 1, 2, 2, 3, 4, 8])
    tt = rng.choice([0, 1, 2**64 - 1, rng.getrandbits(64)])
    return ("B", tt, [gen_tree(rng, depth - 1) for _ in range(n)])

def gen(rng, tier, dist):
    out = []
    nm = 150 if tier == "quick" else 4000
    for _ in range(nm):
        a, t, ar = gen_message(rng)
        if rng.random() < 0.5:
            t = t[:6]; ar = [gen_value(rng, x) for x in t if reserved(x)]
        need = len(enc_spec(a, t, ar))
        for cap in range(0, need + 9):
            if need > 60 and 8 < cap < need - 8 and rng.random() < 0.85:
                continue
            out.append("cap %d %s %s %s" % (cap, a.hex(), hx(t.encode()), show_args(ar)))
            dist["message-capacities"] = dist.get("message-capacities", 0) + 1
    # fixed-capacity callers: RtData::reply / broadcast (8192-byte stack buffer)
    for _ in range(60 if tier == "quick" else 2000):
        a = gen_addr(rng)
        t = rng.choice(["s", "ss", "b", "is", "sb"])
        over = len(pad4z(a)) + len(pad4z(b"," + t.encode()))
        target = 8192 + rng.choice([-8, -4, 0, 0, 4, 8, 100, -100])
        ar = []
        for k, x in enumerate(t):
            last = k == len(t) - 1
            if x == "i":
                ar.append(("4", rng.getrandbits(32))); over += 4
            elif x == "s":
                n = max(0, target - over - 4) if last else rng.choice([0, 3, 8])
                n = max(0, n - rng.choice([0, 1, 2, 3]))
                ar.append(("s", rand_bytes(rng, n, nonul=True))); over += len(pad4z(ar[-1][1]))
            else:
                n = max(0, target - over - 4) if last else rng.choice([0, 3, 8])
                ar.append(("b", n, rand_bytes(rng, n))); over += len(enc_payload(ar[-1]))
        out.append("rt %s %s %s" % (a.hex(), hx(t.encode()), show_args(ar)))
        dist["reply-8192"] = dist.get("reply-8192", 0) + 1
    # fixed-capacity callers: ThreadLink::writeArray / write (MaxMsg-byte write buffer, ring of MaxMsg*n)
    for _ in range(150 if tier == "quick" else 4000):
        maxmsg = rng.choice([16, 24, 32, 64]); nm = rng.choice([1, 2, 4])
        a = gen_addr(rng)[:rng.choice([2, 4, 5, 8])]
        t = rng.choice(["s", "ss", "b", "is", "sb", "", "i", "hs", "si"])
        over = len(pad4z(a)) + len(pad4z(b"," + t.encode()))
        target = rng.choice([maxmsg, maxmsg * nm]) + rng.choice([-8, -4, 0, 0, 4, 8, 12])
        ar = []
        for k, x in enumerate(t):
            last = k == len(t) - 1
            if x == "i":
                ar.append(("4", rng.getrandbits(32))); over += 4
            elif x == "h":
                ar.append(("8", rng.getrandbits(64))); over += 8
            elif x == "s":
                n = max(0, target - over - 4) if last else rng.choice([0, 3])
                n = max(0, n - rng.choice([0, 1, 2, 3]))
                ar.append(("s", rand_bytes(rng, n, nonul=True))); over += len(pad4z(ar[-1][1]))
            else:
                n = max(0, target - over - 4) if last else rng.choice([0, 3])
                ar.append(("b", n, rand_bytes(rng, n))); over += len(enc_payload(ar[-1]))
        out.append("tl %d %d %s %s %s" % (maxmsg, nm, a.hex(), hx(t.encode()), show_args(ar)))
        dist["threadlink-write"] = dist.get("threadlink-write", 0) + 1
    nb = 60 if tier == "quick" else 1500
    for _ in range(nb):
        n = rng.choice([0, 1, 2, 3, 5, 8])
        els = [tree_bytes(gen_tree(rng, rng.choice([0, 0, 1, 2]))) for _ in range(n)]
        tt = rng.choice([0, 1, 2**64 - 1, rng.getrandbits(64)])
        need = 16 + sum(4 + len(e) for e in els)
        for cap in range(0, need + 9):
            if need > 80 and 20 < cap < need - 8 and rng.random() < 0.9:
                continue
            out.append("bcap %d %d %s" % (cap, tt, ",".join(e.hex() for e in els) if els else "-"))
            dist["bundle-capacities"] = dist.get("bundle-capacities", 0) + 1
    return out

def spec_check(case, impl):
    f = case.split(" ")
    got = parse_fields(impl)
    if f[0] == "tl":
        maxmsg, nm = int(f[1]), int(f[2])
        addr = bytes.fromhex(f[3]); tags = "" if f[4] == "-" else bytes.fromhex(f[4]).decode("latin1")
        enc = enc_spec(addr, tags, parse_args(f[5]))
        want = "EMPTY" if (len(enc) > maxmsg or len(enc) > maxmsg * nm - 1) else enc.hex()
        if impl.startswith("CRASH") or impl == "NOOUT":
            return "buffer-discipline: ThreadLink write crashed (%s)" % impl[:300]
        if got.get("wa") != want or got.get("w") not in (want, "na"):
            return ("buffer-discipline: ThreadLink(%d,%d) write of a %d-byte message queued %s / %s, the property demands %s"
                    % (maxmsg, nm, len(enc), str(got.get("wa"))[:50], str(got.get("w"))[:50], want[:50]))
        return None
    if f[0] == "rt":
        addr = bytes.fromhex(f[1]); tags = bytes.fromhex(f[2]).decode("latin1")
        enc = enc_spec(addr, tags, parse_args(f[3]))
        want = "EMPTY" if len(enc) > 8192 else enc.hex()
        if impl.startswith("CRASH") or impl == "NOOUT":
            return "buffer-discipline: RtData::reply/broadcast crashed (%s)" % impl[:300]
        if got.get("rp") != want or got.get("bc") != want:
            return ("buffer-discipline: RtData::reply/broadcast (capacity 8192, needed %d) forwarded %s / %s, "
                    "the property demands %s" % (len(enc), str(got.get("rp"))[:60], str(got.get("bc"))[:60], want[:60]))
        return None
    if f[0] == "cap":
        cap = int(f[1]); addr = bytes.fromhex(f[2]); tags = "" if f[3] == "-" else bytes.fromhex(f[3]).decode("latin1")
        enc = enc_spec(addr, tags, parse_args(f[4]))
        if cap < len(enc):
            exp = {"p": str(len(enc)), "r": "0", "b": hx(b"\0" * cap)}
        else:
            # the text demands the exact size and no write outside the block (ASan's business);
            # what a constructor leaves BEHIND the encoding inside the block is the tie's business
            exp = {"p": str(len(enc)), "r": str(len(enc)), "b[:n]": hx(enc)}
            got["b[:n]"] = got.get("b", "")[:2 * len(enc)]
        # rtosc_vmessage and rtosc_avmessage into a dirty block of the same capacity
        if cap < len(enc):
            for k in ("V", "A"):
                v = got.get(k, "")
                if ":" in v and v.split(":", 1) == ["0", hx(b"\0" * cap)]:
                    got[k] = "same"
            exp["V"] = "same"; exp["A"] = "same"
        else:
            # same size and same encoding from the other two constructors
            for k in ("V", "A"):
                v = got.get(k, "")
                if v not in ("same", "na") and ":" in v:
                    rv, hb = v.split(":", 1)
                    if rv == str(len(enc)) and hb[:2 * len(enc)] == hx(enc):
                        got[k] = "same"
            exp["V"] = "same"; exp["A"] = "same"
        for k in ("V", "A"):
            if got.get(k) == "na": got[k] = "same"
    else:
        cap = int(f[1]); tt = int(f[2])
        els = [] if f[3] == "-" else [bytes.fromhex(h) for h in f[3].split(",")]
        enc = b"#bundle\0" + struct.pack(">Q", tt) + b"".join(struct.pack(">I", len(e)) + e for e in els)
        if cap < len(enc):
            exp = {"r": "0", "b": hx(b"\0" * cap)}
        else:
            exp = {"r": str(len(enc)), "b[:n]": hx(enc)}
            got["b[:n]"] = got.get("b", "")[:2 * len(enc)]
    bad = [k for k in exp if got.get(k) != exp[k]]
    if impl.startswith("CRASH") or impl == "NOOUT":
        return "buffer-discipline: the implementation crashed (%s)" % impl[:300]
    if bad:
        return "buffer-discipline: capacity %d, fields %s: got %s, the property demands %s" % (
            cap, bad, {k: got.get(k) for k in bad}, {k: exp[k] for k in bad})
    return None

def nontrivial(case, impl):
    g = parse_fields(impl)
    return True if "r" in g else False
canon = canon
