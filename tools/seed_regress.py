#!/usr/bin/env python3
"""seed_regress.py [ID-prefix ...]: re-apply every seeded change under seeded/ to
/repo (one at a time, reverted afterwards), run the quick tier of the property's
own check and - when that stays quiet - the checks its meta.json records as the
ones that caught it.  Writes seeded/REGRESS.json (which check catches which
change on the current tree).  The repository worked on is $VERIF_REPO (default
/repo; use a scratch worktree pair to run this beside other work); it must be
clean; nothing is committed there."""
import sys, os, json, subprocess, glob, re, time
V = os.path.dirname(os.path.dirname(os.path.abspath(__file__)))
R = os.environ.get("VERIF_REPO", "/repo")
def sh(cmd, timeout=3600):
    p = subprocess.run(cmd, shell=True, stdout=subprocess.PIPE, stderr=subprocess.STDOUT, timeout=timeout)
    return p.returncode, p.stdout.decode("utf-8", "replace")
assert sh("git -C %s status --porcelain --untracked-files=no" % R)[1].strip() == "", R + " not clean"
want = sys.argv[1:]
res = {}
out = os.path.join(V, "seeded", "REGRESS.json")
if os.path.exists(out) and want:
    res = json.load(open(out))
for d in sorted(glob.glob(os.path.join(V, "seeded", "C*"))):
    sid = os.path.basename(d)
    if want and not any(sid.startswith(w) for w in want): continue
    pid = sid.split("-")[0]
    patch = os.path.join(d, "patch.diff")
    if not os.path.exists(patch): continue
    meta = json.load(open(os.path.join(d, "meta.json")))
    rc, o = sh("git -C %s apply %s" % (R, patch))
    how = "git apply"
    if rc != 0:
        sh("git -C %s checkout -- ." % R)
        rc, o = sh("cd %s && patch -p1 --fuzz=3 --no-backup-if-mismatch < %s" % (R, patch))
        how = "patch --fuzz=3"
        if rc != 0:
            sh("git -C %s checkout -- . && git -C %s clean -fdq -e _build" % (R, R))
            res[sid] = {"applies": False}
            print(sid, "does not apply any more", flush=True)
            continue
    r = {"applies": True, "how": how, "checks": {}}
    todo = [(pid, "quick")]
    for k, v in meta.get("detection", {}).items():
        m = re.match(r"(C\d\d)/(quick|thorough)", k)
        if m and v.get("exit") == 1 and (m.group(1), m.group(2)) not in todo:
            todo.append((m.group(1), m.group(2)))
    caught = None
    try:
        for cid, tier in todo:
            t0 = time.time()
            rc, o = sh("cd %s && python3 tools/vcheck.py %s --tier %s" % (V, cid, tier))
            vl = [l for l in o.split("\n") if l.startswith("VIOLATION")]
            r["checks"]["%s/%s" % (cid, tier)] = {"exit": rc, "no_failing_input": any("no-failing-input-found" in l for l in vl), "secs": round(time.time() - t0)}
            if rc == 1 and vl:
                caught = "%s/%s" % (cid, tier); break
    finally:
        sh("git -C %s checkout -- . && git -C %s clean -fdq -e _build" % (R, R))
    r["caught_by"] = caught
    res[sid] = r
    print(sid, how, caught, r["checks"], flush=True)
    json.dump(res, open(out, "w"), indent=1, sort_keys=True)
sh("find %s/evidence/replays -name '*.json' -delete" % V)
print("DONE", sum(1 for v in res.values() if v.get("caught_by")), "caught of", sum(1 for v in res.values() if v.get("applies")), "applicable;", sum(1 for v in res.values() if not v.get("applies")), "no longer apply")
