// C17 harness: Port::meta() iteration / find / operator[] / length on a
// run-time supplied metadata block.
//   case:   meta <hexblock> <hexkey>,<hexkey>,... <spec> [macro=<n>]
//   output: it=<t>:<v>;... len=<n> q=<t>:<v>,... ent=<hex title>[=<hex value>];... qv=<hex value | ~>,...
//           (offsets from the block start; ent / qv: the strings the pointers lead to, - = empty, ~ = NULL)
//   macro=<n>: the block read is NOT the one in the case line but the one the
//   library's own macros wrote at compile time for the port
//       rOption(o<n>, rOptions(<n symbols>), "d")        (harness/h_C14_options.h,
//   one port per argument count n = 1..24 of the rOptions(...) family); the
//   case line carries what that invocation says it writes.
// Every block is read twice: from an exact-size heap copy (ASan sees reads past
// it) and from one arena that all cases share, so that the same address holds
// a different block in every case (a result may depend on the bytes only).
#include "hcommon.h"
#include <rtosc/ports.h>
#include <rtosc/port-sugar.h>
using namespace rtosc;
#include "h_C14_options.h"

static std::string read_block(const char *base, const std::vector<std::string> &keys)
{
    rtosc::Port port{"x", base, nullptr, nullptr};
    auto m = port.meta();
    std::ostringstream o;
    o << "it=";
    bool first = true;
    for(const auto x : m) {
        if(!first) o << ";";
        first = false;
        o << (x.title - base) << ":" << (x.value ? x.value - base : -1);
    }
    o << " len=" << m.length() << " q=";
    std::ostringstream ent, qv;
    first = true;
    for(const auto x : m) {
        if(!first) ent << ";";
        first = false;
        ent << hex(x.title, strlen(x.title));
        if(x.value) ent << "=" << hex(x.value, strlen(x.value));
    }
    first = true;
    for(auto &key : keys) {
        const char *val = m[key.c_str()];
        qv << (first ? "" : ",") << (val ? hex(val, strlen(val)) : std::string("~"));
        auto it = m.find(key.c_str());
        const char *v = m[key.c_str()];
        if(!first) o << ",";
        first = false;
        long to = it.title ? it.title - base : -1;
        long vo = v ? v - base : -1;
        // find's iterator carries the same value pointer operator[] returns
        if(it.title && it.value != v) o << "MISMATCH";
        o << to << ":" << vo;
    }
    o << " ent=" << ent.str() << " qv=" << qv.str();
    return o.str();
}

int main()
{
    static char arena[1 << 16];
    std::string line;
    while(std::getline(std::cin, line)) {
        auto f = split(line, ' ');
        if(f.size() < 3 || f[0] != "meta") { puts("BADCASE"); continue; }
        auto bytes = unhex(f[1]);
        if(f.size() >= 5 && f[4].compare(0, 6, "macro=") == 0) {
            // the block a macro invocation of the library wrote, copied up to its terminating empty string
            int n = atoi(f[4].c_str() + 6);
            if(n < 1 || n > OPT_COUNTS) { puts("BADCASE"); continue; }
            const char *base = Opt::ports.ports[n - 1].metadata, *p = base;
            while(*p) p += strlen(p) + 1;
            bytes.assign((const uint8_t*)base, (const uint8_t*)p + 1);
        }
        std::vector<std::string> keys;
        for(auto &hk : split(f[2], ',')) {
            auto kb = unhex(hk);
            keys.emplace_back(kb.begin(), kb.end());
        }
        ExactBuf blk(bytes);
        std::string a = read_block((const char*)blk.p, keys);
        if(bytes.size() + 2 <= sizeof arena) {
            memcpy(arena, bytes.data(), bytes.size());
            arena[bytes.size()] = arena[bytes.size() + 1] = 0;
            std::string b = read_block(arena, keys);
            if(a != b) a += " SAME-ADDRESS-READ=" + b;
            // ... and directly afterwards a different block at that address
            static const std::vector<uint8_t> tiny = {':', 'q', 0, '=', 'r', 's', 0, 0};
            static const std::string t0 = [] { ExactBuf t(tiny); return read_block((const char*)t.p, {"q", "z"}); }();
            memcpy(arena, tiny.data(), tiny.size());
            std::string t1 = read_block(arena, {"q", "z"});
            if(t0 != t1) a += " SAME-ADDRESS-REREAD=" + t1 + " expected " + t0;
        }
        puts(a.c_str());
    }
    return 0;
}
