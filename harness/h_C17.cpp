// C17 harness: Port::meta() iteration / find / operator[] / length on a
// run-time supplied metadata block.
//   case:   meta <hexblock> <hexkey>,<hexkey>,...
//   output: it=<t>:<v>;... len=<n> q=<t>:<v>,...
#include "hcommon.h"
#include <rtosc/ports.h>

int main()
{
    std::string line;
    while(std::getline(std::cin, line)) {
        auto f = split(line, ' ');
        if(f.size() < 3 || f[0] != "meta") { puts("BADCASE"); continue; }
        ExactBuf blk(unhex(f[1]));
        const char *base = (const char*)blk.p;
        rtosc::Port port{"x", base, nullptr, nullptr};
        auto m = port.meta();
        std::ostringstream o;
        o << "it=";
        bool first = true;
        for(const auto x : m) {
            if(!first) o << ";";
            first = false;
            o << (x.title - base) << ":" << (x.value ? x.value - base : -1);
        }
        o << " len=" << m.length() << " q=";
        first = true;
        for(auto &hk : split(f[2], ',')) {
            auto kb = unhex(hk);
            std::string key(kb.begin(), kb.end());
            auto it = m.find(key.c_str());
            const char *v = m[key.c_str()];
            if(!first) o << ",";
            first = false;
            long to = it.title ? it.title - base : -1;
            long vo = v ? v - base : -1;
            // find's iterator carries the same value pointer operator[] returns
            if(it.title && it.value != v) o << "MISMATCH";
            o << to << ":" << vo;
        }
        puts(o.str().c_str());
    }
    return 0;
}
