// C16 harness: rtosc_arg_vals_eq / rtosc_arg_vals_cmp / the arg-val iterator /
// rtosc_avmessage on run-time supplied argument-value lists.
//
// A list is "-" (empty) or slots joined by ',':
//   i:<dec> c:<dec> r:<dec>   val.i (signed)        h:<dec> signed 64   t:<dec> unsigned 64
//   f:<8 hex> d:<16 hex>      bit patterns           m:<8 hex>
//   s:<hex>|s:-|s:N  S:...    string / empty / NULL  b:<hex>|b:-  blob
//   T F N I                                          a:<elemtype dec>:<len>   array header
//   R:<num>:<has_delta>       range header ('-')
// a trailing field "#alias=<1|2|3>" makes blob data / strings of all lists of the case share
// storage (see struct Pool); every slot is pre-filled with a varying byte pattern
// cases:
//   laws <L1> <L2> ... <Lk> [ignored]   -> cmp=<k*k signs, row major> eq=<k*k 0/1>
//   comp <addrhex> <B> <V0> ... <Vk>    -> per variant Vi, joined by " | ":
//        e<eq(Vi,B)><eq(B,Vi)>c<cmp(Vi,B)><cmp(B,Vi)>s<cmp(Vi,V0)><eq(Vi,V0)> it=<iteration> msg=<hex|ERR|->
//        (msg=- for the empty list: rtosc_avmessage is not called with 0 values)
#include "hcommon.h"
#include <rtosc/rtosc.h>
#include <rtosc/arg-ext.h>
#include <rtosc/arg-val.h>
#include <rtosc/arg-val-cmp.h>
#include <rtosc/arg-val-itr.h>
#include <memory>
#include <algorithm>

struct AvList {
    rtosc_arg_val_t *p = nullptr; size_t n = 0;
    std::vector<void*> owned;
    bool bad = false;
    ~AvList() { for(void *q : owned) free(q); free(p); }
};

static void *exact(const std::vector<uint8_t> &v, bool nul, std::vector<void*> &owned)
{
    size_t n = v.size() + (nul ? 1 : 0);
    uint8_t *q = (uint8_t*)malloc(n ? n : 1);   // exact size: ASan sees every overrun
    if(v.size()) memcpy(q, v.data(), v.size());
    if(nul) q[v.size()] = 0;
    owned.push_back(q);
    return q;
}

// Storage of blob data and strings.  A trailing case field "#alias=<mode>"
// makes the values of ALL lists of the case share storage (the model compares
// contents, so this must not change any result):
//   0 (default) every value has its own exact-size buffer
//   1 blobs: a blob that is a prefix of a longer one is a view of it (same data
//     pointer, smaller len; the empty blob too); strings: equal strings share one buffer
//   2 blobs: any sub-sequence of a longer blob is a view data+k (overlapping views);
//     strings: a string that is a suffix of a longer one is a view s+k
//   3 equal contents share one buffer (identical pointer and length), nothing else
struct Pool {
    int mode = 0;
    std::vector<std::vector<uint8_t>> want_b, want_s;   // contents seen in the case
    std::vector<std::pair<uint8_t*, size_t>> bufs_b, bufs_s;
    std::vector<void*> owned;
    ~Pool() { for(void *q : owned) free(q); }
    static const uint8_t *find(const std::vector<std::pair<uint8_t*, size_t>> &bufs,
                               const std::vector<uint8_t> &v, size_t vlen, int how)
    {   // how: 0 prefix, 1 anywhere, 2 suffix, 3 whole
        for(auto &b : bufs) {
            if(vlen > b.second) continue;
            size_t lo = (how == 2) ? b.second - vlen : 0;
            size_t hi = (how == 0 || how == 3) ? 0 : b.second - vlen;
            if(how == 3 && vlen != b.second) continue;
            for(size_t k = lo; k <= hi; ++k)
                if(vlen == 0 || memcmp(b.first + k, v.data(), vlen) == 0) return b.first + k;
        }
        return nullptr;
    }
    void build()
    {   // longest first, so that the shorter contents become views
        auto bylen = [](const std::vector<uint8_t> &a, const std::vector<uint8_t> &b) { return a.size() > b.size(); };
        std::stable_sort(want_b.begin(), want_b.end(), bylen);
        std::stable_sort(want_s.begin(), want_s.end(), bylen);
        for(auto &v : want_b)
            if(!find(bufs_b, v, v.size(), mode == 1 ? 0 : mode == 2 ? 1 : 3))
                bufs_b.emplace_back((uint8_t*)exact(v, false, owned), v.size());
        for(auto &v : want_s) {
            std::vector<uint8_t> z(v); z.push_back(0);
            if(!find(bufs_s, z, z.size(), mode == 2 ? 2 : 3))
                bufs_s.emplace_back((uint8_t*)exact(z, false, owned), z.size());
        }
    }
    uint8_t *blob(const std::vector<uint8_t> &v)
    { return (uint8_t*)find(bufs_b, v, v.size(), mode == 1 ? 0 : mode == 2 ? 1 : 3); }
    const char *str(const std::vector<uint8_t> &v)
    { std::vector<uint8_t> z(v); z.push_back(0); return (const char*)find(bufs_s, z, z.size(), mode == 2 ? 2 : 3); }
};
static Pool *pool = nullptr;       // non-null while a case with #alias is handled

static void pool_scan(Pool &P, const std::string &txt)
{
    if(txt == "-") return;
    for(auto &tok : split(txt, ',')) {
        if(tok.size() < 2 || tok[1] != ':') continue;
        if(tok[0] == 'b') P.want_b.push_back(unhex(tok.substr(2)));
        if((tok[0] == 's' || tok[0] == 'S') && tok.substr(2) != "N") P.want_s.push_back(unhex(tok.substr(2)));
    }
}

// every rtosc_arg_val_t starts out filled with a pattern that differs from slot
// to slot: padding bytes and the union members the tag does not select carry
// no information, the model ignores them
static unsigned dirt = 0;

static void parse_list(const std::string &txt, AvList &L)
{
    std::vector<rtosc_arg_val_t> v;
    if(txt != "-")
    for(auto &tok : split(txt, ',')) {
        rtosc_arg_val_t a; memset(&a, 0x5a ^ (int)(++dirt * 37u), sizeof a);
        auto f = split(tok, ':');
        if(f.empty() || f[0].size() != 1) { L.bad = true; return; }
        char t = f[0][0];
        switch(t) {
        case 'i': case 'c': case 'r': a.type = t; a.val.i = (int32_t)strtoll(f[1].c_str(), 0, 10); break;
        case 'h': a.type = t; a.val.h = strtoll(f[1].c_str(), 0, 10); break;
        case 't': a.type = t; a.val.t = strtoull(f[1].c_str(), 0, 10); break;
        case 'f': { a.type = t; uint32_t b = (uint32_t)strtoull(f[1].c_str(), 0, 16); memcpy(&a.val.f, &b, 4); break; }
        case 'd': { a.type = t; uint64_t b = strtoull(f[1].c_str(), 0, 16); memcpy(&a.val.d, &b, 8); break; }
        case 'm': { a.type = t; auto b = unhex(f[1]); for(int k = 0; k < 4 && k < (int)b.size(); ++k) a.val.m[k] = b[k]; break; }
        case 's': case 'S':
            a.type = t;
            a.val.s = (f[1] == "N") ? nullptr
                    : pool ? pool->str(unhex(f[1])) : (const char*)exact(unhex(f[1]), true, L.owned);
            break;
        case 'b': { a.type = t; auto b = unhex(f[1]); a.val.b.len = (int32_t)b.size();
                    a.val.b.data = pool ? pool->blob(b) : (uint8_t*)exact(b, false, L.owned); break; }
        case 'T': a.type = 'T'; a.val.T = 1; break;
        case 'F': a.type = 'F'; a.val.T = 0; break;
        case 'N': case 'I': a.type = t; break;
        case 'a': a.type = 'a'; rtosc_av_arr_type_set(&a, (char)atoi(f[1].c_str()));
                  rtosc_av_arr_len_set(&a, atoi(f[2].c_str())); break;
        case 'R': a.type = '-'; rtosc_av_rep_num_set(&a, atoi(f[1].c_str()));
                  rtosc_av_rep_has_delta_set(&a, atoi(f[2].c_str())); break;
        default: L.bad = true; return;
        }
        v.push_back(a);
    }
    L.n = v.size();
    L.p = (rtosc_arg_val_t*)malloc(L.n ? L.n * sizeof(rtosc_arg_val_t) : 1);
    if(L.n) memcpy(L.p, v.data(), L.n * sizeof(rtosc_arg_val_t));
}

static char sgn(int x) { return x < 0 ? '-' : x > 0 ? '+' : '0'; }

static void print_val(const rtosc_arg_val_t *c, std::string &o, bool *null_string);

// init; while(itr.i < size) { get; next } - arrays entered with a fresh
// iterator on the slots behind the header, as eq_single/cmp_single do
static void iterate(const rtosc_arg_val_t *a, size_t n, std::string &o, char sep, bool *null_string)
{
    rtosc_arg_val_itr it;
    rtosc_arg_val_itr_init(&it, a);
    bool first = true;
    int guard = 0;
    while(it.i < n) {
        if(++guard > 100000) { o += "LOOP"; return; }
        rtosc_arg_val_t buf;
        const rtosc_arg_val_t *cur = rtosc_arg_val_itr_get(&it, &buf);
        if(!first) o.push_back(sep);
        first = false;
        print_val(cur, o, null_string);
        rtosc_arg_val_itr_next(&it);
    }
    if(first) o += "-";
}

static void print_val(const rtosc_arg_val_t *c, std::string &o, bool *null_string)
{
    char tmp[64];
    switch(c->type) {
    case 'i': case 'c': case 'r': snprintf(tmp, sizeof tmp, "%c:%d", c->type, (int)c->val.i); o += tmp; break;
    case 'h': snprintf(tmp, sizeof tmp, "h:%lld", (long long)c->val.h); o += tmp; break;
    case 't': snprintf(tmp, sizeof tmp, "t:%llu", (unsigned long long)c->val.t); o += tmp; break;
    case 'f': { uint32_t b; memcpy(&b, &c->val.f, 4); snprintf(tmp, sizeof tmp, "f:%08x", b); o += tmp; break; }
    case 'd': { uint64_t b; memcpy(&b, &c->val.d, 8); snprintf(tmp, sizeof tmp, "d:%016llx", (unsigned long long)b); o += tmp; break; }
    case 'm': o += "m:" + hex(c->val.m, 4); break;
    case 's': case 'S':
        o.push_back(c->type); o.push_back(':');
        if(!c->val.s) { o += "N"; if(null_string) *null_string = true; }
        else o += hex(c->val.s, strlen(c->val.s));
        break;
    case 'b': o += "b:" + hex(c->val.b.data, (size_t)c->val.b.len); break;
    case 'T': case 'F': case 'N': case 'I': o.push_back(c->type); break;
    case 'a':
        snprintf(tmp, sizeof tmp, "a:%d[", (int)rtosc_av_arr_type(c)); o += tmp;
        iterate(c + 1, (size_t)rtosc_av_arr_len(c), o, ';', nullptr);
        o += "]";
        break;
    default: o += "?"; break;
    }
}

int main()
{
    std::string line;
    static char msgbuf[1024];
    while(std::getline(std::cin, line)) {
        auto f = split(line, ' ');
        std::string o;
        Pool P;
        pool = nullptr;
        for(auto &x : f)
            if(x.compare(0, 7, "#alias=") == 0) P.mode = atoi(x.c_str() + 7);
        if(P.mode >= 1 && P.mode <= 3) {
            for(size_t k = (f[0] == "comp" ? 2 : 1); k < f.size() && !f[k].empty() && f[k][0] != '#'; ++k)
                pool_scan(P, f[k]);
            P.build();
            pool = &P;
        }
        if(f.size() >= 2 && f[0] == "laws") {
            std::vector<std::unique_ptr<AvList>> Ls;
            bool bad = false;
            for(size_t k = 1; k < f.size(); ++k) {
                if(f[k].empty() || f[k][0] == '#') break;     // trailing fields for the oracle
                Ls.emplace_back(new AvList); parse_list(f[k], *Ls.back()); bad |= Ls.back()->bad;
            }
            if(bad) { puts("BADCASE"); continue; }
            std::string c = "cmp=", e = " eq=";
            for(auto &x : Ls) for(auto &y : Ls) {
                c.push_back(sgn(rtosc_arg_vals_cmp(x->p, y->p, x->n, y->n, NULL)));
                e.push_back(rtosc_arg_vals_eq(x->p, y->p, x->n, y->n, NULL) ? '1' : '0');
            }
            o = c + e;
        } else if(f.size() >= 4 && f[0] == "comp") {
            auto ab = unhex(f[1]);
            std::string addr(ab.begin(), ab.end());
            AvList B; parse_list(f[2], B);
            std::vector<std::unique_ptr<AvList>> Vs;
            bool bad = B.bad;
            for(size_t k = 3; k < f.size(); ++k) {
                if(f[k].empty() || f[k][0] == '#') break;
                Vs.emplace_back(new AvList); parse_list(f[k], *Vs.back()); bad |= Vs.back()->bad;
            }
            if(bad || Vs.empty()) { puts("BADCASE"); continue; }
            AvList &V0 = *Vs[0];
            bool firstv = true;
            for(auto &vp : Vs) {
                AvList &V = *vp;
                if(!firstv) o += " | ";
                firstv = false;
                o.push_back('e');
                o.push_back(rtosc_arg_vals_eq(V.p, B.p, V.n, B.n, NULL) ? '1' : '0');
                o.push_back(rtosc_arg_vals_eq(B.p, V.p, B.n, V.n, NULL) ? '1' : '0');
                o.push_back('c');
                o.push_back(sgn(rtosc_arg_vals_cmp(V.p, B.p, V.n, B.n, NULL)));
                o.push_back(sgn(rtosc_arg_vals_cmp(B.p, V.p, B.n, V.n, NULL)));
                o.push_back('s');
                o.push_back(sgn(rtosc_arg_vals_cmp(V.p, V0.p, V.n, V0.n, NULL)));
                o.push_back(rtosc_arg_vals_eq(V.p, V0.p, V.n, V0.n, NULL) ? '1' : '0');
                o += " it=";
                bool null_string = false;
                iterate(V.p, V.n, o, ',', &null_string);
                o += " msg=";
                if(null_string) o += "ERR";     // rtosc_amessage dereferences the string
                else if(V.n == 0) o += "-";     // zero-length VLA in rtosc_avmessage: not called
                else {
                    memset(msgbuf, 0xaa, sizeof msgbuf);
                    size_t len = rtosc_avmessage(msgbuf, sizeof msgbuf, addr.c_str(), V.n, V.p);
                    o += len ? hex(msgbuf, len) : "ERR";
                    for(size_t k = len; len && k < sizeof msgbuf; ++k)   // the destination behind the message
                        if((unsigned char)msgbuf[k] != 0xaa) { o += "TAIL"; break; }
                }
            }
        } else { puts("BADCASE"); continue; }
        puts(o.c_str());
    }
    return 0;
}
