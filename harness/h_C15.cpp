// C15 harness: rtosc::UndoHistory driven by operation histories with a
// controlled clock (this executable defines time() itself, so the library's
// time(NULL) in recordEvent reads the harness clock; no source change).
//
//   case:   hist <op>,<op>,...  [spec fields ignored here]
//           e2e  <op>,<op>,...  [spec fields ignored here]
//     ops of 'hist':  r:<addrhex>:<ty>:<old>:<new>   recordEvent("/undo_change", "s<ty><ty>", addr, old, new)
//                                                    (old/new = unsigned 32-bit patterns, ty in i f c)
//                     s:<k>                          seekHistory(k)
//                     t:<d>                          clock += d
//     ops of 'e2e':   c:<port>:<value>               dispatch "<port>" "<ty>" value into rParam-style ports whose
//                                                    reply("/undo_change") is recorded (ports: b=c-typed, i, j=i-typed,
//                                                    x (rParamF) and a0 a1 a2 (rArrayF) f-typed: value = binary32 bits)
//                     s:<k>, t:<d>                   as above; undo messages are dispatched back (recording disabled)
//   output: one field per op, separated by '|':
//           hist:  r -> "p=<pos> n=<size> h=<addrhex>/<ty>/<old>/<new>;..."   (whole retained history)
//                  s -> "m=<addrhex>/<ty>/<val>;... p=<pos> n=<size>"         (messages in callback order, EMPTY = empty message)
//                  t -> "-"
//           e2e:   as above, each field followed by " a=<b>,<i>,<j>,<x>,<a0>,<a1>,<a2>" (application state; floats as bits)
#include "hcommon.h"
#include <ctime>
#include <functional>
#include <cstdarg>
#include <rtosc/rtosc.h>
#include <rtosc/ports.h>
#include <rtosc/port-sugar.h>
#include <rtosc/undo-history.h>

static time_t g_clock = 1000;
extern "C" time_t time(time_t *t)
{
    if(t) *t = g_clock;
    return g_clock;
}

static std::string show_msg(const char *m)
{
    if(!m[0]) return "EMPTY";
    std::ostringstream o;
    const char *ty = rtosc_argument_string(m);
    o << hex(m, strlen(m)) << "/" << ty << "/";
    if(rtosc_narguments(m) != 1) o << "NARGS" << rtosc_narguments(m);
    else o << (uint32_t)rtosc_argument(m, 0).i;
    return o.str();
}

static std::string show_hist(const rtosc::UndoHistory &h)
{
    std::ostringstream o;
    o << "p=" << h.getPos() << " n=" << h.size() << " h=";
    for(size_t i = 0; i < h.size(); ++i) {
        const char *m = h.getHistory(i);
        const char *ty = rtosc_argument_string(m);
        if(i) o << ";";
        if(strcmp(m, "/undo_change") || strlen(ty) != 3 || ty[0] != 's' || ty[1] != ty[2]) {
            o << "BADEVENT:" << m << ":" << ty;
            continue;
        }
        const char *a = rtosc_argument(m, 0).s;
        o << hex(a, strlen(a)) << "/" << ty[1] << "/" << (uint32_t)rtosc_argument(m, 1).i
          << "/" << (uint32_t)rtosc_argument(m, 2).i;
    }
    return o.str();
}

// ---- end-to-end application: the repo's parameter macros ------------------
struct Object { char b; int i; int j; float x; float a[3];
                Object() : b(0), i(0), j(0), x(0) { a[0] = a[1] = a[2] = 0; } };
#define rObject Object
static rtosc::Ports e2e_ports = {
    rParam(b, "b"),
    rParamI(i, "i"),
    rParamI(j, "j"),
    rParamF(x, "x"),
    rArrayF(a, 3, "a"),
};
#undef rObject

struct Rt : public rtosc::RtData {
    char locbuf[128];
    char rbuf[512];
    rtosc::UndoHistory *uh;
    bool enable;
    Rt(Object *o, rtosc::UndoHistory *u) : uh(u), enable(true)
    {
        memset(locbuf, 0, sizeof(locbuf));
        loc = locbuf; loc_size = sizeof(locbuf); obj = o;
    }
    void reply(const char *path, const char *args, ...) override
    {
        if(strcmp(path, "/undo_change") || !enable) return;
        va_list va;
        va_start(va, args);
        rtosc_vmessage(rbuf, sizeof(rbuf), path, args, va);
        va_end(va);
        uh->recordEvent(rbuf);
    }
    void broadcast(const char *, const char *, ...) override {}
    void reply(const char *) override {}
    void broadcast(const char *) override {}
};

static void run_hist(const std::vector<std::string> &ops)
{
    g_clock = 1000;
    rtosc::UndoHistory h;
    std::string msgs;
    h.setCallback([&msgs](const char *m) {
        if(!msgs.empty()) msgs += ";";
        msgs += show_msg(m);
    });
    std::ostringstream o;
    bool first = true;
    for(auto &op : ops) {
        auto f = split(op, ':');
        if(!first) o << "|";
        first = false;
        if(f[0] == "r" && f.size() == 5) {
            auto ab = unhex(f[1]);
            std::string addr(ab.begin(), ab.end());
            std::string types = std::string("s") + f[2] + f[2];
            rtosc_arg_t args[3];
            args[0].s = addr.c_str();
            args[1].i = (int32_t)(uint32_t)strtoul(f[3].c_str(), 0, 10);
            args[2].i = (int32_t)(uint32_t)strtoul(f[4].c_str(), 0, 10);
            size_t len = rtosc_amessage(0, 0, "/undo_change", types.c_str(), args);
            std::vector<uint8_t> tmp(len);
            rtosc_amessage((char*)tmp.data(), len, "/undo_change", types.c_str(), args);
            ExactBuf eb(tmp);
            h.recordEvent((const char*)eb.p);
            o << show_hist(h);
        } else if(f[0] == "s" && f.size() == 2) {
            msgs.clear();
            h.seekHistory(atoi(f[1].c_str()));
            o << "m=" << msgs << " p=" << h.getPos() << " n=" << h.size();
        } else if(f[0] == "t" && f.size() == 2) {
            g_clock += atol(f[1].c_str());
            o << "-";
        } else o << "BADOP";
    }
    puts(o.str().c_str());
}

static void run_e2e(const std::vector<std::string> &ops)
{
    g_clock = 1000;
    Object obj;
    rtosc::UndoHistory h;
    Rt rt(&obj, &h);
    std::string msgs;
    h.setCallback([&](const char *m) {
        if(!msgs.empty()) msgs += ";";
        msgs += show_msg(m);
        if(m[0]) {
            rt.enable = false;
            memset(rt.locbuf, 0, sizeof(rt.locbuf));
            e2e_ports.dispatch(m + 1, rt);
            rt.enable = true;
        }
    });
    std::ostringstream o;
    bool first = true;
    for(auto &op : ops) {
        auto f = split(op, ':');
        if(!first) o << "|";
        first = false;
        if(f[0] == "c" && f.size() == 3) {
            char buf[64];
            if(f[1] == "x" || f[1][0] == 'a') {
                // f-typed ports (rParamF, rArrayF): the value is a binary32 bit pattern
                uint32_t u = (uint32_t)strtoul(f[2].c_str(), 0, 10);
                float v; memcpy(&v, &u, 4);
                rtosc_message(buf, sizeof(buf), f[1].c_str(), "f", v);
            } else {
                const char *ty = f[1] == "b" ? "c" : "i";
                rtosc_message(buf, sizeof(buf), f[1].c_str(), ty, atoi(f[2].c_str()));
            }
            memset(rt.locbuf, 0, sizeof(rt.locbuf));
            rt.locbuf[0] = '/';
            e2e_ports.dispatch(buf, rt);
            o << show_hist(h);
        } else if(f[0] == "s" && f.size() == 2) {
            msgs.clear();
            h.seekHistory(atoi(f[1].c_str()));
            o << "m=" << msgs << " p=" << h.getPos() << " n=" << h.size();
        } else if(f[0] == "t" && f.size() == 2) {
            g_clock += atol(f[1].c_str());
            o << "-";
        } else { o << "BADOP"; continue; }
        o << " a=" << (int)obj.b << "," << obj.i << "," << obj.j;
        { uint32_t u[4]; memcpy(&u[0], &obj.x, 4); memcpy(&u[1], obj.a, 12);
          o << "," << u[0] << "," << u[1] << "," << u[2] << "," << u[3]; }
    }
    puts(o.str().c_str());
}

int main()
{
    std::string line;
    while(std::getline(std::cin, line)) {
        auto f = split(line, ' ');
        if(f.size() < 2) { puts("BADCASE"); continue; }
        std::vector<std::string> ops = f[1] == "-" ? std::vector<std::string>() : split(f[1], ',');
        if(f[0] == "hist") run_hist(ops);
        else if(f[0] == "e2e") run_e2e(ops);
        else puts("BADCASE");
    }
    return 0;
}
