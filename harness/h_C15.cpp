// C15 harness: rtosc::UndoHistory driven by operation histories with a
// controlled clock (this executable defines time() itself, so the library's
// time(NULL) in recordEvent reads the harness clock; no source change).
//
//   case:   hist <op>,<op>,...  [spec fields ignored here]
//           e2e  <op>,<op>,...  [spec fields ignored here]
//     ops of 'hist':  r:<addrhex>:<ty>:<old>:<new>   recordEvent("/undo_change", "s<ty><ty>", addr, old, new)
//                                                    (old/new = unsigned 32-bit patterns, ty in i f c)
//                     s:<k>                          seekHistory(k)
//                     t:<d>                          clock += d
//     ops of 'e2e':   c:<path>:<t><v>                a set message "/<path>" ,<t> v dispatched into a table with one port of every
//                                                    macro kind of port-sugar.h (e2e_ports below); t/v: i<dec> c<dec> f<binary32 bits,
//                                                    decimal> S<hex symbol> T F; reply("/undo_change") is recorded
//                     q:<path>                       the message without arguments
//                     s:<k>, t:<d>                   as above; undo messages are dispatched back (recording disabled)
//   output: one field per op, separated by '|':
//           hist:  r -> "p=<pos> n=<size> h=<addrhex>/<ty>/<old>/<new>;..."   (whole retained history)
//                  s -> "m=<addrhex>/<ty>/<val>;... p=<pos> n=<size>"         (messages in callback order, EMPTY = empty message)
//                  t -> "-"
//           e2e:   as above, each field followed by " hit=<ports reached by the op's dispatches> a=<every field of the object>"
//                  (floats as bits; an event whose two payload tags differ shows both)
#include "hcommon.h"
#include <ctime>
#include <functional>
#include <cstdarg>
#include <rtosc/rtosc.h>
#include <rtosc/ports.h>
#include <rtosc/port-sugar.h>
#include <rtosc/undo-history.h>

static time_t g_clock = 1000;
extern "C" time_t time(time_t *t)
{
    if(t) *t = g_clock;
    return g_clock;
}

static std::string show_msg(const char *m)
{
    if(!m[0]) return "EMPTY";
    std::ostringstream o;
    const char *ty = rtosc_argument_string(m);
    o << hex(m, strlen(m)) << "/" << ty << "/";
    if(rtosc_narguments(m) != 1) o << "NARGS" << rtosc_narguments(m);
    else o << (uint32_t)rtosc_argument(m, 0).i;
    return o.str();
}

static std::string show_hist(const rtosc::UndoHistory &h)
{
    std::ostringstream o;
    o << "p=" << h.getPos() << " n=" << h.size() << " h=";
    for(size_t i = 0; i < h.size(); ++i) {
        const char *m = h.getHistory(i);
        const char *ty = rtosc_argument_string(m);
        if(i) o << ";";
        if(strcmp(m, "/undo_change") || strlen(ty) != 3 || ty[0] != 's' || ty[1] != ty[2]) {
            o << "BADEVENT:" << m << ":" << ty;
            continue;
        }
        const char *a = rtosc_argument(m, 0).s;
        o << hex(a, strlen(a)) << "/" << ty[1] << "/" << (uint32_t)rtosc_argument(m, 1).i
          << "/" << (uint32_t)rtosc_argument(m, 2).i;
    }
    return o.str();
}

// ---- end-to-end application: one port of every macro kind of port-sugar.h --
// (every callback that emits "/undo_change", and the toggle kinds, which do not)
struct Object {
    char b; int i; int j; float x; float y; bool t; int o;
    float a[3]; char n[4]; bool g[2]; int q[3]; char p[4];
    int r; int r_sets;
    Object() { memset((void*)this, 0, sizeof(*this)); }
};
#define rObject Object
static rtosc::Ports e2e_ports = {
    rParam(b, "b"),                                           // ::c, 0..127
    rParamI(i, "i"),
    rParamI(j, rLinear(-100, 100), "j"),
    rParamF(x, "x"),
    rParamF(y, rLinear(-1.5, 2.5), "y"),
    rToggle(t, "t"),
    rOption(o, rOptions(zero, one, two, three), "o"),
    rArrayF(a, 3, "a"),
    rArrayI(n, 4, "n"),
    rArrayT(g, 2, "g"),
    rArrayOption(q, 3, rOptionsBound(lo, mid, hi), "q"),
    rParams(p, 4, "p"),                                       // "p#4::i" and the alias "p:"
    {"r::i:c:S", rProp(parameter) rProp(enumerated) rOptions(ra, rb, rc) rLinear(0, 2) rDoc("r"), NULL,
        rCOptionCb(obj->r, (obj->r_sets++, obj->r = var))},   // option over getcode / setcode, counting setter
};
#undef rObject

struct Rt : public rtosc::RtData {
    char locbuf[128];
    char rbuf[512];
    rtosc::UndoHistory *uh;
    bool enable;
    Rt(Object *o, rtosc::UndoHistory *u) : uh(u), enable(true)
    {
        memset(locbuf, 0, sizeof(locbuf));
        loc = locbuf; loc_size = sizeof(locbuf); obj = o;
    }
    void reply(const char *path, const char *args, ...) override
    {
        if(strcmp(path, "/undo_change") || !enable) return;
        va_list va;
        va_start(va, args);
        rtosc_vmessage(rbuf, sizeof(rbuf), path, args, va);
        va_end(va);
        uh->recordEvent(rbuf);
    }
    void broadcast(const char *, const char *, ...) override {}
    void reply(const char *) override {}
    void broadcast(const char *) override {}
};

// events of any shape (a port may emit what the history does not expect)
static std::string show_hist_e2e(const rtosc::UndoHistory &h)
{
    std::ostringstream o;
    o << "p=" << h.getPos() << " n=" << h.size() << " h=";
    for(size_t i = 0; i < h.size(); ++i) {
        const char *m = h.getHistory(i);
        const char *ty = rtosc_argument_string(m);
        if(i) o << ";";
        if(strcmp(m, "/undo_change") || strlen(ty) != 3 || ty[0] != 's' || !strchr("ifc", ty[1]) || !strchr("ifc", ty[2])) {
            o << "BADEVENT:" << m << ":" << ty;
            continue;
        }
        const char *a = rtosc_argument(m, 0).s;
        o << hex(a, strlen(a)) << "/" << ty[1];
        if(ty[1] != ty[2]) o << ty[2];
        o << "/" << (uint32_t)rtosc_argument(m, 1).i << "/" << (uint32_t)rtosc_argument(m, 2).i;
    }
    return o.str();
}

static std::string show_obj(const Object &ob)
{
    std::ostringstream o;
    auto fb = [](float f) { uint32_t u; memcpy(&u, &f, 4); return u; };
    o << (int)ob.b << "," << ob.i << "," << ob.j << "," << fb(ob.x) << "," << fb(ob.y) << "," << (int)ob.t << "," << ob.o;
    for(int k = 0; k < 3; ++k) o << "," << fb(ob.a[k]);
    for(int k = 0; k < 4; ++k) o << "," << (int)ob.n[k];
    for(int k = 0; k < 2; ++k) o << "," << (int)ob.g[k];
    for(int k = 0; k < 3; ++k) o << "," << ob.q[k];
    for(int k = 0; k < 4; ++k) o << "," << (int)ob.p[k];
    o << "," << ob.r << "," << ob.r_sets;
    return o.str();
}

static void run_hist(const std::vector<std::string> &ops)
{
    g_clock = 1000;
    rtosc::UndoHistory h;
    std::string msgs;
    h.setCallback([&msgs](const char *m) {
        if(!msgs.empty()) msgs += ";";
        msgs += show_msg(m);
    });
    std::ostringstream o;
    bool first = true;
    for(auto &op : ops) {
        auto f = split(op, ':');
        if(!first) o << "|";
        first = false;
        if(f[0] == "r" && f.size() == 5) {
            auto ab = unhex(f[1]);
            std::string addr(ab.begin(), ab.end());
            std::string types = std::string("s") + f[2] + f[2];
            rtosc_arg_t args[3];
            args[0].s = addr.c_str();
            args[1].i = (int32_t)(uint32_t)strtoul(f[3].c_str(), 0, 10);
            args[2].i = (int32_t)(uint32_t)strtoul(f[4].c_str(), 0, 10);
            size_t len = rtosc_amessage(0, 0, "/undo_change", types.c_str(), args);
            std::vector<uint8_t> tmp(len);
            rtosc_amessage((char*)tmp.data(), len, "/undo_change", types.c_str(), args);
            ExactBuf eb(tmp);
            h.recordEvent((const char*)eb.p);
            o << show_hist(h);
        } else if(f[0] == "s" && f.size() == 2) {
            msgs.clear();
            h.seekHistory(atoi(f[1].c_str()));
            o << "m=" << msgs << " p=" << h.getPos() << " n=" << h.size();
        } else if(f[0] == "t" && f.size() == 2) {
            g_clock += atol(f[1].c_str());
            o << "-";
        } else o << "BADOP";
    }
    puts(o.str().c_str());
}

static void run_e2e(const std::vector<std::string> &ops)
{
    g_clock = 1000;
    Object obj;
    rtosc::UndoHistory h;
    Rt rt(&obj, &h);
    std::string msgs;
    int hits = 0;
    h.setCallback([&](const char *m) {
        if(!msgs.empty()) msgs += ";";
        msgs += show_msg(m);
        if(m[0]) {
            rt.enable = false;
            e2e_ports.dispatch(m, rt, true);
            hits += rt.matches;
            rt.enable = true;
        }
    });
    std::ostringstream o;
    bool first = true;
    for(auto &op : ops) {
        auto f = split(op, ':');
        if(!first) o << "|";
        first = false;
        hits = 0;
        if((f[0] == "c" && f.size() == 3 && !f[2].empty()) || (f[0] == "q" && f.size() == 2)) {
            char buf[256];
            std::string addr = "/" + f[1];
            size_t len = 0;
            if(f[0] == "q") len = rtosc_message(buf, sizeof(buf), addr.c_str(), "");
            else {
                const char *v = f[2].c_str() + 1;
                switch(f[2][0]) {
                    case 'i': len = rtosc_message(buf, sizeof(buf), addr.c_str(), "i", atoi(v)); break;
                    case 'c': len = rtosc_message(buf, sizeof(buf), addr.c_str(), "c", atoi(v)); break;
                    case 'f': { uint32_t u = (uint32_t)strtoul(v, 0, 10); float x; memcpy(&x, &u, 4);
                                len = rtosc_message(buf, sizeof(buf), addr.c_str(), "f", x); break; }
                    case 'S': { auto b = unhex(v); std::string sy(b.begin(), b.end());
                                len = rtosc_message(buf, sizeof(buf), addr.c_str(), "S", sy.c_str()); break; }
                    case 'T': len = rtosc_message(buf, sizeof(buf), addr.c_str(), "T"); break;
                    case 'F': len = rtosc_message(buf, sizeof(buf), addr.c_str(), "F"); break;
                }
            }
            if(!len) { o << "BADOP"; continue; }
            ExactBuf eb(std::vector<uint8_t>(buf, buf + len));
            e2e_ports.dispatch((const char*)eb.p, rt, true);
            hits = rt.matches;
            o << show_hist_e2e(h);
        } else if(f[0] == "s" && f.size() == 2) {
            msgs.clear();
            h.seekHistory(atoi(f[1].c_str()));
            o << "m=" << msgs << " p=" << h.getPos() << " n=" << h.size();
        } else if(f[0] == "t" && f.size() == 2) {
            g_clock += atol(f[1].c_str());
            o << "-";
        } else { o << "BADOP"; continue; }
        o << " hit=" << hits << " a=" << show_obj(obj);
    }
    puts(o.str().c_str());
}

int main()
{
    std::string line;
    while(std::getline(std::cin, line)) {
        auto f = split(line, ' ');
        if(f.size() < 2) { puts("BADCASE"); continue; }
        std::vector<std::string> ops = f[1] == "-" ? std::vector<std::string>() : split(f[1], ',');
        if(f[0] == "hist") run_hist(ops);
        else if(f[0] == "e2e") run_e2e(ops);
        else puts("BADCASE");
    }
    return 0;
}
