// Generated applications for C12 / C13: a family of C++ object types whose
// parameter ports are produced by the library's own macros (rParam, rParamI,
// rParamF, rToggle, rOption, rString, rArrayI/F/T/Option, rRecur, rRecurs,
// rRecurp) and whose port *tables* (names, metadata, which ports exist) are
// assembled at run time from the case line, as in h_C14.cpp.
//
//   Root is the root object; Node<T> (T < LAST) has three kinds of children
//   of type Node<T+1>:  sub  (rRecur, embedded object)
//                       arr  (rRecurs, 3 embedded objects, "name#3/")
//                       ptr  (rRecurp, pointer; NULL = sub-tree absent)
//   Every Node has the parameter fields  c0 c1 (char) i0 i1 (int) f0 f1 (float)
//   t0 t1 (bool) o0 o1 (int, options) s0[16] s1[6] (strings) ai[8] (char)
//   af[8] (float) at[8] (bool) ao[8] (int).
//
// Application behaviour beyond the macros comes in through rChangeCb (the
// hook port-sugar.h provides for exactly this):
//   * a field designated as preset selector re-initialises, on every set, the
//     fields the type's preset table lists for the new value ('*' = any other
//     value) -- what test/default-value.cpp's Envelope does;
//   * a toggle designated as enabler of `ptr` allocates a default-initialised
//     child when switched on and frees it when switched off.
//
// tree description (field 2 of a case line):  <type0>|<type1>|...   each type
//   a ';'-separated list of items
//     p,<fid>,<portname hex>,<metadata hex>   a port (fid = field / child id)
//     d,<fid>,<v>:<v>:...                     initial value(s) of a field
//     s,<fid>                                 fid is the preset selector
//     r,<val|*>,<fid>,<v>:<v>:...             selector := val  =>  field := values
//     e,<fid>                                 fid (t0|t1) is the enabler of ptr
//     n,<0|1>                                 ptr allocated initially (no enabler)
//   values: decimal (c i o t), 8 hex digits (f), hex of the C string (s, '-' = empty)
#ifndef H_C12_APP_H
#define H_C12_APP_H
#include "hcommon.h"
#include <rtosc/ports.h>
#include <rtosc/port-sugar.h>
#include <rtosc/rtosc.h>
#include <rtosc/savefile.h>
#include <rtosc/default-value.h>
#include <rtosc/pretty-format.h>
#include <rtosc/arg-val-itr.h>
#include <map>
#include <set>
#include <memory>
#include <limits>

using namespace rtosc;

#undef rChangeCb
#define rChangeCb obj->on_change(data);

enum { NA = 8, LAST = 2, NARR = 3 };

struct RunPorts : Ports {
    RunPorts() : Ports({}) {}
    void assign(const std::vector<Port> &ps) { ports = ps; refreshMagic(); }
};

struct Assign { std::string fid; std::vector<std::string> vals; };
struct TypeCfg {
    std::vector<Assign> dflt;
    std::string selector, enabler;
    std::map<std::string, std::vector<Assign>> presets;   // value text or "*"
    bool ptr_init = false;
    struct PM { std::string first, second; int n; };
    std::vector<PM> portmap;   // (fid, name in front of # / : //, declared array length)
    // keeps the run-time names / metadata alive
    std::vector<std::unique_ptr<ExactBuf>> bufs;
    void clear() { dflt.clear(); selector.clear(); enabler.clear(); presets.clear(); ptr_init = false; bufs.clear(); portmap.clear(); }
};
static TypeCfg g_cfg[LAST + 1];

static inline float f_of_bits(const std::string &h) { uint32_t b = (uint32_t)strtoul(h.c_str(), 0, 16); float f; memcpy(&f, &b, 4); return f; }
static inline std::string bits_of_f(float f) { uint32_t b; memcpy(&b, &f, 4); char buf[16]; snprintf(buf, 16, "%08x", b); return buf; }

static const uint32_t GUARD = 0xa5c3e197u;
struct Fields {
    uint32_t g0; char c0, c1; uint32_t g1; int i0, i1; float f0, f1; bool t0, t1; uint32_t g2;
    int o0, o1; uint32_t g3; char s0[16]; uint32_t g4; char s1[6]; uint32_t g5;
    char ai[NA]; uint32_t g6; float af[NA]; uint32_t g7; bool at[NA]; uint32_t g8; int ao[NA]; uint32_t g9;
    void zero() {
        c0 = c1 = 0; i0 = i1 = 0; f0 = f1 = 0; t0 = t1 = false; o0 = o1 = 0;
        memset(s0, 0, sizeof s0); memset(s1, 0, sizeof s1); memset(ai, 0, sizeof ai);
        for(int i = 0; i < NA; ++i) { af[i] = 0; at[i] = false; ao[i] = 0; }
        g0 = g1 = g2 = g3 = g4 = g5 = g6 = g7 = g8 = g9 = GUARD;
    }
    bool guards_ok() const { return g0 == GUARD && g1 == GUARD && g2 == GUARD && g3 == GUARD && g4 == GUARD &&
                                    g5 == GUARD && g6 == GUARD && g7 == GUARD && g8 == GUARD && g9 == GUARD; }
    void put(const Assign &a) {
        const std::string &f = a.fid;
        auto I = [&](size_t k) { return k < a.vals.size() ? atoi(a.vals[k].c_str()) : 0; };
        auto F = [&](size_t k) { return k < a.vals.size() ? f_of_bits(a.vals[k]) : 0.f; };
        if(f == "c0") c0 = (char)I(0); else if(f == "c1") c1 = (char)I(0);
        else if(f == "i0") i0 = I(0); else if(f == "i1") i1 = I(0);
        else if(f == "f0") f0 = F(0); else if(f == "f1") f1 = F(0);
        else if(f == "t0") t0 = I(0) != 0; else if(f == "t1") t1 = I(0) != 0;
        else if(f == "o0") o0 = I(0); else if(f == "o1") o1 = I(0);
        else if(f == "s0" || f == "s1") {
            char *dst = f == "s0" ? s0 : s1; size_t cap = f == "s0" ? sizeof s0 : sizeof s1;
            memset(dst, 0, cap);
            auto b = unhex(a.vals.empty() ? "-" : a.vals[0]);
            for(size_t i = 0; i + 1 < cap && i < b.size(); ++i) dst[i] = (char)b[i];
        }
        else if(f == "ai") for(int i = 0; i < NA; ++i) ai[i] = (char)I(i);
        else if(f == "af") for(int i = 0; i < NA; ++i) af[i] = F(i);
        else if(f == "at") for(int i = 0; i < NA; ++i) at[i] = I(i) != 0;
        else if(f == "ao") for(int i = 0; i < NA; ++i) ao[i] = I(i);
    }
    // n: number of array elements shown (the declared length)
    std::string show(const std::string &f, int n = NA) const {
        std::ostringstream o;
        auto cs = [](const char *s, size_t cap) { size_t n = strnlen(s, cap); return hex(s, n); };
        if(f == "c0") o << (int)c0; else if(f == "c1") o << (int)c1;
        else if(f == "i0") o << i0; else if(f == "i1") o << i1;
        else if(f == "f0") o << bits_of_f(f0); else if(f == "f1") o << bits_of_f(f1);
        else if(f == "t0") o << (int)t0; else if(f == "t1") o << (int)t1;
        else if(f == "o0") o << o0; else if(f == "o1") o << o1;
        else if(f == "s0") o << cs(s0, sizeof s0); else if(f == "s1") o << cs(s1, sizeof s1);
        else if(f == "ai") for(int i = 0; i < n; ++i) o << (i ? ":" : "") << (int)ai[i];
        else if(f == "af") for(int i = 0; i < n; ++i) o << (i ? ":" : "") << bits_of_f(af[i]);
        else if(f == "at") for(int i = 0; i < n; ++i) o << (i ? ":" : "") << (int)at[i];
        else if(f == "ao") for(int i = 0; i < n; ++i) o << (i ? ":" : "") << ao[i];
        return o.str();
    }
};
static const char *ALL_FIELDS[] = {"c0", "c1", "i0", "i1", "f0", "f1", "t0", "t1", "o0", "o1", "s0", "s1", "ai", "af", "at", "ao"};

static inline std::string port_stem(const char *name)
{
    std::string s;
    for(const char *p = name; *p && *p != ':' && *p != '#' && *p != '/'; ++p) s.push_back(*p);
    return s;
}

static int leaf_index(const std::string &fid)
{
    for(int i = 0; i < 16; ++i) if(fid == ALL_FIELDS[i]) return i;
    if(fid == "self") return 16;
    return -1;
}

#define NODE_T Node2
#define NODE_LVL 2
#include "h_C12_node.inc"
#define NODE_T Node1
#define NODE_LVL 1
#define NODE_NEXT Node2
#include "h_C12_node.inc"
#define NODE_T Node0
#define NODE_LVL 0
#define NODE_NEXT Node1
#include "h_C12_node.inc"
typedef Node0 Root;

static bool build_app(const std::string &tree, std::string &err)
{
    auto ts = split(tree, '|');
    while(ts.size() < LAST + 1) ts.push_back("");
    // children first (a parent's table points at the child's static table)
    if(!Node2::build(ts[2], err)) return false;
    if(!Node1::build(ts[1], err)) return false;
    if(!Node0::build(ts[0], err)) return false;
    return true;
}
static std::string dump_root(const Root &r)
{
    std::vector<std::string> out;
    r.dump("/", out);
    std::string s;
    for(size_t i = 0; i < out.size(); ++i) s += (i ? "," : "") + out[i];
    return s.empty() ? "-" : s;
}

// ---------------------------------------------------------------------------
// A second, fixed application whose port tables - names AND metadata - are
// produced by the library's macros at compile time (rDepends lists of 1..6
// entries, rDefaultDepends + rPresets / rPresetsAt, rOptions with ten entries,
// rLinear, rEnabledBy on an rRecur sub-tree, a repetition default).  Tree
// description "static".  tools/props/save_common.py (static_app) describes the
// same application by hand; the `macro` stream compares every metadata block
// the macros produced byte for byte with that description.
struct MSub {
    static const Ports ports;
    int sa, sb;
    MSub() : sa(1), sb(2) {}
    void on_change(RtData &) {}
};
struct MObj {
    static const Ports ports;
    int m0, m1, m2, m3, m4, m5, m6;
    int mo, mp, mq;
    float mf;
    bool ms_on;      // its name extends the name of the sub-tree it enables (ms/)
    char ma[4];
    MSub ms;
    MObj() : m0(10), m1(11), m2(12), m3(13), m4(14), m5(15), m6(16), mo(0), mp(20), mq(30), mf(0.5f), ms_on(false)
    { for(char &c : ma) c = 3; }
    void on_change(RtData &d) {
        if(port_stem(d.port->name) != "mo") return;
        mp = (mo >= 0 && mo <= 4) ? 20 + mo : 29;
        mq = (mo >= 2 && mo <= 5) ? 30 + mo : 30;
    }
    void dump(const std::string &base, std::vector<std::string> &out) const {
        auto I = [&](const char *n, int v) { out.push_back(base + n + "=" + std::to_string(v)); };
        I("m0", m0); I("m1", m1); I("m2", m2); I("m3", m3); I("m4", m4); I("m5", m5); I("m6", m6);
        I("mo", mo); I("mp", mp); I("mq", mq);
        out.push_back(base + "mf=" + bits_of_f(mf));
        I("ms_on", ms_on);
        out.push_back(base + "ma=" + std::to_string((int)ma[0]) + ":" + std::to_string((int)ma[1]) + ":" +
                      std::to_string((int)ma[2]) + ":" + std::to_string((int)ma[3]));
        I("ms/sa", ms.sa); I("ms/sb", ms.sb);
    }
};
#define rObject MSub
const Ports MSub::ports = {
    rParamI(sa, rDefault(1), "d"),
    rParamI(sb, rDefault(2), rDepends(sa), "d"),
};
#undef rObject
#define rObject MObj
const Ports MObj::ports = {
    rParamI(m0, rDefault(10), "d"),
    rParamI(m1, rDefault(11), rDepends(m0), "d"),
    rParamI(m2, rDepends(m0, m1), rDefault(12), "d"),
    rParamI(m3, rDefault(13), rDepends(m2, m1, m0), "d"),
    rParamI(m4, rLinear(-100, 100), rDefault(14), rDepends(m0, m1, m2, m3), "d"),
    rParamI(m5, rDefault(15), rDepends(m4, m3, m2, m1, m0), "d"),
    rParamI(m6, rDefault(16), rDepends(m5, m4, m3, m2, m1, m0), "d"),
    rOption(mo, rOptions(oa, ob, oc, od, oe, og, oh, oi, oj, ok), rDefault(oa), "d"),
    rParamI(mp, rDefaultDepends(mo), rPresets(20, 21, 22, 23, 24), rDefault(29), "d"),
    rParamI(mq, rDefaultDepends(mo), rPresetsAt(2, 32, 33, 34, 35), rDefault(30), rDepends(mp, m0, m1, m6), "d"),
    rParamF(mf, rLinear(-1.5, 2.5), rDefault(0.5), "d"),
    rToggle(ms_on, rDefault(false), "d"),
    rArrayI(ma, 4, rDefault([4x3]), "d"),
    rRecur(ms, rEnabledBy(ms_on), "d"),
};
#undef rObject
static std::string dump_root(const MObj &r)
{
    std::vector<std::string> out;
    r.dump("/", out);
    std::string s;
    for(size_t i = 0; i < out.size(); ++i) s += (i ? "," : "") + out[i];
    return s;
}
// name and metadata block of the k-th macro-made port (MObj's table, then MSub's)
static std::string macro_port(size_t k)
{
    const Port *p = nullptr;
    if(k < MObj::ports.ports.size()) p = &MObj::ports.ports[k];
    else if(k - MObj::ports.ports.size() < MSub::ports.ports.size()) p = &MSub::ports.ports[k - MObj::ports.ports.size()];
    if(!p) return "NOPORT";
    // the block ends with the empty title: walk the entries by hand
    const char *m = p->metadata ? p->metadata : "";
    const char *e = m;
    while(*e) { e += strlen(e) + 1; }
    return "name=" + hex(p->name, strlen(p->name)) + " meta=" + hex(m, (size_t)(e - m) + 1);
}

// ---------------------------------------------------------------------------
// one parameter message   <address>=<t><v>   t/v: i<dec> c<dec> f<hex8> T F s<hex> S<hex>
struct Quiet : RtData {
    char locbuf[1024];
    Quiet() { loc = locbuf; loc_size = sizeof locbuf; memset(locbuf, 0, sizeof locbuf); }
    void reply(const char *, const char *, ...) override {}
    void reply(const char *) override {}
    void broadcast(const char *, const char *, ...) override {}
    void broadcast(const char *) override {}
};
template<class R> static bool send_op(R &root, const std::string &op)
{
    auto eq = op.find('=');
    if(eq == std::string::npos) return false;
    std::string addr = op.substr(0, eq), val = op.substr(eq + 1);
    char buf[2048];
    memset(buf, 0, sizeof buf);
    size_t len = 0;
    switch(val[0]) {
        case 'i': len = rtosc_message(buf, sizeof buf, addr.c_str(), "i", atoi(val.c_str() + 1)); break;
        case 'c': len = rtosc_message(buf, sizeof buf, addr.c_str(), "c", atoi(val.c_str() + 1)); break;
        case 'f': len = rtosc_message(buf, sizeof buf, addr.c_str(), "f", f_of_bits(val.substr(1))); break;
        case 'T': len = rtosc_message(buf, sizeof buf, addr.c_str(), "T"); break;
        case 'F': len = rtosc_message(buf, sizeof buf, addr.c_str(), "F"); break;
        case 'S': case 's': {
            auto b = unhex(val.substr(1));
            std::string s(b.begin(), b.end());
            len = rtosc_message(buf, sizeof buf, addr.c_str(), val[0] == 'S' ? "S" : "s", s.c_str());
            break; }
    }
    if(!len) return false;
    ExactBuf m(std::vector<uint8_t>(buf, buf + len));
    Quiet d;
    d.obj = &root;
    R::ports.dispatch((const char*)m.p, d, true);
    return d.matches > 0;
}

// ---------------------------------------------------------------------------
// the message lines of a savefile, scanned with the library's own scanner and
// shown as   <address>~<v>~<v>...   (values i<dec> c<dec> f<hex8> T F s<hex>
// S<hex> N I h<dec> d<hex16>; arrays flattened, ranges expanded)
static std::string show_av(const rtosc_arg_val_t &a)
{
    char b[64];
    switch(a.type) {
        case 'i': snprintf(b, sizeof b, "i%d", a.val.i); return b;
        case 'c': snprintf(b, sizeof b, "c%d", a.val.i); return b;
        case 'f': return "f" + bits_of_f(a.val.f);
        case 'T': return "T";
        case 'F': return "F";
        case 'N': return "N";
        case 'I': return "I";
        case 's': return "s" + hex(a.val.s, strlen(a.val.s));
        case 'S': return "S" + hex(a.val.s, strlen(a.val.s));
        case 'h': snprintf(b, sizeof b, "h%lld", (long long)a.val.h); return b;
        case 'd': { uint64_t u; memcpy(&u, &a.val.d, 8); snprintf(b, sizeof b, "d%016llx", (unsigned long long)u); return b; }
        default:  snprintf(b, sizeof b, "?%c", a.type); return b;
    }
}
static std::string scan_lines(const char *body)
{
    std::string out;
    const char *p = body;
    int guard = 0;
    while(*p && guard++ < 10000) {
        int n = rtosc_count_printed_arg_vals_of_msg(p);
        if(n < 0) { if(n == std::numeric_limits<int>::min()) break; out += (out.empty() ? "" : "|") + std::string("UNPARSABLE"); break; }
        std::vector<rtosc_arg_val_t> av(n ? n : 1);
        std::vector<char> addr(8192), strbuf(8192);
        size_t rd = rtosc_scan_message(p, addr.data(), addr.size(), av.data(), n, strbuf.data(), strbuf.size());
        if(!rd) { out += "|SCANFAIL"; break; }
        std::string line = addr.data();
        // flatten with the library's iterator (what the loader does)
        size_t first = 0, cnt = n;
        if(n && av[0].type == 'a') { first = 1; cnt = n - 1; line += "~["; }
        rtosc_arg_val_itr it;
        rtosc_arg_val_t tmp;
        if(cnt) {
            rtosc_arg_val_itr_init(&it, av.data() + first);
            while(it.i < cnt) {
                const rtosc_arg_val_t *cur = rtosc_arg_val_itr_get(&it, &tmp);
                line += "~" + show_av(*cur);
                rtosc_arg_val_itr_next(&it);
            }
        }
        out += (out.empty() ? "" : "|") + line;
        p += rd;
    }
    return out.empty() ? "-" : out;
}

// loader that records the order in which the messages are handed out
struct OrderLog : savefile_dispatcher_t {
    std::vector<std::string> order;
    int on_dispatch(size_t, char *portname, size_t, size_t nargs, rtosc_arg_val_t *) override
    { order.push_back(portname); return (int)nargs; }
};
#endif
