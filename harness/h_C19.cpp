// C19 harness: rtosc::AutomationMgr driven by operation histories.
//
//   case:  auto <nslots> <per_slot> <params> <regs> <ops> [spec fields ignored]
//     params  ';'-separated  <name>:<ty>:<min>:<max>:<flags>
//             ty in i f T; min/max decimal text or '-' (no such metadata);
//             flags: l = scale logarithmic, x = internal, n = "no learn", '-' = none.
//             The port is "<name>::<ty>" with that metadata, addressed as "/<name>".
//     regs    a,b,c,d    initial NRPN registers (parhi,parlo,valhi,vallo); the
//             constructor leaves them uninitialised, the harness sets them.
//     ops     ','-separated
//             b:<slot>:<name>:<0|1>        createBinding(slot, "/<name>", learn)
//             cs:<slot>                    clearSlot
//             cu:<slot>:<sub>              clearSlotSub
//             g:<slot>:<sub>:<f32bits>     setSlotSubGain
//             o:<slot>:<sub>:<f32bits>     setSlotSubOffset
//             u:<slot>:<sub>               updateMapping
//             v:<slot>:<f32bits>           setSlot
//             w:<slot>:<sub>:<f32bits>     setSlotSub
//             m:<chan>:<cc>:<val>          handleMidi
//   output: one field per op, '|'-separated:
//       [r=<ret> ]e=<path>/<ty>/<bits>;... q=<learn_queue_len> s=<learning>/<cc>/<nrpn>;...[ M=<sub>;...]
//     M (after b cs cu g o u, for the slot addressed, if in range): per sub
//       0                                           unused
//       1/<ty>/<min>/<max>/<scale>/<gain>/<off>/<cp1>/<cp3>   (f32 bit patterns)
#include "hcommon.h"
#include <cmath>
#define private public
#include <rtosc/automations.h>
#undef private
#include <rtosc/ports.h>

static uint32_t fbits(float f) { uint32_t u; memcpy(&u, &f, 4); return u; }
static float bitsf(const std::string &s) { uint32_t u = (uint32_t)strtoul(s.c_str(), 0, 10); float f; memcpy(&f, &u, 4); return f; }

struct DynPorts : rtosc::Ports {
    DynPorts() : rtosc::Ports({}) {}
};

struct ParamStore {
    std::vector<std::string> names, metas;
};

static std::string show_msg(const char *m)
{
    std::ostringstream o;
    const char *ty = rtosc_argument_string(m);
    o << m << "/" << ty << "/";
    if(ty[0] == 'i' || ty[0] == 'f') o << (uint32_t)rtosc_argument(m, 0).i;
    return o.str();
}

int main()
{
    std::string line;
    while(std::getline(std::cin, line)) {
        auto f = split(line, ' ');
        if(f.size() >= 3 && f[0] == "orc") {
            // evidence for the oracle hypotheses of the log-scale theorems on this libm:
            //   orc <x bits,...> <y bits,...>  ->  L=<logf x>/<expf(logf x)>;...  E=<expf y>;...
            std::ostringstream o;
            o << "L=";
            bool first = true;
            for(auto &b : split(f[1], ',')) {
                float x = bitsf(b), l = logf(x), e = expf(l);
                if(!first) o << ";";
                first = false;
                o << fbits(l) << "/" << fbits(e);
            }
            o << " E=";
            first = true;
            for(auto &b : split(f[2], ',')) {
                if(!first) o << ";";
                first = false;
                o << fbits(expf(bitsf(b)));
            }
            puts(o.str().c_str());
            continue;
        }
        if(f.size() < 6 || f[0] != "auto") { puts("BADCASE"); continue; }
        int nslots = atoi(f[1].c_str()), per = atoi(f[2].c_str());
        ParamStore ps;
        for(auto &p : split(f[3], ';')) {
            auto q = split(p, ':');
            if(q.size() != 5) continue;
            ps.names.push_back(q[0] + "::" + q[1]);
            std::string m;
            auto add = [&m](const std::string &k, const std::string &v, bool hasv) {
                m += ":"; m += k; m.push_back('\0');
                if(hasv) { m += "="; m += v; m.push_back('\0'); }
            };
            if(q[2] != "-") add("min", q[2], true);
            if(q[3] != "-") add("max", q[3], true);
            if(q[4].find('l') != std::string::npos) add("scale", "logarithmic", true);
            if(q[4].find('x') != std::string::npos) add("internal", "", false);
            if(q[4].find('n') != std::string::npos) add("no learn", "", false);
            add("documentation", "d", true);
            m.push_back('\0');
            ps.metas.push_back(m);
        }
        DynPorts ports;
        for(size_t i = 0; i < ps.names.size(); ++i)
            ports.ports.push_back(rtosc::Port{ps.names[i].c_str(), ps.metas[i].c_str(), nullptr,
                                              [](const char *, rtosc::RtData &) {}});
        rtosc::AutomationMgr mgr(nslots, per, 4);
        mgr.set_ports(ports);
        auto rg = split(f[4], ',');
        mgr.NRPN.parhi = atoi(rg[0].c_str()); mgr.NRPN.parlo = atoi(rg[1].c_str());
        mgr.NRPN.valhi = atoi(rg[2].c_str()); mgr.NRPN.vallo = atoi(rg[3].c_str());
        std::string emitted;
        mgr.backend = [&emitted](const char *m) {
            if(!emitted.empty()) emitted += ";";
            emitted += show_msg(m);
        };
        std::ostringstream o;
        bool first = true;
        std::vector<std::string> ops = f[5] == "-" ? std::vector<std::string>() : split(f[5], ',');
        for(auto &op : ops) {
            auto a = split(op, ':');
            if(!first) o << "|";
            first = false;
            emitted.clear();
            int mslot = -1;
            std::string ret;
            auto I = [&a](size_t i) { return atoi(a[i].c_str()); };
            if(a[0] == "b" && a.size() == 4) {
                std::string path = "/" + a[2];
                mgr.createBinding(I(1), path.c_str(), I(3) != 0);
                mslot = I(1);
            } else if(a[0] == "cs" && a.size() == 2) { mgr.clearSlot(I(1)); mslot = I(1); }
            else if(a[0] == "cu" && a.size() == 3) { mgr.clearSlotSub(I(1), I(2)); mslot = I(1); }
            else if(a[0] == "g" && a.size() == 4) { mgr.setSlotSubGain(I(1), I(2), bitsf(a[3])); mslot = I(1); }
            else if(a[0] == "o" && a.size() == 4) { mgr.setSlotSubOffset(I(1), I(2), bitsf(a[3])); mslot = I(1); }
            else if(a[0] == "u" && a.size() == 3) { mgr.updateMapping(I(1), I(2)); mslot = I(1); }
            else if(a[0] == "v" && a.size() == 3) mgr.setSlot(I(1), bitsf(a[2]));
            else if(a[0] == "w" && a.size() == 4) mgr.setSlotSub(I(1), I(2), bitsf(a[3]));
            else if(a[0] == "m" && a.size() == 4) ret = mgr.handleMidi(I(1), I(2), I(3)) ? "r=1 " : "r=0 ";
            else { o << "BADOP"; continue; }
            o << ret << "e=" << emitted << " q=" << mgr.learn_queue_len << " s=";
            for(int i = 0; i < nslots; ++i) {
                if(i) o << ";";
                o << mgr.slots[i].learning << "/" << mgr.slots[i].midi_cc << "/" << mgr.slots[i].midi_nrpn;
            }
            if(mslot >= 0 && mslot < nslots) {
                o << " M=";
                for(int j = 0; j < per; ++j) {
                    auto &au = mgr.slots[mslot].automations[j];
                    if(j) o << ";";
                    if(!au.used) { o << "0"; continue; }
                    o << "1/" << (au.param_type ? au.param_type : '0') << "/" << fbits(au.param_min) << "/"
                      << fbits(au.param_max) << "/" << au.map.control_scale << "/" << fbits(au.map.gain) << "/"
                      << fbits(au.map.offset) << "/" << fbits(au.map.control_points[1]) << "/"
                      << fbits(au.map.control_points[3]);
                }
            }
        }
        puts(o.str().c_str());
    }
    return 0;
}
