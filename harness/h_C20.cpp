// C20 harness: the real MidiMappernRT and MidiMapperRT, wired through two
// FIFO queues owned by the harness (nRT -> RT: rt_cb; RT -> nRT: frontend).
// Nothing is delivered until the case says so.
//
//   case:   hist <ports> <events> [extra fields ignored]
//     ports  : comma list  <t>:<min>:<max>:<minbits>:<maxbits>   t = i|f, min/max
//              decimal text that goes into the port metadata (bits are for
//              the model); address k is "/p<k>", port name "p<k>:<t>"
//     events : comma list
//        M<a>.<c>  nrt.map("/p<a>", c)        U<a>.<c>  nrt.unMap("/p<a>", c)
//        X         nrt.clear()
//        C<par>.<val>.<chan>.<nrpn>           rt.handleCC(par,val,chan,nrpn)
//        n         deliver the oldest RT->nRT message (midi-use-CC -> useFreeID)
//        r         deliver the oldest nRT->RT message (dispatched through
//                  MidiMapperRT::ports)
//   output: one record per event separated by ';', then '|' and the end state;
//           if the code crashes: the records of the completed events, then CRASH
//     record = '+'-joined items in program order:
//        W / R / B   message put on the nRT->RT queue (add-watch/remove-watch/bind)
//        U<id>       midi-use-CC put on the RT->nRT queue
//        m<a>:<t>:<hex32>  message handed to the backend callback
//        A<id>:<a>:<c>     useFreeID(id) found (a,c) at the head of the learn queue
//        A<id>:-     useFreeID(id) found the learn queue empty
//        e           deliver on an empty queue
//        (empty record = '.')
//     end state = nrt{inv=a:loc:co:fi,..;q=a.c,..;map=id.c.ind,..;nc=..;nv=..}
//                 rt{map=..;val=..;pend=..;pr=..;pw=..;ps=..;w=..}
// Every case runs in a forked child: the histories the property quantifies
// over include ones that drive the code into out-of-bounds writes (ASan abort).
#include "hcommon.h"
#include <rtosc/rtosc.h>
#include <rtosc/ports.h>
#include <rtosc/miditable.h>
#include <deque>
#include <unistd.h>
#include <sys/wait.h>

using namespace rtosc;

struct World {
    std::vector<std::string> names, metas, addrs;
    Ports ports;
    MidiMappernRT nrt;
    MidiMapperRT  rt;
    std::deque<std::vector<char>> toRT, toNRT;
    std::vector<std::string> rec;

    World() : ports(std::initializer_list<Port>{}) {}

    void item(const std::string &s) { rec.push_back(s); }

    static std::vector<char> copymsg(const char *m)
    {
        size_t n = rtosc_message_length(m, 2048);
        return std::vector<char>(m, m + n);
    }

    int addr_index(const char *a) const
    {
        for(size_t i = 0; i < addrs.size(); ++i)
            if(addrs[i] == a) return (int)i;
        return -1;
    }

    void setup(const std::string &pf)
    {
        auto ps = split(pf, ',');
        names.reserve(ps.size()); metas.reserve(ps.size());
        for(size_t k = 0; k < ps.size(); ++k) {
            auto f = split(ps[k], ':');
            names.push_back("p" + std::to_string(k) + ":" + f[0]);
            std::string m;
            m += ":min"; m.push_back('\0'); m += "=" + f[1]; m.push_back('\0');
            m += ":max"; m.push_back('\0'); m += "=" + f[2]; m.push_back('\0');
            m.push_back('\0');
            metas.push_back(m);
            addrs.push_back("/p" + std::to_string(k));
        }
        for(size_t k = 0; k < ps.size(); ++k)
            ports.ports.push_back(Port{names[k].c_str(), metas[k].data(), nullptr, nullptr});
        nrt.base_ports = &ports;
        nrt.rt_cb = [this](const char *m) {
            if(!strcmp(m, "/midi-learn/midi-add-watch")) item("W");
            else if(!strcmp(m, "/midi-learn/midi-remove-watch")) item("R");
            else if(!strcmp(m, "/midi-learn/midi-bind")) item("B");
            else item("?" + std::string(m));
            toRT.push_back(copymsg(m));
        };
        rt.setFrontendCb([this](const char *m) {
            if(!strcmp(m, "/midi-use-CC")) item("U" + std::to_string(rtosc_argument(m, 0).i));
            else item("?" + std::string(m));
            toNRT.push_back(copymsg(m));
        });
        rt.setBackendCb([this](const char *m) {
            // decoded by hand (address, ",<t>", one big-endian word): the
            // library's own reader is another property's subject
            size_t al = strlen(m);
            const unsigned char *tt = (const unsigned char*)m + (al / 4 + 1) * 4;
            char t = (char)tt[1];
            const unsigned char *ap = tt + 4;
            uint32_t bits = ((uint32_t)ap[0] << 24) | ((uint32_t)ap[1] << 16) |
                            ((uint32_t)ap[2] << 8) | (uint32_t)ap[3];
            char b[64];
            snprintf(b, sizeof b, "m%d:%c:%08x", addr_index(m), t, bits);
            item(b);
        });
    }

    void deliverN()
    {
        if(toNRT.empty()) { item("e"); return; }
        std::vector<char> m = toNRT.front();
        toNRT.pop_front();
        int id = rtosc_argument(m.data(), 0).i;
        if(nrt.learnQueue.empty())
            item("A" + std::to_string(id) + ":-");
        else
            item("A" + std::to_string(id) + ":" +
                 std::to_string(addr_index(nrt.learnQueue.front().first.c_str())) + ":" +
                 (nrt.learnQueue.front().second ? "1" : "0"));
        nrt.useFreeID(id);
    }

    void deliverR()
    {
        if(toRT.empty()) { item("e"); return; }
        std::vector<char> m = toRT.front();
        toRT.pop_front();
        char loc[256] = "";
        RtData d;
        d.loc = loc; d.loc_size = sizeof loc; d.obj = &rt;
        const char *pfx = "/midi-learn/";
        if(strncmp(m.data(), pfx, strlen(pfx))) { item("?prefix"); return; }
        MidiMapperRT::ports.dispatch(m.data() + strlen(pfx), d, false);
        if(d.matches != 1) item("?matches" + std::to_string(d.matches));
    }

    static std::string mapping_str(MidiMapperStorage *s)
    {
        std::string o;
        if(!s) return "null";
        for(int i = 0; i < s->mapping.size(); ++i) {
            auto t = s->mapping[i];
            if(i) o += ",";
            o += std::to_string(std::get<0>(t)) + "." + (std::get<1>(t) ? "1" : "0") + "." +
                 std::to_string(std::get<2>(t));
        }
        return o;
    }

    std::string state()
    {
        std::ostringstream o;
        o << "nrt{inv=";
        // by address index (std::map order is by string; the table is small)
        bool first = true;
        for(size_t k = 0; k < addrs.size(); ++k) {
            auto it = nrt.inv_map.find(addrs[k]);
            if(it == nrt.inv_map.end()) continue;
            if(!first) o << ",";
            first = false;
            o << k << ":" << std::get<0>(it->second) << ":" << std::get<1>(it->second) << ":"
              << std::get<2>(it->second);
        }
        o << ";q=";
        first = true;
        for(auto &q : nrt.learnQueue) {
            if(!first) o << ",";
            first = false;
            o << addr_index(q.first.c_str()) << "." << (q.second ? 1 : 0);
        }
        o << ";map=" << mapping_str(nrt.storage);
        o << ";nc=" << (nrt.storage ? nrt.storage->callbacks.size() : -1);
        o << ";nv=" << (nrt.storage ? nrt.storage->values.size() : -1) << "}";
        o << "rt{map=" << mapping_str(rt.storage) << ";val=";
        if(rt.storage)
            for(int i = 0; i < rt.storage->values.size(); ++i)
                o << (i ? "," : "") << rt.storage->values[i];
        else o << "null";
        o << ";pend=";
        for(int i = 0; i < 32; ++i) o << (i ? "," : "") << rt.pending.vals[i];
        o << ";pr=" << rt.pending.pos_r << ";pw=" << rt.pending.pos_w << ";ps=" << rt.pending.size;
        o << ";w=" << rt.watchSize << "}";
        return o.str();
    }

    // records are written to fd as they complete so that a crash keeps the prefix
    void run(const std::string &evs, int fd)
    {
        bool firstev = true;
        for(auto &e : split(evs, ',')) {
            rec.clear();
            if(e.empty()) continue;
            switch(e[0]) {
            case 'M': case 'U': {
                auto f = split(e.substr(1), '.');
                int a = atoi(f[0].c_str()); bool c = atoi(f[1].c_str()) != 0;
                if(e[0] == 'M') nrt.map(addrs[a].c_str(), c);
                else nrt.unMap(addrs[a].c_str(), c);
                break; }
            case 'X': nrt.clear(); break;
            case 'C': {
                auto f = split(e.substr(1), '.');
                rt.handleCC(atoi(f[0].c_str()), atoi(f[1].c_str()), (char)atoi(f[2].c_str()),
                            atoi(f[3].c_str()) != 0);
                break; }
            case 'n': deliverN(); break;
            case 'r': deliverR(); break;
            default: item("?event");
            }
            std::string out;
            if(!firstev) out += ";";
            firstev = false;
            if(rec.empty()) out += ".";
            for(size_t i = 0; i < rec.size(); ++i) out += (i ? "+" : "") + rec[i];
            (void)!write(fd, out.data(), out.size());
        }
        std::string fin = "|" + state() + "\n";
        (void)!write(fd, fin.data(), fin.size());
    }
};

int main()
{
    std::string line;
    while(std::getline(std::cin, line)) {
        auto f = split(line, ' ');
        if(f.size() < 3 || f[0] != "hist") { puts("BADCASE"); fflush(stdout); continue; }
        int fd[2];
        if(pipe(fd)) { puts("PIPEFAIL"); continue; }
        fflush(stdout);
        pid_t pid = fork();
        if(pid == 0) {
            close(fd[0]);
            // the library prints diagnostics on stdout in some paths
            if(!freopen("/dev/null", "w", stdout)) _exit(3);
            World *w = new World();
            w->setup(f[1]);
            w->run(f[2], fd[1]);
            _exit(0);
        }
        close(fd[1]);
        std::string got;
        char buf[4096];
        ssize_t n;
        while((n = read(fd[0], buf, sizeof buf)) > 0) got.append(buf, n);
        close(fd[0]);
        int st = 0;
        waitpid(pid, &st, 0);
        if(got.empty() || got.back() != '\n' || !WIFEXITED(st) || WEXITSTATUS(st) != 0) {
            size_t bar = got.find('|');
            if(bar != std::string::npos) got.erase(bar);
            if(!got.empty() && got.back() == '\n') got.pop_back();
            printf("%s%sCRASH\n", got.c_str(), got.empty() ? "" : ";");
        } else
            fputs(got.c_str(), stdout);
        fflush(stdout);
    }
    return 0;
}
