// C05 harness: the real matchers of src/dispatch.c and the two type matcher
// copies of src/cpp/ports.cpp (through the RTOSC_VERIF hook).
//
//   one <pat> <addr> <types> ...          (hex; "-" = empty)
//     -> mp=<ret>:<pe> m=<r>:<pe> am=<r> pm=<r>
//        mp: rtosc_match_path(pattern, address): offset of the returned pointer
//            in the pattern (N = NULL) and of *path_end in the address (-1 =
//            not written)
//        m : rtosc_match(pattern, message, &path_end)
//        am/pm: arg_matcher / Port_Matcher::rtosc_match_args on the pattern from
//            its first ':' on (or its end)
//   sweep <pat> <alphabet> <maxlen> <first> <t1,t2,...> ...
//     every address over the alphabet of length <= maxlen whose first letter
//     is alphabet[first] (first = -1: the empty address only)
//     -> n=<addresses> M=<addr>/<ret>/<pe>/<mask>;... X=<anomalies> T=<am bits>/<pm bits>
//        one M entry per address with a path match or a non-zero mask; mask =
//        bit k set iff rtosc_match is true with type string k; X counts
//        addresses where rtosc_match's path_end differs from rtosc_match_path's
// Messages and addresses live in exact-size heap blocks (ASan sees over-reads).
#include "hcommon.h"
#include <rtosc/rtosc.h>

extern "C" bool rtosc_verif_arg_matcher(const char *pattern, const char *args);
extern "C" bool rtosc_verif_pm_match_args(const char *pattern, const char *msg);

static std::vector<uint8_t> cstr_bytes(const std::vector<uint8_t> &s)
{
    std::vector<uint8_t> v(s); v.push_back(0); return v;
}
// pad4z(addr) ++ pad4z("," types): the shortest well-formed message
static std::vector<uint8_t> message_bytes(const std::vector<uint8_t> &addr, const std::vector<uint8_t> &types)
{
    std::vector<uint8_t> v(addr);
    do v.push_back(0); while(v.size() % 4);
    v.push_back(',');
    v.insert(v.end(), types.begin(), types.end());
    do v.push_back(0); while(v.size() % 4);
    return v;
}

struct Res { long ret, pe; bool m; long mpe; };

// exact-size heap blocks, one per size and slot, reused (a fresh malloc per
// call dominates the sweep's run time under ASan); the bytes are written from
// the block's start so its end coincides with the allocation's end
static uint8_t *block(int slot, size_t n)
{
    static std::vector<uint8_t*> pool[2];
    if(!n) n = 1;
    if(pool[slot].size() <= n) pool[slot].resize(n + 1, nullptr);
    if(!pool[slot][n]) pool[slot][n] = (uint8_t*)malloc(n);
    return pool[slot][n];
}
static const char *exact_cstr(const uint8_t *a, size_t n)
{
    uint8_t *b = block(0, n + 1);
    if(n) memcpy(b, a, n);
    b[n] = 0;
    return (const char*)b;
}
static const char *exact_msg(const uint8_t *a, size_t n, const uint8_t *t, size_t tn)
{
    size_t an = (n / 4 + 1) * 4, bn = ((tn + 1) / 4 + 1) * 4;
    uint8_t *b = block(1, an + bn);
    memset(b, 0, an + bn);
    if(n) memcpy(b, a, n);
    b[an] = ',';
    if(tn) memcpy(b + an + 1, t, tn);
    return (const char*)b;
}

static Res run_one(const char *pat, const std::vector<uint8_t> &addr, const std::vector<uint8_t> &types)
{
    Res r;
    {
        ExactBuf a(cstr_bytes(addr));
        const char *pe = nullptr;
        const char *ret = rtosc_match_path(pat, (const char*)a.p, &pe);
        r.ret = ret ? ret - pat : -1;
        r.pe = pe ? pe - (const char*)a.p : -1;
    }
    {
        ExactBuf m(message_bytes(addr, types));
        const char *pe = nullptr;
        r.m = rtosc_match(pat, (const char*)m.p, &pe);
        r.mpe = pe ? pe - (const char*)m.p : -1;
    }
    return r;
}

int main()
{
    std::string line;
    while(std::getline(std::cin, line)) {
        auto f = split(line, ' ');
        if(f.size() >= 4 && f[0] == "one") {
            ExactBuf pat(cstr_bytes(unhex(f[1])));
            const char *p = (const char*)pat.p;
            auto addr = unhex(f[2]), types = unhex(f[3]);
            Res r = run_one(p, addr, types);
            const char *ap = strchr(p, ':');
            if(!ap) ap = p + strlen(p);
            ExactBuf t(cstr_bytes(types));
            ExactBuf m(message_bytes(addr, types));
            bool am = rtosc_verif_arg_matcher(ap, (const char*)t.p);
            bool pm = rtosc_verif_pm_match_args(ap, (const char*)m.p);
            std::ostringstream o;
            o << "mp=";
            if(r.ret < 0) o << "N"; else o << r.ret;
            o << ":" << r.pe << " m=" << (int)r.m << ":" << r.mpe << " am=" << (int)am << " pm=" << (int)pm;
            puts(o.str().c_str());
        } else if(f.size() >= 6 && f[0] == "sweep") {
            ExactBuf pat(cstr_bytes(unhex(f[1])));
            const char *p = (const char*)pat.p;
            auto alph = unhex(f[2]);
            int maxlen = atoi(f[3].c_str());
            int first = atoi(f[4].c_str());
            std::vector<std::vector<uint8_t>> tys;
            for(auto &h : split(f[5], ',')) tys.push_back(unhex(h));
            std::ostringstream o;
            long n = 0, anomalies = 0;
            bool firstM = true;
            o << "M=";
            // enumerate by length, then lexicographically in alphabet order
            int lo = first < 0 ? 0 : 1, hi = first < 0 ? 0 : maxlen;
            for(int len = lo; len <= hi; ++len) {
                std::vector<int> idx(len, 0);
                if(len) idx[0] = first;
                while(true) {
                    uint8_t addr[64];
                    for(int i = 0; i < len; ++i) addr[i] = alph[idx[i]];
                    ++n;
                    long ret = -1, pe = -1;
                    unsigned mask = 0;
                    {
                        const char *a = exact_cstr(addr, len);
                        const char *e = nullptr;
                        const char *rp = rtosc_match_path(p, a, &e);
                        ret = rp ? rp - p : -1;
                        pe = e ? e - a : -1;
                    }
                    for(size_t k = 0; k < tys.size(); ++k) {
                        const char *m = exact_msg(addr, len, tys[k].data(), tys[k].size());
                        const char *e = nullptr;
                        bool r = rtosc_match(p, m, &e);
                        long mpe = e ? e - m : -1;
                        if(r) mask |= 1u << k;
                        if(mpe != pe) ++anomalies;
                    }
                    if(ret >= 0 || mask) {
                        if(!firstM) o << ";";
                        firstM = false;
                        o << hex(addr, len) << "/";
                        if(ret < 0) o << "N"; else o << ret;
                        o << "/" << pe << "/" << std::hex << mask << std::dec;
                    }
                    // next address of this length with the same first letter
                    int i = len - 1;
                    while(i >= 1 && idx[i] == (int)alph.size() - 1) { idx[i] = 0; --i; }
                    if(i < 1) break;
                    ++idx[i];
                }
            }
            const char *ap = strchr(p, ':');
            if(!ap) ap = p + strlen(p);
            unsigned am = 0, pm = 0;
            for(size_t k = 0; k < tys.size(); ++k) {
                ExactBuf t(cstr_bytes(tys[k]));
                std::vector<uint8_t> x{'/', 'x'};
                ExactBuf m(message_bytes(x, tys[k]));
                if(rtosc_verif_arg_matcher(ap, (const char*)t.p)) am |= 1u << k;
                if(rtosc_verif_pm_match_args(ap, (const char*)m.p)) pm |= 1u << k;
            }
            std::ostringstream all;
            all << "n=" << n << " " << o.str() << " X=" << anomalies << " T=" << std::hex << am << "/" << pm;
            puts(all.str().c_str());
        } else puts("BADCASE");
        fflush(stdout);
    }
    return 0;
}
