// C06 harness: runs the real rtosc::ThreadLink on two real threads under a
// forced schedule.  The guarded hook RTOSC_VERIF_POINT (src/cpp/thread-link.cpp)
// calls rtosc_verif_hook before every shared access; each thread stops there
// until the scheduler (main thread) lets it go, so exactly one thread runs at
// any time and the interleaving is the one the case line prescribes.
//
// case:   ring <N> <MM> <wscript> <rscript> <sched> ...   (see ocaml/C06/driver.ml)
//         soak <MM> <nmsg> <count> <seed>                 (free-running, no forced schedule)
// output: ev=<T><id>:<w>,<r>,<rl>,<bufhash>;... wo=A|D,... ro=H<la>:<b>,R<la>:<hex>,...
//         fin=<w>,<r>,<rl>,<bufhex> err=0
#include "hcommon.h"
#include <rtosc/rtosc.h>
#include <rtosc/thread-link.h>
#include <semaphore.h>
#include <pthread.h>
#include <atomic>
#include <thread>
#include <cerrno>
#include <ctime>
#include <unistd.h>

extern "C" {
extern void (*rtosc_verif_hook)(int id, const void *ring);
void rtosc_verif_ring_peek(const void *ring, long *w, long *r, long *rl, size_t *size, char **buffer);
}

struct Peek { long w, r, rl; size_t size; char *buf; };
static Peek peek(const void *ring)
{
    Peek p;
    rtosc_verif_ring_peek(ring, &p.w, &p.r, &p.rl, &p.size, &p.buf);
    return p;
}
static unsigned fnv(const char *b, size_t n)
{
    unsigned h = 2166136261u;
    for(size_t i = 0; i < n; ++i) h = (h ^ (unsigned char)b[i]) * 16777619u;
    return h;
}

// ---- forced scheduling ------------------------------------------------------
static sem_t go_[2], arrived_[2];
static thread_local int my_tid = -1;          // 0 writer, 1 reader, -1 scheduler
static int at_id[2];
static bool fin_[2];
static int ops_done[2];
static const void *the_ring = 0;

static void hook_capture(int, const void *ring) { the_ring = ring; }
// a thread that does not come back to a hook (or finish) within 20 s is stuck
static void wait_arrived(int t)
{
    struct timespec ts;
    clock_gettime(CLOCK_REALTIME, &ts);
    ts.tv_sec += 20;
    while(sem_timedwait(&arrived_[t], &ts) != 0) {
        if(errno == EINTR) continue;
        printf("HANG thread %d does not reach its next shared access\n", t);
        fflush(stdout);
        _exit(3);
    }
}
static void hook_sched(int id, const void *)
{
    if(my_tid < 0) return;
    at_id[my_tid] = id;
    sem_post(&arrived_[my_tid]);
    sem_wait(&go_[my_tid]);
}

struct WOp { char kind; std::vector<uint8_t> m; };
struct ROp { char kind; bool la; };

static void do_write(rtosc::ThreadLink &tl, const WOp &op)
{
    // a private, exactly sized, NUL-padded copy (rtosc_message_length(msg,-1)
    // is allowed to look at the bytes after a bundle)
    std::vector<char> m(op.m.begin(), op.m.end());
    m.resize(m.size() + 16, 0);
    if(op.kind == 'r') { tl.raw_write(m.data()); return; }
    const char *args = rtosc_argument_string(m.data());
    unsigned na = rtosc_narguments(m.data());
    std::vector<rtosc_arg_t> av(na + 1);
    for(unsigned i = 0; i < na; ++i) av[i] = rtosc_argument(m.data(), i);
    std::string tags(args);
    if(op.kind == 'v') {
        if(tags == "")        { tl.write(m.data(), ""); return; }
        if(tags == "i")       { tl.write(m.data(), "i", av[0].i); return; }
        if(tags == "s")       { tl.write(m.data(), "s", av[0].s); return; }
        if(tags == "ii")      { tl.write(m.data(), "ii", av[0].i, av[1].i); return; }
        if(tags == "si")      { tl.write(m.data(), "si", av[0].s, av[1].i); return; }
        if(tags == "is")      { tl.write(m.data(), "is", av[0].i, av[1].s); return; }
    }
    tl.writeArray(m.data(), args, av.data());
}

struct Run {
    rtosc::ThreadLink *tl;
    std::vector<WOp> ws; std::vector<ROp> rs;
    std::vector<std::string> wo, ro;
};

static void writer_main(Run *R)
{
    my_tid = 0;
    for(auto &op : R->ws) {
        long w0 = peek(the_ring).w;
        do_write(*R->tl, op);
        long w1 = peek(the_ring).w;
        R->wo.push_back(w0 != w1 ? "A" : "D");
        ops_done[0]++;
    }
    fin_[0] = true;
    sem_post(&arrived_[0]);
}
static void reader_main(Run *R)
{
    my_tid = 1;
    for(auto &op : R->rs) {
        bool b = op.la ? R->tl->hasNextLookahead() : R->tl->hasNext();
        R->ro.push_back(std::string("H") + (op.la ? "1" : "0") + ":" + (b ? "1" : "0"));
        if(op.kind == 't' && b) {
            Peek p0 = peek(the_ring);
            const char *m = op.la ? R->tl->read_lookahead() : R->tl->read();
            Peek p1 = peek(the_ring);
            long a = op.la ? p0.rl : p0.r, z = op.la ? p1.rl : p1.r;
            size_t len = (size_t)((z - a + (long)p1.size) % (long)p1.size);
            R->ro.push_back(std::string("R") + (op.la ? "1" : "0") + ":" + hex(m, len));
        }
        ops_done[1]++;
    }
    fin_[1] = true;
    sem_post(&arrived_[1]);
}

static std::string run_ring(const std::vector<std::string> &f)
{
    size_t N = atoi(f[1].c_str()), MM = atoi(f[2].c_str());
    if(MM == 0 || N == 0 || N % MM) return "BADCASE";
    Run R;
    if(f[3] != "-") for(auto &o : split(f[3], ',')) R.ws.push_back({o[0], unhex(o.substr(1))});
    if(f[4] != "-") for(auto &o : split(f[4], ',')) R.rs.push_back({o[0], o[1] == '1'});
    rtosc::ThreadLink tl(MM, N / MM);
    R.tl = &tl;
    // capture the ring pointer, zero the buffer (the model starts from zeros)
    my_tid = -1;
    rtosc_verif_hook = hook_capture;
    tl.hasNext();
    Peek p = peek(the_ring);
    memset(p.buf, 0, p.size);
    rtosc_verif_hook = hook_sched;
    for(int t = 0; t < 2; ++t) {
        sem_init(&go_[t], 0, 0); sem_init(&arrived_[t], 0, 0);
        fin_[t] = false; ops_done[t] = 0; at_id[t] = 0;
    }
    std::thread tw(writer_main, &R), tr(reader_main, &R);
    wait_arrived(0);
    wait_arrived(1);
    std::string ev;
    auto hookstep = [&](int t) {
        if(fin_[t]) return;
        Peek q = peek(the_ring);
        char b[96];
        snprintf(b, sizeof b, "%c%d:%ld,%ld,%ld,%08x;", t ? 'R' : 'W', at_id[t], q.w, q.r, q.rl, fnv(q.buf, q.size));
        ev += b;
        sem_post(&go_[t]);
        wait_arrived(t);
    };
    auto whole = [&](int t) {
        int before = ops_done[t];
        while(!fin_[t]) {
            hookstep(t);
            if(ops_done[t] > before) break;
        }
    };
    for(char c : f[5]) {
        if(c == 'W') hookstep(0);
        else if(c == 'R') hookstep(1);
        else if(c == 'w') whole(0);
        else if(c == 'r') whole(1);
    }
    while(!fin_[0]) hookstep(0);
    while(!fin_[1]) hookstep(1);
    tw.join(); tr.join();
    rtosc_verif_hook = 0;
    Peek q = peek(the_ring);
    auto cat = [](const std::vector<std::string> &v) {
        if(v.empty()) return std::string("-");
        std::string s;
        for(size_t i = 0; i < v.size(); ++i) { if(i) s += ","; s += v[i]; }
        return s;
    };
    char b[96];
    snprintf(b, sizeof b, "%ld,%ld,%ld,", q.w, q.r, q.rl);
    return "ev=" + (ev.empty() ? std::string("-") : ev) + " wo=" + cat(R.wo) + " ro=" + cat(R.ro) +
           " fin=" + b + hex(q.buf, q.size) + " err=0";
}

// ---- free-running soak ---------------------------------------------------------
// The writer sends messages "/m<pad>" ,"ii" (sequence number, check word) with a
// pseudo-random amount of address padding; the reader polls hasNext/read and
// checks that sequence numbers increase strictly and every message is intact.
static std::string run_soak(const std::vector<std::string> &f)
{
    size_t MM = atoi(f[1].c_str()), nmsg = atoi(f[2].c_str());
    long count = atol(f[3].c_str());
    unsigned seed = (unsigned)atol(f[4].c_str());
    rtosc_verif_hook = 0;
    rtosc::ThreadLink tl(MM, nmsg);
    std::atomic<bool> done(false);
    long reads = 0, bad = 0, last = -1;
    std::thread tr([&] {
        int idle = 0;
        long spins = 0, stuck = 0;
        while(true) {
            if(++spins > 400 * count + 4000000 || stuck > 1000) { bad++; break; }   // never ends: broken
            if(tl.hasNext()) {
                idle = 0;
                const char *m = tl.read();
                size_t len = rtosc_message_length(m, MM);
                if(len == 0 || strcmp(rtosc_argument_string(m), "ii")) { bad++; stuck++; continue; }
                long seq = rtosc_argument(m, 0).i, chk = rtosc_argument(m, 1).i;
                size_t pl = strlen(m);
                bool ok = seq > last && chk == (int)((seq * 2654435761u ^ pl) & 0x7fffffff) && m[0] == '/' && m[1] == 'm';
                for(size_t i = 2; i < pl; ++i) ok = ok && m[i] == (char)('a' + (seq + i) % 26);
                if(!ok) bad++;
                last = seq;
                reads++;
            } else if(done.load()) {
                if(++idle > 2) break;
            } else std::this_thread::yield();
        }
    });
    std::thread tw([&] {
        unsigned x = seed * 2654435761u + 12345;
        std::vector<char> addr(MM + 8);
        size_t maxpl = MM >= 24 ? MM - 16 : 4;
        for(long seq = 0; seq < count; ++seq) {
            x = x * 1664525u + 1013904223u;
            size_t pl = 2 + (x >> 16) % (maxpl - 1);
            if((x >> 4) % 13 == 0) pl = MM;      // longer than MaxMsg: must be dropped whole
            addr[0] = '/'; addr[1] = 'm';
            for(size_t i = 2; i < pl; ++i) addr[i] = (char)('a' + (seq + i) % 26);
            addr[pl] = 0;
            tl.write(addr.data(), "ii", (int)seq, (int)((seq * 2654435761u ^ pl) & 0x7fffffff));
            if((x >> 8) % 7 == 0) std::this_thread::yield();
        }
        done.store(true);
    });
    tw.join(); tr.join();
    char b[128];
    snprintf(b, sizeof b, "soak %s reads=%ld of %ld", bad ? "BAD" : "ok", reads, count);
    return b;
}

int main()
{
    std::string line;
    while(std::getline(std::cin, line)) {
        auto f = split(line, ' ');
        std::string out = "BADCASE";
        if(f.size() >= 6 && f[0] == "ring") out = run_ring(f);
        else if(f.size() >= 5 && f[0] == "soak") out = run_soak(f);
        puts(out.c_str());
        fflush(stdout);
    }
    return 0;
}
