// One rOption port per argument count the rOptions(...) macro family supports
// (OPTIONS_IMP1 .. OPTIONS_IMP24 of include/rtosc/port-sugar.h): port o<n>
// declares the first n of 24 distinct symbols, so symbol number i of every
// list stands at position i.  Included by h_C14.cpp (the ports are driven by
// symbol and by number) and by h_C17.cpp (the metadata blocks these macro
// invocations write are read back).  Include after `using namespace rtosc;`.
#pragma once
#include <rtosc/ports.h>
#include <rtosc/port-sugar.h>

enum { OPT_COUNTS = 24 };
struct Opt {
    static const rtosc::Ports ports;
    uint32_t guardA;
    int o1, o2, o3, o4, o5, o6, o7, o8, o9, o10, o11, o12, o13, o14, o15, o16, o17, o18, o19, o20, o21, o22, o23, o24;
    uint32_t guardB;
};

#define rObject Opt
const rtosc::Ports Opt::ports = {
    rOption(o1, rOptions(alpha), "d"),
    rOption(o2, rOptions(alpha, bravo), "d"),
    rOption(o3, rOptions(alpha, bravo, charlie), "d"),
    rOption(o4, rOptions(alpha, bravo, charlie, delta), "d"),
    rOption(o5, rOptions(alpha, bravo, charlie, delta, echo), "d"),
    rOption(o6, rOptions(alpha, bravo, charlie, delta, echo, foxtrot), "d"),
    rOption(o7, rOptions(alpha, bravo, charlie, delta, echo, foxtrot, golf), "d"),
    rOption(o8, rOptions(alpha, bravo, charlie, delta, echo, foxtrot, golf, hotel), "d"),
    rOption(o9, rOptions(alpha, bravo, charlie, delta, echo, foxtrot, golf, hotel, india), "d"),
    rOption(o10, rOptions(alpha, bravo, charlie, delta, echo, foxtrot, golf, hotel, india, juliet), "d"),
    rOption(o11, rOptions(alpha, bravo, charlie, delta, echo, foxtrot, golf, hotel, india, juliet, kilo), "d"),
    rOption(o12, rOptions(alpha, bravo, charlie, delta, echo, foxtrot, golf, hotel, india, juliet, kilo, lima), "d"),
    rOption(o13, rOptions(alpha, bravo, charlie, delta, echo, foxtrot, golf, hotel, india, juliet, kilo, lima, mike), "d"),
    rOption(o14, rOptions(alpha, bravo, charlie, delta, echo, foxtrot, golf, hotel, india, juliet, kilo, lima, mike, november), "d"),
    rOption(o15, rOptions(alpha, bravo, charlie, delta, echo, foxtrot, golf, hotel, india, juliet, kilo, lima, mike, november, oscar), "d"),
    rOption(o16, rOptions(alpha, bravo, charlie, delta, echo, foxtrot, golf, hotel, india, juliet, kilo, lima, mike, november, oscar, papa), "d"),
    rOption(o17, rOptions(alpha, bravo, charlie, delta, echo, foxtrot, golf, hotel, india, juliet, kilo, lima, mike, november, oscar, papa, quebec), "d"),
    rOption(o18, rOptions(alpha, bravo, charlie, delta, echo, foxtrot, golf, hotel, india, juliet, kilo, lima, mike, november, oscar, papa, quebec, romeo), "d"),
    rOption(o19, rOptions(alpha, bravo, charlie, delta, echo, foxtrot, golf, hotel, india, juliet, kilo, lima, mike, november, oscar, papa, quebec, romeo, sierra), "d"),
    rOption(o20, rOptions(alpha, bravo, charlie, delta, echo, foxtrot, golf, hotel, india, juliet, kilo, lima, mike, november, oscar, papa, quebec, romeo, sierra, tango), "d"),
    rOption(o21, rOptions(alpha, bravo, charlie, delta, echo, foxtrot, golf, hotel, india, juliet, kilo, lima, mike, november, oscar, papa, quebec, romeo, sierra, tango, uniform), "d"),
    rOption(o22, rOptions(alpha, bravo, charlie, delta, echo, foxtrot, golf, hotel, india, juliet, kilo, lima, mike, november, oscar, papa, quebec, romeo, sierra, tango, uniform, victor), "d"),
    rOption(o23, rOptions(alpha, bravo, charlie, delta, echo, foxtrot, golf, hotel, india, juliet, kilo, lima, mike, november, oscar, papa, quebec, romeo, sierra, tango, uniform, victor, whiskey), "d"),
    rOption(o24, rOptions(alpha, bravo, charlie, delta, echo, foxtrot, golf, hotel, india, juliet, kilo, lima, mike, november, oscar, papa, quebec, romeo, sierra, tango, uniform, victor, whiskey, xray), "d"),
};
#undef rObject

// the argument lists as they are written above (position = index in the list)
static const char *const opt_declared[OPT_COUNTS] = {
    "alpha",
    "alpha,bravo",
    "alpha,bravo,charlie",
    "alpha,bravo,charlie,delta",
    "alpha,bravo,charlie,delta,echo",
    "alpha,bravo,charlie,delta,echo,foxtrot",
    "alpha,bravo,charlie,delta,echo,foxtrot,golf",
    "alpha,bravo,charlie,delta,echo,foxtrot,golf,hotel",
    "alpha,bravo,charlie,delta,echo,foxtrot,golf,hotel,india",
    "alpha,bravo,charlie,delta,echo,foxtrot,golf,hotel,india,juliet",
    "alpha,bravo,charlie,delta,echo,foxtrot,golf,hotel,india,juliet,kilo",
    "alpha,bravo,charlie,delta,echo,foxtrot,golf,hotel,india,juliet,kilo,lima",
    "alpha,bravo,charlie,delta,echo,foxtrot,golf,hotel,india,juliet,kilo,lima,mike",
    "alpha,bravo,charlie,delta,echo,foxtrot,golf,hotel,india,juliet,kilo,lima,mike,november",
    "alpha,bravo,charlie,delta,echo,foxtrot,golf,hotel,india,juliet,kilo,lima,mike,november,oscar",
    "alpha,bravo,charlie,delta,echo,foxtrot,golf,hotel,india,juliet,kilo,lima,mike,november,oscar,papa",
    "alpha,bravo,charlie,delta,echo,foxtrot,golf,hotel,india,juliet,kilo,lima,mike,november,oscar,papa,quebec",
    "alpha,bravo,charlie,delta,echo,foxtrot,golf,hotel,india,juliet,kilo,lima,mike,november,oscar,papa,quebec,romeo",
    "alpha,bravo,charlie,delta,echo,foxtrot,golf,hotel,india,juliet,kilo,lima,mike,november,oscar,papa,quebec,romeo,sierra",
    "alpha,bravo,charlie,delta,echo,foxtrot,golf,hotel,india,juliet,kilo,lima,mike,november,oscar,papa,quebec,romeo,sierra,tango",
    "alpha,bravo,charlie,delta,echo,foxtrot,golf,hotel,india,juliet,kilo,lima,mike,november,oscar,papa,quebec,romeo,sierra,tango,uniform",
    "alpha,bravo,charlie,delta,echo,foxtrot,golf,hotel,india,juliet,kilo,lima,mike,november,oscar,papa,quebec,romeo,sierra,tango,uniform,victor",
    "alpha,bravo,charlie,delta,echo,foxtrot,golf,hotel,india,juliet,kilo,lima,mike,november,oscar,papa,quebec,romeo,sierra,tango,uniform,victor,whiskey",
    "alpha,bravo,charlie,delta,echo,foxtrot,golf,hotel,india,juliet,kilo,lima,mike,november,oscar,papa,quebec,romeo,sierra,tango,uniform,victor,whiskey,xray",
};
static int *opt_field(Opt &o, int n)
{
    int *f[] = {&o.o1, &o.o2, &o.o3, &o.o4, &o.o5, &o.o6, &o.o7, &o.o8, &o.o9, &o.o10, &o.o11, &o.o12, &o.o13, &o.o14, &o.o15, &o.o16, &o.o17, &o.o18, &o.o19, &o.o20, &o.o21, &o.o22, &o.o23, &o.o24};
    return f[n - 1];
}
