// C04 harness: Ports::dispatch on port tables built at run time.
//
//   tables <tree>
//     -> <tid>:<pos>:<assoc> ...      the library's own lookup tables (hook
//        Ports::verif_tables) per table, preorder
//   disp <tree> <address hex> <types hex> [<kind> [<stale hex or ->]] ...
//        <stale>: the C string the location buffer holds when it is handed to
//        the root dispatch (a reused scratch buffer); default: empty
//     -> L <events> m=<matches> obj=<d.obj after> loc=<loc> | N <events> m=<matches> obj=<d.obj after> | R <tid>=<remap>;... T=<ok|DIFF>
//        L: root dispatch with a location buffer, N: without.  One event per
//        callback:  <tid>:<idx>@<msg offset>/<obj>/<loc hex or ~>/<d.port is this port>/<L leaf | I inner>
//        default handler: D<tid>@<msg offset>/<obj>/<loc>
//        T=ok iff the pos/assoc written in the case line are the library's
//
// <tree> = '.'-separated tokens, preorder:
//   table := T <tid> <dflt> <nports> <pos> <assoc> port*
//   port  := <name hex> <hassub> [table]
//   <pos> = p_p_p or -, <assoc> = c_v_c_v (non-zero entries) or -
#include "hcommon.h"
#include <rtosc/ports.h>
#include <rtosc/rtosc.h>
#include <rtosc/port-sugar.h>
#include <cstddef>
#include <cctype>
#include <memory>
#include <functional>

using namespace rtosc;

struct Event { std::string s; };
static std::vector<std::string> *g_log;
static const char *g_msg_base;

static std::string lochex(const char *loc)
{
    if(!loc) return "~";
    return hex(loc, strlen(loc));
}

struct Dyn;

// ---- the library's own recursion callbacks (port-sugar.h) -------------------
// About a third of the sub-tree ports get rRecurCb (names without '#') or
// rRecursCb (names with '#') as their callback instead of the stand-in below.
// The macros want a static `ports` in the child's type: SubProxy forwards to
// the run-time built sub-table of the port being served and translates the
// pointer the macro computed (&obj->one / &obj->many[idx]) back to the
// object numbering of the stand-in, so both kinds log the same events.
struct SubProxy { void dispatch(const char *msg, RtData &d) const; };
struct Child  { char x[4]; static const SubProxy ports; };
const SubProxy Child::ports;
struct Holder { char pad[3]; Child one; Child many[40]; };
struct Frame  { Dyn *self; long id; long parent; };
static std::vector<Frame> g_frames;

#define rObject Holder
static const std::function<void(const char*, RtData&)> g_recur_cb  = rRecurCb(one);
static const std::function<void(const char*, RtData&)> g_recurs_cb = rRecursCb(many, 40);
#undef rObject

static long child_obj(long o, long tid, long id, long n) { return o * 131 + tid * 17 + id * 7 + n + 1; }

struct Dyn : Ports {
    long tid = 0;
    bool dflt = false;
    std::vector<std::string> names;
    std::vector<std::unique_ptr<Dyn>> subs;
    std::vector<int> want_pos, want_assoc;   // from the case line
    Dyn() : Ports({}) {}
    bool macro_port(long id) const { return (tid + id) % 3 == 0; }
    void finish()
    {
        for(size_t i = 0; i < names.size(); ++i) {
            Dyn *sub = subs[i].get();
            long id = i;
            Dyn *self = this;
            bool macro = macro_port(id);
            ports.push_back(Port{names[i].c_str(), "", sub,
                [self, id, sub, macro](const char *msg, RtData &d) {
                    std::ostringstream o;
                    o << self->tid << ":" << id << "@" << (msg - g_msg_base) << "/" << (long)(intptr_t)d.obj
                      << "/" << lochex(d.loc) << "/" << (d.port == &self->ports[id] ? 1 : 0)
                      << "/" << (self->ports[id].ports ? "I" : "L");
                    g_log->push_back(o.str());
                    if(!sub) return;
                    const char *name = self->names[id].c_str();
                    const char *hash = strchr(name, '#');
                    if(macro) {
                        g_frames.push_back(Frame{self, id, (long)(intptr_t)d.obj});
                        (hash ? g_recurs_cb : g_recur_cb)(msg, d);
                        g_frames.pop_back();
                        return;
                    }
                    // stand-in: what rRecursCb / rRecurCb do
                    long n = 0;
                    if(hash) {                                  // rBOILS_BEGIN
                        const char *mm = msg;
                        for(const char *pn = name; pn != hash && *mm; ++pn) ++mm;
                        while(*mm && !isdigit(*mm)) ++mm;
                        n = atoi(mm);
                    }
                    d.obj = (void*)(intptr_t)child_obj((long)(intptr_t)d.obj, self->tid, id, n);
                    int k = 0;                                  // SNIP: one component per '/' of the name
                    for(const char *pn = name; *pn && *pn != ':'; ++pn) k += (*pn == '/');
                    do {
                        while(*msg && *msg != '/') ++msg;
                        msg = *msg ? msg + 1 : msg;
                    } while(--k > 0);
                    sub->dispatch(msg, d);
                }});
        }
        if(dflt) {
            Dyn *self = this;
            default_handler = [self](const char *msg, RtData &d) {
                std::ostringstream o;
                o << "D" << self->tid << "@" << (msg - g_msg_base) << "/" << (long)(intptr_t)d.obj << "/" << lochex(d.loc);
                g_log->push_back(o.str());
            };
        }
        refreshMagic();
    }
};

void SubProxy::dispatch(const char *msg, RtData &d) const
{
    if(g_frames.empty()) { g_log->push_back("ERR"); return; }
    Frame f = g_frames.back();
    Dyn *sub = f.self->subs[f.id].get();
    long off = (long)(intptr_t)d.obj - f.parent;
    long n;
    if(strchr(f.self->names[f.id].c_str(), '#')) {
        long a = off - (long)offsetof(Holder, many);
        if(a < 0 || a % (long)sizeof(Child)) { g_log->push_back("ERR"); return; }
        n = a / (long)sizeof(Child);
    } else {
        if(off != (long)offsetof(Holder, one)) { g_log->push_back("ERR"); return; }
        n = 0;
    }
    if(d.port != &f.self->ports[f.id] || !sub) { g_log->push_back("ERR"); return; }
    d.obj = (void*)(intptr_t)child_obj(f.parent, f.self->tid, f.id, n);
    sub->dispatch(msg, d);
}

static std::vector<int> ints(const std::string &s)
{
    std::vector<int> v;
    if(s == "-" || s == "?") return v;
    for(auto &x : split(s, '_')) v.push_back(atoi(x.c_str()));
    return v;
}

static std::unique_ptr<Dyn> parse(const std::vector<std::string> &tk, size_t &k)
{
    std::unique_ptr<Dyn> t(new Dyn);
    if(k + 6 > tk.size() || tk[k] != "T") throw 1;
    t->tid = atol(tk[k + 1].c_str());
    t->dflt = tk[k + 2] == "1";
    int n = atoi(tk[k + 3].c_str());
    t->want_pos = ints(tk[k + 4]);
    auto sparse = ints(tk[k + 5]);
    if(!t->want_pos.empty()) {
        t->want_assoc.assign(256, 0);
        for(size_t i = 0; i + 1 < sparse.size(); i += 2)
            if(sparse[i] >= 0 && sparse[i] < 256) t->want_assoc[sparse[i]] = sparse[i + 1];
    }
    k += 6;
    for(int i = 0; i < n; ++i) {
        if(k + 2 > tk.size()) throw 1;
        auto nb = unhex(tk[k]);
        t->names.push_back(std::string(nb.begin(), nb.end()));
        bool hs = tk[k + 1] == "1";
        k += 2;
        if(hs) t->subs.push_back(parse(tk, k)); else t->subs.push_back(nullptr);
    }
    t->finish();
    return t;
}

static std::string join(const std::vector<int> &v)
{
    if(v.empty()) return "-";
    std::ostringstream o;
    for(size_t i = 0; i < v.size(); ++i) { if(i) o << "_"; o << v[i]; }
    return o.str();
}

static void walk(Dyn *t, std::function<void(Dyn*)> f)
{
    f(t);
    for(auto &s : t->subs) if(s) walk(s.get(), f);
}

static std::string run(Dyn *root, const std::vector<uint8_t> &msg, bool withloc,
                       const std::vector<uint8_t> *stale = nullptr)
{
    std::vector<std::string> log;
    g_log = &log;
    ExactBuf m(msg);
    g_msg_base = (const char*)m.p;
    RtData d;
    char loc[1024];
    memset(loc, 0x55, sizeof(loc)); loc[0] = 0;
    if(stale && stale->size() < sizeof(loc) - 300) {         // the buffer was used for something else before
        memcpy(loc, stale->data(), stale->size());
        loc[stale->size()] = 0;
    }
    if(withloc) { d.loc = loc; d.loc_size = sizeof(loc); }
    d.obj = (void*)(intptr_t)1;
    d.matches = -7;
    root->dispatch((const char*)m.p, d, true);
    std::ostringstream o;
    for(size_t i = 0; i < log.size(); ++i) { if(i) o << ";"; o << log[i]; }
    if(log.empty()) o << "-";
    o << " m=" << d.matches << " obj=" << (long)(intptr_t)d.obj;
    if(withloc) o << " loc=" << lochex(loc);
    return o.str();
}

int main()
{
    std::string line;
    while(std::getline(std::cin, line)) {
        auto f = split(line, ' ');
        try {
            if(f.size() >= 2 && f[0] == "tables") {
                auto tk = split(f[1], '.');
                size_t k = 0;
                auto root = parse(tk, k);
                std::ostringstream o;
                bool first = true;
                walk(root.get(), [&](Dyn *t) {
                    std::vector<int> p, a, r;
                    t->verif_tables(p, a, r);
                    std::vector<int> sp;
                    for(size_t c = 0; c < a.size(); ++c) if(a[c]) { sp.push_back(c); sp.push_back(a[c]); }
                    if(!first) o << " ";
                    first = false;
                    o << t->tid << ":" << join(p) << ":" << join(sp);
                });
                puts(o.str().c_str());
            } else if(f.size() >= 4 && f[0] == "disp") {
                auto tk = split(f[1], '.');
                size_t k = 0;
                auto root = parse(tk, k);
                auto addr = unhex(f[2]), types = unhex(f[3]);
                std::vector<uint8_t> msg(addr);
                do msg.push_back(0); while(msg.size() % 4);
                msg.push_back(',');
                msg.insert(msg.end(), types.begin(), types.end());
                do msg.push_back(0); while(msg.size() % 4);
                std::vector<uint8_t> stale;
                bool has_stale = f.size() >= 6 && f[5] != "-";
                if(has_stale) stale = unhex(f[5]);
                std::string L = run(root.get(), msg, true, has_stale ? &stale : nullptr);
                std::string N = run(root.get(), msg, false);
                std::ostringstream o;
                o << "L " << L << " | N " << N << " | R ";
                bool same = true, first = true;
                walk(root.get(), [&](Dyn *t) {
                    std::vector<int> p, a, r;
                    t->verif_tables(p, a, r);
                    if(p != t->want_pos) same = false;
                    if(!p.empty() && a != t->want_assoc) same = false;
                    if(!first) o << ";";
                    first = false;
                    o << t->tid << "=" << join(r);
                });
                o << " T=" << (same ? "ok" : "DIFF");
                puts(o.str().c_str());
            } else puts("BADCASE");
        } catch(...) { puts("BADCASE"); }
        fflush(stdout);
    }
    return 0;
}
