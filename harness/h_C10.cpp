// C10 / C11 harness: the real printer, syntax checker and scanner.
//   case  pp <linelength> <prec> <compress> <lossless> <vals> [extra...]
//         pm <linelength> <prec> <compress> <lossless> <vals> <hexaddress> [extra...]
//         sc <hextext> [extra...]                 (C11: text -> count, scan)
//   vals  ';'-separated slots of the flat arg-val layout ('-' = empty list)
//         i:<dec> h:<dec> c:<dec> T F N I s:<hex> S:<hex> b:<hex> m:<hex8>
//         r:<hex8> f:<hex8 bits> d:<hex16 bits> t:<hex16>
//         a:<elemtype code>:<len>  (array header, len slots follow)
//         R:<num>:<has_delta>      (range header: [delta] start follow)
//   output pp/pm: P=<hextext> W=<returned> C=<count> N=<slots written> R=<bytes read> V=<vals> EQ=<0|1>
//          pm adds A=<hexaddress scanned>
//   output sc:    C=<count> N=<slots written> R=<bytes read> V=<vals> P2=<hex reprint> EQ2=<0|1> V2=<vals of the second scan>
// The scan is only attempted when the checker's count is positive (its
// documented precondition); otherwise N=-1 R=-1 V=- .
#include "hcommon.h"
#include <rtosc/rtosc.h>
#include <rtosc/arg-ext.h>
#include <rtosc/pretty-format.h>
#include <rtosc/arg-val-cmp.h>
#include <cinttypes>
#include <ctime>
#include <cstdlib>
#include <deque>

static const size_t PBUF = 1 << 17;
static const int SENT = 0x7e;

struct Vals {
    std::vector<rtosc_arg_val_t> av;
    std::deque<std::vector<uint8_t>> store;  // stable storage for strings/blobs
};

static bool parse_vals(const std::string &s, Vals &v)
{
    if(s == "-") return true;
    for(auto &tok : split(s, ';')) {
        auto f = split(tok, ':');
        rtosc_arg_val_t a; memset(&a, 0, sizeof(a));
        if(f.empty() || f[0].size() != 1) return false;
        char k = f[0][0];
        switch(k) {
            case 'i': a.type = 'i'; a.val.i = (int32_t)strtoll(f[1].c_str(), 0, 10); break;
            case 'c': a.type = 'c'; a.val.i = (int32_t)strtoll(f[1].c_str(), 0, 10); break;
            case 'h': a.type = 'h'; a.val.h = (int64_t)strtoll(f[1].c_str(), 0, 10); break;
            case 'T': a.type = 'T'; a.val.T = 1; break;
            case 'F': a.type = 'F'; a.val.T = 0; break;
            case 'N': a.type = 'N'; break;
            case 'I': a.type = 'I'; break;
            case 's': case 'S': {
                auto b = unhex(f[1]); b.push_back(0);
                v.store.push_back(b);
                a.type = k; a.val.s = (const char*)v.store.back().data(); break; }
            case 'b': {
                auto b = unhex(f[1]);
                size_t n = b.size(); if(b.empty()) b.push_back(0);
                v.store.push_back(b);
                a.type = 'b'; a.val.b.len = (int32_t)n; a.val.b.data = v.store.back().data(); break; }
            case 'm': { auto b = unhex(f[1]); a.type = 'm'; for(int i = 0; i < 4; ++i) a.val.m[i] = b[i]; break; }
            case 'r': a.type = 'r'; a.val.i = (int32_t)strtoul(f[1].c_str(), 0, 16); break;
            case 'f': { uint32_t u = (uint32_t)strtoul(f[1].c_str(), 0, 16); a.type = 'f'; memcpy(&a.val.f, &u, 4); break; }
            case 'd': { uint64_t u = strtoull(f[1].c_str(), 0, 16); a.type = 'd'; memcpy(&a.val.d, &u, 8); break; }
            case 't': a.type = 't'; a.val.t = strtoull(f[1].c_str(), 0, 16); break;
            case 'a': a.type = 'a'; rtosc_av_arr_type_set(&a, (char)atoi(f[1].c_str()));
                      rtosc_av_arr_len_set(&a, atoi(f[2].c_str())); break;
            case 'R': a.type = '-'; rtosc_av_rep_num_set(&a, atoi(f[1].c_str()));
                      rtosc_av_rep_has_delta_set(&a, atoi(f[2].c_str())); break;
            default: return false;
        }
        v.av.push_back(a);
    }
    return true;
}

static std::string show_vals(const rtosc_arg_val_t *a, size_t n)
{
    if(n == 0) return "-";
    std::ostringstream o;
    char tmp[64];
    for(size_t i = 0; i < n; ++i) {
        if(i) o << ";";
        const rtosc_arg_val_t &x = a[i];
        switch(x.type) {
            case 'i': o << "i:" << x.val.i; break;
            case 'c': o << "c:" << x.val.i; break;
            case 'h': o << "h:" << (long long)x.val.h; break;
            case 'T': case 'F': case 'N': case 'I': o << x.type; break;
            case 's': case 'S': o << x.type << ":" << (x.val.s ? hex(x.val.s, strlen(x.val.s)) : "NULL"); break;
            case 'b': o << "b:" << hex(x.val.b.data, x.val.b.len > 0 ? x.val.b.len : 0); break;
            case 'm': o << "m:" << hex(x.val.m, 4); break;
            case 'r': snprintf(tmp, 64, "r:%08x", (unsigned)x.val.i); o << tmp; break;
            case 'f': { uint32_t u; memcpy(&u, &x.val.f, 4); snprintf(tmp, 64, "f:%08x", u); o << tmp; break; }
            case 'd': { uint64_t u; memcpy(&u, &x.val.d, 8); snprintf(tmp, 64, "d:%016" PRIx64, u); o << tmp; break; }
            case 't': snprintf(tmp, 64, "t:%016" PRIx64, (uint64_t)x.val.t); o << tmp; break;
            case 'a': o << "a:" << (int)rtosc_av_arr_type(&x) << ":" << rtosc_av_arr_len(&x); break;
            case '-': o << "R:" << rtosc_av_rep_num(&x) << ":" << rtosc_av_rep_has_delta(&x); break;
            default: o << "?" << (int)(unsigned char)x.type; break;
        }
    }
    return o.str();
}

struct Scanned {
    int count = 0; long nwritten = -1; long rd = -1;
    std::vector<rtosc_arg_val_t> av; std::vector<char> strbuf; std::string addr;
};

// text must be NUL-terminated inside an exact-size heap copy
static void count_and_scan(const char *text, bool msg, Scanned &s)
{
    s.count = msg ? rtosc_count_printed_arg_vals_of_msg(text) : rtosc_count_printed_arg_vals(text);
    if(msg && s.count == 0) {
        // a message without arguments: the address is scanned, no value is written
        s.av.assign(8, rtosc_arg_val_t());
        for(auto &x : s.av) { memset(&x, 0, sizeof(x)); x.type = SENT; }
        s.strbuf.assign(strlen(text) + 64, 0);
        std::vector<char> adr(strlen(text) + 2, 0);
        s.rd = (long)rtosc_scan_message(text, adr.data(), adr.size(), s.av.data(), 0, s.strbuf.data(), s.strbuf.size());
        s.addr = adr.data();
        long w = 0;
        for(size_t i = 0; i < s.av.size(); ++i) if(s.av[i].type != SENT) w = (long)i + 1;
        s.nwritten = w;
        return;
    }
    if(s.count <= 0 || s.count > 100000) return;
    size_t n = (size_t)s.count;
    s.av.assign(n + 8, rtosc_arg_val_t());
    for(auto &x : s.av) { memset(&x, 0, sizeof(x)); x.type = SENT; }
    s.strbuf.assign(strlen(text) + 64, 0);
    if(msg) {
        std::vector<char> adr(strlen(text) + 2, 0);
        s.rd = (long)rtosc_scan_message(text, adr.data(), adr.size(), s.av.data(), n, s.strbuf.data(), s.strbuf.size());
        s.addr = adr.data();
    } else
        s.rd = (long)rtosc_scan_arg_vals(text, s.av.data(), n, s.strbuf.data(), s.strbuf.size());
    long w = 0;
    for(size_t i = 0; i < s.av.size(); ++i) if(s.av[i].type != SENT) w = (long)i + 1;
    s.nwritten = w;
}

int main()
{
    // the calendar functions of libc are compared with the model's for TZ=UTC
    setenv("TZ", "UTC", 1);
    tzset();
    std::string line;
    std::vector<char> pbuf(PBUF);
    while(std::getline(std::cin, line)) {
        auto f = split(line, ' ');
        if(f.size() >= 2 && f[0] == "cal") {
            // localtime() and mktime() as the library calls them (rtosc-time.c)
            time_t t = (time_t)strtoll(f[1].c_str(), 0, 10);
            struct tm m = *localtime(&t);
            struct tm m2 = m;
            m2.tm_isdst = -1;
            long long back = (long long)mktime(&m2);
            printf("D=%d-%d-%d-%d-%d-%d S=%lld\n", m.tm_year + 1900, m.tm_mon + 1, m.tm_mday,
                   m.tm_hour, m.tm_min, m.tm_sec, back);
            fflush(stdout);
            continue;
        }
        if(f.size() >= 6 && (f[0] == "pp" || f[0] == "pm" || f[0] == "xp" || f[0] == "xm")) {
            bool msg = f[0][1] == 'm';
            rtosc_print_options o;
            o.linelength = atoi(f[1].c_str());
            o.floating_point_precision = atoi(f[2].c_str());
            o.compress_ranges = atoi(f[3].c_str());
            o.lossless = atoi(f[4].c_str()) != 0;
            o.sep = " ";
            Vals v;
            if(!parse_vals(f[5], v) || (msg && f.size() < 7)) { puts("BADCASE"); continue; }
            memset(pbuf.data(), 0x7f, 4096);
            pbuf[0] = 0;
            size_t wrt;
            std::string addr;
            // exact-size heap copy of the value list: a read past its end is an ASan report
            size_t n = v.av.size();
            rtosc_arg_val_t *in_p = (rtosc_arg_val_t*)malloc((n ? n : 1) * sizeof(rtosc_arg_val_t));
            if(n) memcpy(in_p, v.av.data(), n * sizeof(rtosc_arg_val_t));
            struct Free { void *p; ~Free() { free(p); } } in_free{in_p};
            struct { rtosc_arg_val_t *p; rtosc_arg_val_t *data() { return p; } } in{in_p};
            if(msg) {
                auto ab = unhex(f[6]); addr.assign(ab.begin(), ab.end());
                wrt = rtosc_print_message(addr.c_str(), in.data(), n, pbuf.data(), PBUF, &o, 0);
            } else
                wrt = rtosc_print_arg_vals(in.data(), n, pbuf.data(), PBUF, &o, 0);
            size_t tl = strlen(pbuf.data());
            std::vector<uint8_t> tb(pbuf.data(), pbuf.data() + tl + 1);
            ExactBuf text(tb);
            Scanned s;
            count_and_scan((const char*)text.p, msg, s);
            std::ostringstream out;
            out << "P=" << hex(text.p, tl) << " W=" << wrt << " C=" << s.count
                << " N=" << s.nwritten << " R=" << s.rd << " V=";
            int eq = 0;
            if(s.nwritten >= 0) {
                out << show_vals(s.av.data(), (size_t)s.nwritten);
                if(s.nwritten == s.count)
                    eq = rtosc_arg_vals_eq(in.data(), s.av.data(), n, (size_t)s.nwritten, NULL);
            } else out << "-";
            out << " EQ=" << eq;
            if(msg) out << " A=" << hex(s.addr.data(), s.addr.size());
            puts(out.str().c_str());
        }
        else if(f.size() >= 2 && (f[0] == "sc" || f[0] == "xs")) {
            auto tb = unhex(f[1]); tb.push_back(0);
            ExactBuf text(tb);
            Scanned s;
            count_and_scan((const char*)text.p, false, s);
            std::ostringstream out;
            out << "C=" << s.count << " N=" << s.nwritten << " R=" << s.rd << " V=";
            if(s.nwritten >= 0) out << show_vals(s.av.data(), (size_t)s.nwritten); else out << "-";
            // reprint (lossless, defaults otherwise) and scan again
            if(s.nwritten == s.count && s.count > 0) {
                rtosc_print_options o = { true, 2, " ", 80, true };
                s.av.resize(s.count + 1); s.av[s.count].type = 'N';
                pbuf[0] = 0;
                rtosc_print_arg_vals(s.av.data(), (size_t)s.count, pbuf.data(), PBUF, &o, 0);
                size_t tl = strlen(pbuf.data());
                std::vector<uint8_t> t2(pbuf.data(), pbuf.data() + tl + 1);
                ExactBuf text2(t2);
                Scanned s2;
                count_and_scan((const char*)text2.p, false, s2);
                int eq = 0;
                if(s2.nwritten == s2.count && s2.count > 0)
                    eq = rtosc_arg_vals_eq(s.av.data(), s2.av.data(), (size_t)s.count, (size_t)s2.count, NULL);
                out << " P2=" << hex(text2.p, tl) << " EQ2=" << eq << " V2=";
                // the slots of the second scan (C11's classifier looks at WHERE they differ)
                if(s2.nwritten >= 0 && s2.nwritten == s2.count) out << show_vals(s2.av.data(), (size_t)s2.nwritten); else out << "-";
            } else out << " P2=- EQ2=0 V2=-";
            puts(out.str().c_str());
        }
        else puts("BADCASE");
        fflush(stdout);
    }
    return 0;
}
