// C18 harness: Ports::collapsePath, Ports::apropos / operator[], and
// rtosc::path_search (both overloads) on run-time supplied paths and trees.
//
//   tree    tokens joined by ',':  ports := <count> port* ;
//           port := <hexname> <hexmeta|N> <0|1> [ports]     (1 = has sub-ports)
//   case    collapse <hexpath>
//   output  off=<k> str=<hex of the returned string> buf=<hex of the buffer afterwards>
//   case    lookup <tree> <hexaddr;...> <hexname;...>
//   output  a=<id>;...  i=<idx>;...     id = index path i.j.k of the returned port, - = NULL
//   case    search <tree> <hexloc> <hexneedle> <opt 0|1|2> <bufsize> <reply_with_query 0|1>
//   output  q=<hexloc>:<hexneedle>|N n=<k> e=<hexname>:<len>:<hex of the len bytes at data|N>;... msg=<ret>:<hex of the reply>
#include "hcommon.h"
#include <rtosc/ports.h>
#include <rtosc/rtosc.h>
#include <memory>
#include <map>

using namespace rtosc;

static void null_cb(const char *, RtData &) {}

struct RunPorts : Ports {
    RunPorts() : Ports({}) {}
    void add(const Port &p) { ports.push_back(p); }
};

struct Tree {
    std::vector<std::unique_ptr<ExactBuf>> bufs;
    std::vector<std::unique_ptr<RunPorts>> tabs;
    size_t maxtab = 0;
    const char *keep(const std::vector<uint8_t> &v)
    {
        bufs.emplace_back(new ExactBuf(v));
        return (const char *)bufs.back()->p;
    }
    RunPorts *parse(const std::vector<std::string> &tok, size_t &i)
    {
        int n = atoi(tok.at(i++).c_str());
        tabs.emplace_back(new RunPorts());
        RunPorts *t = tabs.back().get();
        for(int k = 0; k < n; ++k) {
            auto nb = unhex(tok.at(i++));
            nb.push_back(0);
            const char *name = keep(nb);
            const std::string &hm = tok.at(i++);
            const char *meta = hm == "N" ? nullptr : keep(unhex(hm));
            bool sub = tok.at(i++) == "1";
            RunPorts *s = sub ? parse(tok, i) : nullptr;
            t->add(Port{name, meta, s, null_cb});
        }
        if((size_t)n > maxtab) maxtab = n;
        return t;
    }
};

static bool find_id(const Ports *t, const Port *p, std::string &id)
{
    int i = 0;
    for(const Port &q : t->ports) {
        if(&q == p) { id += std::to_string(i); return true; }
        if(q.ports) {
            std::string sub = id + std::to_string(i) + ".";
            if(find_id(q.ports, p, sub)) { id = sub; return true; }
        }
        ++i;
    }
    return false;
}

static std::string cstr_of(const std::string &h)
{
    auto b = unhex(h);
    return std::string(b.begin(), b.end());
}

int main()
{
    std::string line;
    while(std::getline(std::cin, line)) {
        auto f = split(line, ' ');
        if(f.size() >= 2 && f[0] == "collapse") {
            auto b = unhex(f[1]);
            size_t n = b.size();
            b.push_back(0);
            ExactBuf buf(b);
            char *r = Ports::collapsePath((char *)buf.p);
            long off = r - (char *)buf.p;
            std::string s = (off >= 0 && (size_t)off <= n) ? hex(r, strlen(r)) : "OUTSIDE";
            printf("off=%ld str=%s buf=%s\n", off, s.c_str(), hex(buf.p, n).c_str());
            continue;
        }
        if(f.size() >= 4 && f[0] == "lookup") {
            Tree T;
            size_t i = 0;
            RunPorts *root = T.parse(split(f[1], ','), i);
            std::ostringstream o;
            o << "a=";
            bool first = true;
            for(auto &ha : split(f[2], ';')) {
                std::string a = cstr_of(ha);
                ExactBuf ab(std::vector<uint8_t>(a.c_str(), a.c_str() + a.size() + 1));
                const Port *p = root->apropos((const char *)ab.p);
                if(!first) o << ";";
                first = false;
                std::string id;
                if(!p) o << "-";
                else if(find_id(root, p, id)) o << id;
                else o << "FOREIGN";
            }
            o << " i=";
            first = true;
            for(auto &hn : split(f[3], ';')) {
                std::string a = cstr_of(hn);
                ExactBuf ab(std::vector<uint8_t>(a.c_str(), a.c_str() + a.size() + 1));
                const Port *p = (*root)[(const char *)ab.p];
                if(!first) o << ";";
                first = false;
                if(!p) o << "-";
                else o << (p - &root->ports[0]);
            }
            puts(o.str().c_str());
            continue;
        }
        if(f.size() >= 7 && f[0] == "search") {
            Tree T;
            size_t i = 0;
            RunPorts *root = T.parse(split(f[1], ','), i);
            std::string loc = cstr_of(f[2]), needle = cstr_of(f[3]);
            ExactBuf lb(std::vector<uint8_t>(loc.c_str(), loc.c_str() + loc.size() + 1));
            ExactBuf nb(std::vector<uint8_t>(needle.c_str(), needle.c_str() + needle.size() + 1));
            int o = atoi(f[4].c_str());
            path_search_opts opt = o == 0 ? path_search_opts::unmodified
                                 : o == 1 ? path_search_opts::sorted
                                          : path_search_opts::sorted_and_unique_prefix;
            size_t bufsize = (size_t)atol(f[5].c_str());
            bool rwq = f[6] == "1";
            size_t max_ports = (T.maxtab ? T.maxtab : 1) + (rwq ? 1 : 0);
            size_t max_args = max_ports << 1, max_types = max_args + 1;
            char *types = (char *)malloc(max_types);
            rtosc_arg_t *args = (rtosc_arg_t *)malloc(max_args * sizeof(rtosc_arg_t));
            memset(types, 0x55, max_types);
            memset(args, 0x55, max_args * sizeof(rtosc_arg_t));
            path_search(*root, (const char *)lb.p, (const char *)nb.p, types, max_types, args, max_args, opt, rwq);
            std::ostringstream out;
            size_t nt = strlen(types);
            size_t k0 = rwq ? 2 : 0;
            bool shape = nt % 2 == 0 && nt >= k0;
            for(size_t k = 0; k < nt; ++k) if(types[k] != ((k % 2 && k >= k0) ? 'b' : 's')) shape = false;
            if(!shape) out << "BADTYPES:" << types;
            else {
                if(rwq) out << "q=" << hex(args[0].s, strlen(args[0].s)) << ":" << hex(args[1].s, strlen(args[1].s));
                else out << "q=N";
                out << " n=" << (nt - k0) / 2 << " e=";
                if(nt == k0) out << "-";
                for(size_t k = k0; k < nt; k += 2) {
                    if(k > k0) out << ";";
                    const char *nm = args[k].s;
                    out << (nm ? hex(nm, strlen(nm)) : std::string("NULL")) << ":" << args[k + 1].b.len << ":";
                    if(args[k + 1].b.data) out << hex(args[k + 1].b.data, args[k + 1].b.len);
                    else out << "N";
                }
            }
            free(types);
            free(args);
            // the message overload
            char q[2048];
            size_t ql = rtosc_message(q, sizeof(q), "/path-search", "ss", loc.c_str(), needle.c_str());
            ExactBuf qb(std::vector<uint8_t>(q, q + ql));
            char *msgbuf = (char *)malloc(bufsize ? bufsize : 1);
            memset(msgbuf, 0xAA, bufsize);
            size_t ret = path_search(*root, (const char *)qb.p, max_ports, msgbuf, bufsize, opt, rwq);
            out << " msg=" << ret << ":" << hex(msgbuf, ret <= bufsize ? ret : 0);
            free(msgbuf);
            puts(out.str().c_str());
            continue;
        }
        puts("BADCASE");
    }
    return 0;
}
