// C09 harness: rtosc::walk_ports over run-time built port trees whose callbacks
// come from the library's macros (rRecur, rRecurp, rRecurs, rToggle, rParamI,
// rSelf) for a fixed family of structs N0 > N1 > N2 > N3, with run-time names
// and metadata; with and without a runtime object; then the real dispatch of
// every reported address.
//
//   tree    as in h_C18.cpp:  ports := <count> port* ; port := <hexname> <hexmeta|N> <0|1> [ports]
//   kinds   one letter per port in the same (pre)order:
//             R rRecur(sub)  P rRecurp(subp)  A rRecurs(arr,12)  M sub-tree "sub" with a multi-component
//             name (harness callback that strips as many components as the name has)
//             X rRecur(sub)'s  Y rRecurp(subp)'s  Z rRecurs(arr,12)'s callback paired with a multi-component name
//               (a/b/, a/b#3/c/; Z: exactly one '#'): since the commit "fix: the recursion callbacks skipped one
//               component ..." SNIP skips as many components as the name has
//             T toggle en0  U toggle en1  V rParamI(val)  S rSelf  L plain leaf
//   case    walk <tree> <kinds> <hexbuf> <rt 0|1> <nulls> <dis> <selfoff> <off>
//             hexbuf  initial content of the name buffer (a string)
//             nulls   hex addresses (;) of sub-trees whose subp is NULL            (model oracle)
//             dis     hex addresses of sub-trees whose 'enabled by' toggle is off   (model oracle)
//             selfoff hex addresses of tables whose self: toggle is off             (model oracle)
//             off     <hextableaddr>:<0|1>;...  toggle en0/en1 of the object at that table address is false
//   output  w=<id>@<hexaddr>;... buf=<hexstring> z=<0|1> d=<k>;...
//             w    the (port, address) pairs passed to the walker
//             buf  the name buffer afterwards (as a string)
//             z    1 = only zeros behind the terminator at every walker call and at return
//             d    per reported pair: the ids of the leaf ports the real dispatch of the
//                  address invoked (no location buffer), joined by '+', '-' if none
//             dl   the same dispatch with a location buffer: <id>@<hex loc the leaf saw>+...
//                  #<d.matches>#<hex loc afterwards>
//             (d / dl carry the arguments of the port's FIRST admitted type string)
//             da   per reported pair: the same two dispatches for every FURTHER alternative of the port's
//                  argument specification: <types>!<d part>~<dl part> joined by '|', '-' if there is none
//             nd   per entry of the case's nm= field (<hexaddr>:<types or ->;... addresses the walk did NOT
//                  report): <names of the leaves reached without buffer>~<with buffer>#<d.matches>
//                  (hex names joined by '+', '-' if none)
#include "hcommon.h"
#include <rtosc/ports.h>
#include <rtosc/port-sugar.h>
#include <rtosc/rtosc.h>
#include <memory>
#include <map>
#include <set>

using namespace rtosc;
typedef std::function<void(const char *, RtData &)> cb_t;

struct RunPorts : Ports {
    RunPorts() : Ports({}) {}
    void clear() { ports.clear(); }
    void add(const Port &p) { ports.push_back(p); }
    void done() { refreshMagic(); }
};

struct N3 { static RunPorts ports; bool en0, en1; int val; };
struct N2 { static RunPorts ports; bool en0, en1; int val; N3 sub; N3 *subp; N3 arr[12]; N3 spare; };
struct N1 { static RunPorts ports; bool en0, en1; int val; N2 sub; N2 *subp; N2 arr[12]; N2 spare; };
struct N0 { static RunPorts ports; bool en0, en1; int val; N1 sub; N1 *subp; N1 arr[12]; N1 spare; };
RunPorts N0::ports, N1::ports, N2::ports, N3::ports;

// template ports: index 0 sub/  1 sub:  2 subp/  3 arr#3/  4 en0  5 en1  6 val  7 self:
#define rObject N0
static const Ports tmpl0 = { rRecur(sub, "d"), rRecurp(subp, "d"), rRecurs(arr, 12, "d"),
                             rToggle(en0, "d"), rToggle(en1, "d"), rParamI(val, "d"), rSelf(N0) };
#undef rObject
#define rObject N1
static const Ports tmpl1 = { rRecur(sub, "d"), rRecurp(subp, "d"), rRecurs(arr, 12, "d"),
                             rToggle(en0, "d"), rToggle(en1, "d"), rParamI(val, "d"), rSelf(N1) };
#undef rObject
#define rObject N2
static const Ports tmpl2 = { rRecur(sub, "d"), rRecurp(subp, "d"), rRecurs(arr, 12, "d"),
                             rToggle(en0, "d"), rToggle(en1, "d"), rParamI(val, "d"), rSelf(N2) };
#undef rObject
#define rObject N3
static const Ports tmpl3 = { rToggle(en0, "d"), rToggle(en1, "d"), rParamI(val, "d"), rSelf(N3) };
#undef rObject

// which leaf ports a dispatch reached
static std::vector<const Port *> reached;
// kind letter of every run-time port, keyed by its name buffer
static std::map<const char *, char> kind_of;

static bool name_step(const char *name, const std::string &a, size_t &pos, int &idx);

template <class N, class C>
static void multi_cb(const char *msg, RtData &d)
{
    // a hand-written recursion port for names with several components:
    // child object (sub, or arr[last index] if the name has a '#'), strip the
    // components of the name, dispatch into the child table
    N *obj = (N *)d.obj;
    size_t pos = 0; int idx = 0;
    name_step(d.port->name, msg, pos, idx);
    d.obj = strchr(d.port->name, '#') ? (void *)&obj->arr[idx] : (void *)&obj->sub;
    int comps = 0;
    for(const char *n = d.port->name; *n && *n != ':'; ++n) if(*n == '/') comps++;
    for(int k = 0; k < comps; ++k) {
        while(*msg && *msg != '/') ++msg;
        msg = *msg ? msg + 1 : msg;
    }
    C::ports.dispatch(msg, d);
}

// the location buffer each of those callbacks saw ("" = none)
static std::vector<std::string> reached_loc;
static cb_t recording(cb_t inner)
{
    return [inner](const char *m, RtData &d) {
        reached.push_back(d.port);
        reached_loc.push_back(d.loc ? std::string(d.loc) : std::string());
        if(inner) inner(m, d);
    };
}

struct Level {
    RunPorts *tab; const Ports *tmpl; bool hasChildren;
};
static Level levels[4] = { {&N0::ports, &tmpl0, true}, {&N1::ports, &tmpl1, true},
                           {&N2::ports, &tmpl2, true}, {&N3::ports, &tmpl3, false} };

struct Built {
    std::vector<std::unique_ptr<ExactBuf>> bufs;
    const char *keep(const std::vector<uint8_t> &v)
    {
        bufs.emplace_back(new ExactBuf(v));
        return (const char *)bufs.back()->p;
    }
    std::string err;
    // builds the table of level lv from the token stream; every sub-tree port of a
    // level shares the table of the next level (static per class), so the LAST
    // parsed sub-table of a level wins - the generator emits identical ones
    void parse(const std::vector<std::string> &tok, size_t &i, const std::string &kinds, size_t &ki, int lv)
    {
        int n = atoi(tok.at(i++).c_str());
        std::vector<Port> ps;
        for(int k = 0; k < n; ++k) {
            auto nb = unhex(tok.at(i++));
            nb.push_back(0);
            const char *name = keep(nb);
            const std::string &hm = tok.at(i++);
            const char *meta = hm == "N" ? nullptr : keep(unhex(hm));
            bool sub = tok.at(i++) == "1";
            char kind = kinds.at(ki++);
            kind_of[name] = kind;
            if(lv > 3) { err = "too deep"; return; }
            const Ports &T = *levels[lv].tmpl;
            bool kids = levels[lv].hasChildren;
            cb_t cb;
            const Ports *subt = nullptr;
            if(sub) {
                if(!kids) { err = "sub-tree at the last level"; return; }
                parse(tok, i, kinds, ki, lv + 1);
                subt = levels[lv + 1].tab;
                switch(kind) {
                    case 'R': cb = T.ports[0].cb; break;
                    case 'X': cb = T.ports[0].cb; break;   // rRecurCb(sub) under a multi-component name
                    case 'P': cb = T.ports[2].cb; break;
                    case 'Y': cb = T.ports[2].cb; break;   // rRecurpCb(subp) under a multi-component name
                    case 'A': cb = T.ports[3].cb; break;
                    case 'Z': cb = T.ports[3].cb; break;   // rRecursCb(arr,12) under a multi-component name
                    case 'M': cb = lv == 0 ? (cb_t)multi_cb<N0, N1>
                               : lv == 1 ? (cb_t)multi_cb<N1, N2> : (cb_t)multi_cb<N2, N3>; break;
                    default: err = "kind"; return;
                }
            } else {
                int off = kids ? 4 : 0;
                switch(kind) {
                    case 'T': cb = recording(T.ports[off + 0].cb); break;
                    case 'U': cb = recording(T.ports[off + 1].cb); break;
                    case 'V': cb = recording(T.ports[off + 2].cb); break;
                    case 'S': cb = recording(T.ports[off + 3].cb); break;
                    case 'L': cb = recording(nullptr); break;
                    default: err = "kind"; return;
                }
            }
            ps.push_back(Port{name, meta, subt, cb});
        }
        RunPorts *t = levels[lv].tab;
        t->clear();
        for(auto &p : ps) t->add(p);
        t->done();
    }
};

static bool find_id(const Ports *t, const Port *p, std::string &id)
{
    int i = 0;
    for(const Port &q : t->ports) {
        if(&q == p) { id += std::to_string(i); return true; }
        ++i;
    }
    i = 0;
    for(const Port &q : t->ports) {
        if(q.ports) {
            std::string sub = id + std::to_string(i) + ".";
            if(find_id(q.ports, p, sub)) { id = sub; return true; }
        }
        ++i;
    }
    return false;
}
// with shared tables a Port* has several ids; the id for a reported address is
// resolved along the address by the harness's own reading of the names
struct Resolver {
    static bool name_step(const char *name, const std::string &a, size_t &pos, int &idx) { return ::name_step(name, a, pos, idx); }
};
static bool name_step(const char *name, const std::string &a, size_t &pos, int &idx)
{
    {
        // literal / '#N' matching of one port name (path part) against a at pos; idx = last index
        size_t p = pos;
        const char *n = name;
        while(*n && *n != ':') {
            if(*n == '#') {
                ++n;
                int max = atoi(n);
                while(isdigit(*n)) ++n;
                if(p >= a.size() || !isdigit(a[p])) return false;
                int v = atoi(a.c_str() + p);
                while(p < a.size() && isdigit(a[p])) ++p;
                if(v >= max) return false;
                idx = v;
            } else {
                if(p >= a.size() || a[p] != *n) return false;
                ++p; ++n;
            }
        }
        pos = p;
        return true;
    }
}

struct Walked { const Port *p; std::string addr; };
static std::vector<Walked> walked;
static bool zeros_ok = true;
static char *g_buf = nullptr;
static const size_t BUFSZ = 1024;

static void check_zeros()
{
    size_t n = strlen(g_buf);
    for(size_t k = n; k < BUFSZ; ++k) if(g_buf[k]) { zeros_ok = false; break; }
}

static void walker(const Port *p, const char *name, const char *, const Ports &, void *, void *)
{
    walked.push_back({p, name});
    if(name == g_buf) check_zeros();
}

// object of the table at address a (with trailing '/'; "/" = root)
static void *object_at(N0 &root, const std::string &a, int &level)
{
    void *obj = &root;
    level = 0;
    size_t pos = 1;
    while(pos < a.size()) {
        const Ports *t = levels[level].tab;
        bool ok = false;
        for(const Port &q : t->ports) {
            if(!q.ports) continue;
            size_t p2 = pos; int idx = 0;
            std::string nm = q.name;
            if(!Resolver::name_step(q.name, a, p2, idx)) continue;
            char kind = kind_of[q.name];
#define STEP(NN) { NN *o = (NN *)obj; obj = (kind == 'R' || kind == 'X') ? (void *)&o->sub \
                                        : (kind == 'P' || kind == 'Y') ? (void *)o->subp \
                                        : (kind == 'A' || kind == 'Z') ? (void *)&o->arr[idx] \
                                        : strchr(q.name, '#') ? (void *)&o->arr[idx] : (void *)&o->sub; }
            if(level == 0) STEP(N0) else if(level == 1) STEP(N1) else STEP(N2)
            pos = p2; level++; ok = true;
            break;
        }
        if(!ok || !obj) return nullptr;
    }
    return obj;
}

template <class N> static void init_obj(N &o) { o.en0 = o.en1 = true; o.val = 0; }
static void init(N3 &o) { init_obj(o); }
static void init(N2 &o) { init_obj(o); init(o.sub); init(o.spare); o.subp = &o.spare; for(auto &x : o.arr) init(x); }
static void init(N1 &o) { init_obj(o); init(o.sub); init(o.spare); o.subp = &o.spare; for(auto &x : o.arr) init(x); }
static void init(N0 &o) { init_obj(o); init(o.sub); init(o.spare); o.subp = &o.spare; for(auto &x : o.arr) init(x); }

struct Rec : RtData {
    // no location buffer: the plain matching loop of Ports::dispatch (the hashed
    // strategy used with a location buffer is C04's subject)
    char locbuf[1024];
    explicit Rec(bool with_loc)
    {
        memset(locbuf, 0, sizeof(locbuf));
        loc = with_loc ? locbuf : nullptr;
        loc_size = with_loc ? sizeof(locbuf) : 0;
    }
    void reply(const char *, const char *, ...) override {}
    void reply(const char *) override {}
    void broadcast(const char *, const char *, ...) override {}
    void broadcast(const char *) override {}
};

// an OSC message to addr whose arguments have the given type tags (values: zeros / empty strings)
static std::vector<uint8_t> message(const std::string &addr, const std::string &types)
{
    char msg[2048];
    memset(msg, 0, sizeof(msg));
    std::vector<rtosc_arg_t> av(types.size() + 1);
    memset(av.data(), 0, av.size() * sizeof(rtosc_arg_t));
    for(size_t a = 0; a < types.size(); ++a)
        if(types[a] == 's' || types[a] == 'S') av[a].s = "";
    size_t len = rtosc_amessage(msg, sizeof(msg), addr.c_str(), types.c_str(), av.data());
    return std::vector<uint8_t>(msg, msg + len);
}

static std::string cstr_of(const std::string &h)
{
    auto b = unhex(h);
    return std::string(b.begin(), b.end());
}

// id of the port reported at addr: follow addr through the tables
static std::string id_of(const Port *p, const std::string &addr)
{
    std::string id;
    int level = 0;
    size_t pos = 1;
    while(level < 4) {
        const Ports *t = levels[level].tab;
        // is p a port of this table whose name spells the rest of addr?
        int i = 0;
        for(const Port &q : t->ports) {
            if(&q == p) {
                return id + std::to_string(i);
            }
            ++i;
        }
        i = 0;
        bool ok = false;
        for(const Port &q : t->ports) {
            size_t p2 = pos; int idx = 0;
            if(q.ports && Resolver::name_step(q.name, addr, p2, idx)) {
                if(p2 > 0 && addr[p2 - 1] != '/') { if(p2 < addr.size() && addr[p2] == '/') ++p2; }
                id += std::to_string(i) + ".";
                pos = p2; level++; ok = true;
                break;
            }
            ++i;
        }
        if(!ok) break;
    }
    return "?";
}

int main()
{
    std::string line;
    static N0 root;
    while(std::getline(std::cin, line)) {
        auto f = split(line, ' ');
        if(f.size() < 9 || f[0] != "walk") { puts("BADCASE"); continue; }
        Built B;
        kind_of.clear();
        size_t i = 0, ki = 0;
        for(auto &l : levels) l.tab->clear();
        B.parse(split(f[1], ','), i, f[2], ki, 0);
        if(!B.err.empty()) { printf("BADCASE %s\n", B.err.c_str()); continue; }
        bool rt = f[4] == "1";
        init(root);
        // runtime state: NULL pointers first (object_at needs the others), then toggles
        for(auto &h : split(f[5] == "-" ? "" : f[5], ';')) {
            std::string a = cstr_of(h);
            // the sub-tree at address a is reached through a P / Y port of its parent table: the parent's
            // address is a minus the components of that port's name (one for P, several for Y)
            int lv = 0;
            void *par = nullptr;
            for(size_t cut = a.size() - 1; cut > 0 && !par; --cut) {
                if(a[cut - 1] != '/') continue;
                int l2 = 0;
                void *o = object_at(root, a.substr(0, cut), l2);
                if(!o || l2 > 2) continue;
                for(const Port &q : levels[l2].tab->ports) {
                    char kd = kind_of[q.name];
                    size_t p2 = cut; int idx = 0;
                    if(q.ports && (kd == 'P' || kd == 'Y') && name_step(q.name, a, p2, idx) && p2 == a.size()) {
                        par = o; lv = l2; break;
                    }
                }
            }
            if(!par) continue;
            if(lv == 0) ((N0 *)par)->subp = nullptr; else if(lv == 1) ((N1 *)par)->subp = nullptr; else if(lv == 2) ((N2 *)par)->subp = nullptr;
        }
        for(auto &e : split(f[8] == "-" ? "" : f[8], ';')) {
            auto kv = split(e, ':');
            std::string a = cstr_of(kv[0]);
            int lv = 0;
            void *o = object_at(root, a, lv);
            if(!o) continue;
            bool second = kv[1] == "1";
#define OFF(NN) { if(second) ((NN *)o)->en1 = false; else ((NN *)o)->en0 = false; }
            if(lv == 0) OFF(N0) else if(lv == 1) OFF(N1) else if(lv == 2) OFF(N2) else OFF(N3)
        }
        // the walk
        std::string init_buf = cstr_of(f[3]);
        g_buf = (char *)calloc(BUFSZ, 1);
        memcpy(g_buf, init_buf.data(), init_buf.size());
        walked.clear();
        zeros_ok = true;
        walk_ports(&N0::ports, g_buf, BUFSZ, nullptr, walker, true, rt ? (void *)&root : nullptr, false);
        check_zeros();
        std::ostringstream o;
        o << "w=";
        if(walked.empty()) o << "-";
        std::string pre = init_buf.empty() ? "/" : init_buf;
        for(size_t k = 0; k < walked.size(); ++k) {
            if(k) o << ";";
            // ids are resolved on the part of the address behind the initial buffer content
            std::string rel = walked[k].addr.size() >= pre.size() ? "/" + walked[k].addr.substr(pre.size()) : walked[k].addr;
            o << id_of(walked[k].p, rel) << "@" << hex(walked[k].addr.data(), walked[k].addr.size());
        }
        o << " buf=" << hex(g_buf, strlen(g_buf)) << " z=" << (zeros_ok ? 1 : 0) << " d=";
        // the real dispatch of every reported address (only meaningful for a walk that started at the root)
        if(walked.empty()) o << "-";
        std::vector<std::string> dls, das;
        static N0 fresh;
        init(fresh);
        for(size_t k = 0; k < walked.size(); ++k) {
            if(k) o << ";";
            std::string rel = walked[k].addr.size() >= pre.size() ? "/" + walked[k].addr.substr(pre.size()) : walked[k].addr;
            // every alternative of the port's argument specification, the first one for d / dl
            std::vector<std::string> alts(1);
            if(const char *c = strchr(walked[k].p->name, ':'))
                for(++c; *c; ++c) { if(*c == ':') alts.emplace_back(); else alts.back().push_back(*c); }
            std::ostringstream da;
          for(size_t alt = 0; alt < alts.size(); ++alt) {
            const std::string &types = alts[alt];
            ExactBuf mb(message(rel, types));
            std::string dl_part;
            if(alt) da << (alt > 1 ? "|" : "") << types << "!";
            for(int with_loc = 0; with_loc < 2; ++with_loc) {
                Rec d(with_loc != 0);
                d.obj = &fresh;
                reached.clear();
                reached_loc.clear();
                N0::ports.dispatch((const char *)mb.p, d, true);
                std::ostringstream part;
                if(reached.empty()) part << "-";
                for(size_t r = 0; r < reached.size(); ++r) {
                    if(r) part << "+";
                    part << (reached[r] == walked[k].p ? id_of(reached[r], rel) : std::string("other"));
                    if(with_loc) part << "@" << hex(reached_loc[r].data(), reached_loc[r].size());
                }
                if(with_loc) {
                    part << "#" << d.matches << "#" << hex(d.loc, strlen(d.loc));
                    dl_part = part.str();
                    if(alt) da << "~" << dl_part;
                } else if(alt) da << part.str();
                else o << part.str();
            }
            if(!alt) dls.push_back(dl_part);
          }
            das.push_back(alts.size() > 1 ? da.str() : std::string("-"));
        }
        // the same dispatches with a location buffer (hashed / linear lookup with loc):
        //   <id>@<hexloc seen by the leaf>+...#<matches>#<hexloc afterwards>
        o << " dl=";
        if(dls.empty()) o << "-";
        for(size_t k = 0; k < dls.size(); ++k) o << (k ? ";" : "") << dls[k];
        o << " da=";
        if(das.empty()) o << "-";
        for(size_t k = 0; k < das.size(); ++k) o << (k ? ";" : "") << das[k];
        // addresses the walk did not report: which leaves answer to them
        o << " nd=";
        std::string nm;
        for(size_t q = 9; q < f.size(); ++q) if(f[q].compare(0, 3, "nm=") == 0) nm = f[q].substr(3);
        if(nm.empty() || nm == "-") o << "-";
        else {
            bool firstnm = true;
            for(auto &e : split(nm, ';')) {
                auto at = split(e, ':');
                if(at.size() != 2) continue;
                ExactBuf mb(message(cstr_of(at[0]), at[1] == "-" ? std::string() : at[1]));
                if(!firstnm) o << ";";
                firstnm = false;
                for(int with_loc = 0; with_loc < 2; ++with_loc) {
                    Rec d(with_loc != 0);
                    d.obj = &fresh;
                    reached.clear();
                    reached_loc.clear();
                    N0::ports.dispatch((const char *)mb.p, d, true);
                    if(reached.empty()) o << "-";
                    for(size_t r = 0; r < reached.size(); ++r)
                        o << (r ? "+" : "") << hex(reached[r]->name, strlen(reached[r]->name));
                    if(with_loc) o << "#" << d.matches; else o << "~";
                }
            }
        }
        puts(o.str().c_str());
        free(g_buf);
    }
    return 0;
}
