// C12 / C13 harness: savefiles of generated applications (see h_C12_app.h for
// the application family and the tree description).
//
//   save <tree> <flat> <ops>
//       A := fresh instance; every op (a parameter message) dispatched into A;
//       text := rtosc::save_to_file(A); B := fresh instance;
//       ret := rtosc::load_from_file(text, B)
//     -> hdr=<0|1> lines=<scanned message lines> ret=<n> A=<dump> B=<dump> fresh=<lines a fresh instance saves>
//   perm <tree> <flat> <ops> <groups>
//       as above up to text; its message lines are sorted bytewise; every group
//       is a '/'-separated list of index lists i.i.i (a permutation of a subset
//       of the lines); each is loaded into a fresh instance
//     -> n=<number of lines> then per group (';') per permutation ('!'):
//          <ret>@<order in which the loader handed the messages out>@<dump | '=' when equal to the group's first>
//   macro <k> <expected name hex> <expected metadata hex>
//       -> name=<hex> meta=<hex> of the k-th port of the macro-made application (tree "static")
//   hist <tree> <flat> <ops>!<ops>.. <apro> <mops>!.. <addresses>!..
//       ONE instance A; per segment: its ops dispatched into A, then get_changed_values(A) twice,
//       save_to_file(A) judged as in `save` (loaded into a fresh B), get_default_value(A) asked directly
//       for every address of the segment's list (forwards, then backwards)
//     -> per segment (" ## "): the fields of `save` + cv=<scanned lines of get_changed_values>
//          cv2=<1 when the second call gave the same text> dv=<address hex>:<text hex | N>,...
//   rej <tree> <flat> <file hex> <appname> <abstract file>
//       the given text loaded into a fresh instance
//     -> ret=<n> B=<dump>
#include "h_C12_app.h"
#include <algorithm>

static const char *APP = "verifapp";
static const rtosc_version APPVER = {1, 2, 3};

// message lines of a savefile body: a message starts with '/' at the start of a line
static std::vector<std::string> body_lines(const std::string &body)
{
    std::vector<std::string> out;
    size_t i = 0;
    while(i < body.size()) {
        size_t j = i;
        while(true) {
            j = body.find('\n', j);
            if(j == std::string::npos) { j = body.size(); break; }
            if(j + 1 < body.size() && body[j + 1] == '/') break;
            ++j;
        }
        out.push_back(body.substr(i, j - i));
        i = j + 1;
    }
    return out;
}

static bool split_header(const std::string &text, std::string &hdr, std::string &body)
{
    size_t a = text.find('\n');
    if(a == std::string::npos) return false;
    size_t b = text.find('\n', a + 1);
    if(b == std::string::npos) { hdr = text; body = ""; return true; }
    hdr = text.substr(0, b + 1);
    body = text.substr(b + 1);
    return true;
}

static bool header_ok(const std::string &hdr)
{
    char vb[12], ab[12];
    rtosc_version rv = rtosc_current_version(), av = APPVER;
    rtosc_version_print_to_12byte_str(&rv, vb);
    rtosc_version_print_to_12byte_str(&av, ab);
    std::string want = std::string("% RT OSC v") + vb + " savefile\n% " + APP + " v" + ab;
    return hdr == want + "\n" || hdr == want;
}

static std::string join(const std::vector<std::string> &v, const char *sep)
{
    std::string s;
    for(size_t i = 0; i < v.size(); ++i) s += (i ? sep : "") + v[i];
    return s.empty() ? "-" : s;
}

// one saved file judged: the text loaded into a fresh instance B, a fresh instance's own file,
// the scanned lines and the bytes of the body
template<class R> static void save_record(R &A, const std::string &text, std::ostringstream &out)
{
    std::string hdr, body;
    split_header(text, hdr, body);
    std::unique_ptr<R> B(new R());
    ExactBuf tb(std::vector<uint8_t>(text.c_str(), text.c_str() + text.size() + 1));
    int ret = load_from_file((const char*)tb.p, R::ports, B.get(), APP, APPVER, nullptr);
    std::unique_ptr<R> C(new R());
    std::set<std::string> w2;
    std::string t2 = save_to_file(R::ports, C.get(), APP, APPVER, w2, {});
    std::string h2, b2;
    split_header(t2, h2, b2);
    out << "hdr=" << (header_ok(hdr) ? 1 : 0) << " lines=" << scan_lines(body.c_str())
        << " ret=" << ret << " A=" << dump_root(A) << " B=" << dump_root(*B)
        << " fresh=" << (header_ok(h2) ? "" : "BADHDR") << scan_lines(b2.c_str());
    // the text of the body, line by line (sorted, hex): compared with the printer's model
    auto bl = body_lines(body);
    std::vector<std::string> hx;
    for(auto &l : bl) hx.push_back(hex(l.data(), l.size()));
    std::sort(hx.begin(), hx.end());
    out << " body=" << join(hx, "|") << " cls=- cond=-";
}

// get_default_value() asked directly for the given addresses (hex, ','-separated) on the instance,
// forwards and then backwards:  <address hex>:<hex of the text | N>,...  ("!AGAIN" behind an entry
// whose second answer differs from the first)
template<class R> static std::string ask_defaults(R &A, const std::string &addrs)
{
    if(addrs == "-" || addrs.empty()) return "-";
    std::vector<std::string> as, first, out;
    for(auto &h : split(addrs, ',')) { auto b = unhex(h); as.push_back(std::string(b.begin(), b.end())); }
    auto ask = [&](const std::string &a) {
        const char *d = get_default_value(a.c_str(), R::ports, &A);
        return d ? hex(d, strlen(d)) : std::string("N");
    };
    for(auto &a : as) first.push_back(ask(a));
    for(size_t i = as.size(); i-- > 0; ) {
        std::string again = ask(as[i]);
        out.insert(out.begin(), hex(as[i].data(), as[i].size()) + ":" + first[i] + (again == first[i] ? "" : "!AGAIN"));
    }
    return join(out, ",");
}

template<class R> static bool run_case(const std::vector<std::string> &f, std::ostringstream &out)
{
    if(f[0] == "save" || f[0] == "perm") {
        std::unique_ptr<R> A(new R());
        if(f[3] != "-")
            for(auto &op : split(f[3], ';')) send_op(*A, op);
        std::set<std::string> written;
        std::string text = save_to_file(R::ports, A.get(), APP, APPVER, written, {});
        std::string hdr, body;
        split_header(text, hdr, body);
        if(f[0] == "save") {
            save_record<R>(*A, text, out);
        } else {
            if(f.size() < 5) return false;
            auto ls = body_lines(body);
            std::sort(ls.begin(), ls.end());
            out << "n=" << ls.size() << " ";
            bool firstg = true;
            for(auto &g : split(f[4], ';')) {
                if(!firstg) out << ";";
                firstg = false;
                std::string first_dump;
                bool firstp = true;
                for(auto &pm : split(g, '/')) {
                    std::string t = hdr;
                    bool bad = false;
                    if(pm != "-")
                        for(auto &ix : split(pm, '.')) {
                            size_t k = (size_t)atoi(ix.c_str());
                            if(k >= ls.size()) { bad = true; break; }
                            t += ls[k] + "\n";
                        }
                    if(!firstp) out << "!";
                    if(bad) { out << "BADINDEX"; firstp = false; continue; }
                    std::unique_ptr<R> B(new R());
                    OrderLog lg;
                    ExactBuf tb(std::vector<uint8_t>(t.c_str(), t.c_str() + t.size() + 1));
                    int ret = load_from_file((const char*)tb.p, R::ports, B.get(), APP, APPVER, &lg);
                    std::string d = dump_root(*B);
                    out << ret << "@" << join(lg.order, ">") << "@";
                    if(firstp) { first_dump = d; out << d; }
                    else out << (d == first_dump ? std::string("=") : d);
                    firstp = false;
                }
            }
        }
        return true;
    }
    if(f[0] == "hist") {
        // hist <tree> <flat> <ops>!<ops>!.. <apro> <mops>!.. <addresses>!..
        //   ONE instance: the ops of a segment, then get_changed_values (twice), save_to_file (judged as in
        //   `save`), get_default_value for the segment's addresses; the next segment goes on from there
        if(f.size() < 7) return false;
        std::unique_ptr<R> A(new R());
        auto segs = split(f[3], '!');
        auto asks = split(f[6], '!');
        for(size_t k = 0; k < segs.size(); ++k) {
            if(segs[k] != "-")
                for(auto &op : split(segs[k], ';')) send_op(*A, op);
            if(k) out << " ## ";
            std::set<std::string> w0, w1, written;
            std::string c0 = get_changed_values(R::ports, A.get(), w0, {});
            std::string c1 = get_changed_values(R::ports, A.get(), w1, {});
            std::string text = save_to_file(R::ports, A.get(), APP, APPVER, written, {});
            save_record<R>(*A, text, out);
            out << " cv=" << scan_lines(c0.c_str()) << " cv2=" << (c0 == c1 ? 1 : 0)
                << " dv=" << ask_defaults<R>(*A, k < asks.size() ? asks[k] : std::string("-"));
        }
        return true;
    }
    if(f[0] == "rej") {
        if(f.size() < 5) return false;
        auto fb = unhex(f[3]);
        fb.push_back(0);
        ExactBuf tb(fb);
        std::unique_ptr<R> B(new R());
        int ret = load_from_file((const char*)tb.p, R::ports, B.get(), f[4].c_str(), APPVER, nullptr);
        out << "ret=" << ret << " B=" << dump_root(*B);
        return true;
    }
    return false;
}

int main()
{
    std::string line;
    while(std::getline(std::cin, line)) {
        auto f = split(line, ' ');
        if(f.size() < 4) { puts("BADCASE"); continue; }
        std::ostringstream out;
        bool ok;
        if(f[0] == "macro") {                       // macro <k> <expected name hex> <expected metadata hex>
            out << macro_port((size_t)atoi(f[1].c_str()));
            ok = true;
        }
        else if(f[1].compare(0, 6, "static") == 0) ok = run_case<MObj>(f, out);   // "static" or "static@<tables for the model>"
        else {
            std::string err;
            if(!build_app(f[1], err)) { printf("BADCASE %s\n", err.c_str()); continue; }
            ok = run_case<Root>(f, out);
        }
        if(!ok) { puts("BADCASE"); continue; }
        puts(out.str().c_str());
        fflush(stdout);
    }
    return 0;
}
