// C03: every port-sugar callback macro of include/rtosc/port-sugar.h is
// instantiated once in h_C03_sugar.cpp.  That translation unit is
//   (a) compiled with -fcallgraph-info by tools/callgraph.py: its
//       std::function handlers are the targets the indirect-call table gives
//       to the std::function call inside Ports::dispatch, and RT entry points;
//   (b) linked into the dynamic harness h_C03.cpp, which drives the very same
//       callbacks under the allocator/lock counters.
#ifndef VERIF_H_C03_SUGAR_H
#define VERIF_H_C03_SUGAR_H
#include <rtosc/ports.h>
#include <rtosc/rtosc.h>

namespace c03 {

struct Leaf {
    char  pc;  float pf;  int pi;  bool pt;  int po;  int pco;
    float af[4]; bool at[4]; char ai[4]; int ao[4];
    struct M { bool on; } am[4];
    char  bl[4];
    char  str[16];
    char  lstr[48];      // room for values beyond std::string's 15-byte in-place buffer
    int   acts;
    void act(void)   { acts++; }
    void acti(int i) { acts += i; }
    static const rtosc::Ports ports;
};

struct Mid {
    Leaf  leaf;          // rRecur
    Leaf *pleaf;         // rRecurp (may be NULL)
    Leaf  leaves[3];     // rRecurs
    Leaf *pleaves[3];    // rRecursp
    char  pc;
    static const rtosc::Ports ports;
};

struct Root {
    Mid   mid;
    Mid   mids[2];
    float pf;
    static const rtosc::Ports ports;
};

// the library's own way to get a table with a default handler: ClonePorts with a
// "*" entry (callbacks: the Leaf ones again; default: default_reply())
struct Cloned { static const rtosc::ClonePorts ports; };

// RtData whose terminal reply/broadcast/chain store the last message in a
// fixed member buffer (what an application's RT side does before handing the
// message to a ThreadLink); everything else is the base class' forwarding.
struct CaptureData : rtosc::RtData {
    char     last[8192];
    unsigned replies, broadcasts, chains, forwards;
    CaptureData(void);
    void reply(const char *msg) override;
    void broadcast(const char *msg) override;
    void chain(const char *msg) override;
    void forward(const char *rational) override;
    // the va-forms are inherited (using-declarations keep them visible)
    using rtosc::RtData::reply;
    using rtosc::RtData::broadcast;
    using rtosc::RtData::chain;
};

// glue used by the run-time generated trees (h_C03.cpp): the same shape as
// rRecurCb, with the sub-table held in a heap-stored closure (see the .cpp)
std::function<void(const char*, rtosc::RtData&)> recur_into(const rtosc::Ports *sub);
// default handler: counts and answers
std::function<void(const char*, rtosc::RtData&)> default_reply(void);
std::function<void(const char*, rtosc::RtData&)> default_silent(void);

// run-time built table (Ports::refreshMagic is protected)
struct GenPorts : rtosc::Ports {
    GenPorts(void) : rtosc::Ports({}) {}
    void finish(void) { refreshMagic(); }
};

}
#endif
