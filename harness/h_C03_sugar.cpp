// see h_C03_sugar.h
#include "h_C03_sugar.h"
#include <rtosc/port-sugar.h>
#include <cstring>
#include <cstdlib>
#include <cctype>
using namespace rtosc;

namespace c03 {

#define rObject Leaf
const Ports Leaf::ports = {
    rParam(pc, "char parameter (min 0 max 127 from the macro)"),
    rParamF(pf, rLinear(-1, 10), "float parameter"),
    rParamI(pi, rLinear(-100, 100), "int parameter"),
    rToggle(pt, "toggle"),
    rOption(po, rOptions(red, blue, green, teal), "option"),
    {"pco::i:c:S", rProp(parameter) rProp(enumerated) rOptions(one, two, three) rLinear(0, 2) rDoc("option with get/set code"),
        NULL, rCOptionCb(obj->pco, obj->pco = var)},
    rArrayF(af, 4, rLinear(0, 1), "float array"),
    rArrayT(at, 4, "toggle array"),
    rArrayI(ai, 4, rLinear(0, 99), "int array"),
    rArrayOption(ao, 4, rOptions(x, y, z), "option array"),
    {"am#4::T:F", rProp(parameter) rDoc("member toggle array"), NULL, rArrayTCbMember(am, on)},
    rParams(bl, 4, "blob alias"),
    rString(str, 16, "string"),
    rAction(act, "action"),
    rActioni(acti, "action with int"),
    rEnabledCondition(is_on, obj->pt),
    rSelf(Leaf),
    rDummy(dummy),
    {"cross:", rDoc("change callback that cross-broadcasts a sibling"), NULL,
        rBOIL_BEGIN rCrossBroadcast(loc, pf) rBOIL_END},
    rString(lstr, 48, "long string"),
};
#undef rObject

#define rObject Mid
const Ports Mid::ports = {
    rRecur(leaf, "child by value"),
    rRecurp(pleaf, "child by pointer"),
    rRecurs(leaves, 3, "children by value"),
    rRecursp(pleaves, 3, "children by pointer"),
    rParam(pc, "char parameter"),
};
#undef rObject

#define rObject Root
const Ports Root::ports = {
    rRecur(mid, "mid"),
    rRecurs(mids, 2, "mids"),
    rParamF(pf, "unbounded float parameter"),
};
#undef rObject

const ClonePorts Cloned::ports(Leaf::ports, {
    {"pc::c",      Leaf::ports["pc"]->cb},
    {"pf::f",      Leaf::ports["pf"]->cb},
    {"po::i:c:S",  Leaf::ports["po"]->cb},
    {"str::s",     Leaf::ports["str"]->cb},
    {"lstr::s",    Leaf::ports["lstr"]->cb},
    {"act:",       Leaf::ports["act"]->cb},
    {"*",          default_reply()},
});

CaptureData::CaptureData(void) : replies(0), broadcasts(0), chains(0), forwards(0)
{
    last[0] = 0;
}

static void keep(char *dst, const char *msg)
{
    size_t n = rtosc_message_length(msg, 8192);
    if(n > 8192)
        n = 8192;
    memcpy(dst, msg, n);
}

void CaptureData::reply(const char *msg)     { replies++;    keep(last, msg); }
void CaptureData::broadcast(const char *msg) { broadcasts++; keep(last, msg); }
void CaptureData::chain(const char *msg)     { chains++;     keep(last, msg); }
void CaptureData::forward(const char *)      { forwards++; }

// The closure is 24 bytes: larger than std::function's in-place buffer, so the
// functor lives on the heap (as an application callback with some state does)
// and *copying* the std::function allocates, while calling it does not.
static unsigned recursions;
std::function<void(const char*, RtData&)> recur_into(const Ports *sub)
{
    unsigned *count = &recursions;
    const char *tag = "generated";
    return [sub, count, tag](const char *msg, RtData &data) {
        (void) tag;
        ++*count;
        SNIP
        sub->dispatch(msg, data);
    };
}

std::function<void(const char*, RtData&)> default_reply(void)
{
    return [](const char *msg, RtData &data) {
        data.reply("/unhandled", "s", msg);
    };
}

std::function<void(const char*, RtData&)> default_silent(void)
{
    return [](const char *, RtData &) {};
}

}
