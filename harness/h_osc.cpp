// Harness for the byte codec (C01, C02, C07, C08).  One output line per case.
//
//  msg  <hexaddr> <hextags> <args>            constructors + every accessor (C01)
//  cap  <cap> <hexaddr> <hextags> <args>      rtosc_amessage into an exact <cap>-byte block (C02)
//  bcap <cap> <tt> <hexelem,hexelem,...>      rtosc_bundle into an exact <cap>-byte block (C02)
//  bun  <tree>                                nested bundle built bottom-up + all readers (C08)
//  pm   <hexmsg>                              rtosc_bundle_p on a plain message (C08)
//  rt   <hexaddr> <hextags> <args>             RtData::reply / broadcast va-forms (8192-byte stack buffer) (C02)
//  tl   <maxmsg> <nmsgs> <hexaddr> <hextags> <args>   ThreadLink::writeArray / write then read (C02)
//  sub  <cap> <a> <bcd> <efghi>               subtree_serialize of a 3-parameter object into an exact block (C08/C02)
//  raw  <hexbytes>                            rtosc_message_length / rtosc_valid_message_p on
//                                             an exact heap copy, accessors if valid (C07)
//  <args>  = '-' | payload{;payload}   payload = 4:<dec> | 8:<dec> | s:<hex> | b:<len>:<hex|NULL>
//  <tree>  = M<hex> | B<dec tt>(<tree>,...)
#include "hcommon.h"
#include <rtosc/rtosc.h>
#include <rtosc/arg-val.h>
#include <rtosc/ports.h>
#include <rtosc/port-sugar.h>
#include <rtosc/subtree-serialize.h>
#include <rtosc/thread-link.h>
#include <cstdarg>
#include <csignal>
#include <unistd.h>
#include <memory>

struct Payload {
    char k; uint64_t bits; std::vector<uint8_t> bytes; int32_t len; bool null;
};

static std::vector<Payload> parse_args(const std::string &f)
{
    std::vector<Payload> out;
    if(f == "-") return out;
    for(auto &p : split(f, ';')) {
        auto q = split(p, ':');
        Payload x{}; x.k = q[0][0]; x.null = false; x.len = 0; x.bits = 0;
        if(x.k == '4' || x.k == '8') x.bits = strtoull(q[1].c_str(), nullptr, 10);
        else if(x.k == 's') x.bytes = unhex(q.size() > 1 ? q[1] : "-");
        else if(x.k == 'b') {
            x.len = (int32_t)strtoll(q[1].c_str(), nullptr, 10);
            if(q[2] == "NULL") x.null = true; else x.bytes = unhex(q[2]);
        }
        out.push_back(x);
    }
    return out;
}

static char g_arena[1 << 17];   // one address for the re-reads of every case

static bool reserved(char t) { return strchr("isbfhtdSrmc", t) && t; }

// owns the C strings / blobs the rtosc_arg_t array points to
struct ArgPack {
    std::vector<rtosc_arg_t> a;
    std::vector<std::unique_ptr<ExactBuf>> keep;
    std::vector<std::vector<uint8_t>> midi;
};

static void fill_args(ArgPack &pk, const std::string &tags, const std::vector<Payload> &ps)
{
    size_t k = 0;
    pk.midi.reserve(ps.size() + 1);
    for(char t : tags) {
        if(!reserved(t)) continue;
        const Payload &p = ps[k++];
        rtosc_arg_t v; memset(&v, 0, sizeof v);
        switch(t) {
            case 'i': case 'c': case 'r': case 'f': { uint32_t b = (uint32_t)p.bits; memcpy(&v.i, &b, 4); break; }
            case 'm': v.m[0] = p.bits >> 24; v.m[1] = p.bits >> 16; v.m[2] = p.bits >> 8; v.m[3] = p.bits; break;
            case 'h': case 't': case 'd': v.t = p.bits; break;
            case 's': case 'S': {
                std::vector<uint8_t> z = p.bytes; z.push_back(0);
                pk.keep.emplace_back(new ExactBuf(z));
                v.s = (const char*)pk.keep.back()->p; break; }
            case 'b': {
                v.b.len = p.len;
                if(p.null) v.b.data = nullptr;
                else { pk.keep.emplace_back(new ExactBuf(p.bytes)); v.b.data = pk.keep.back()->p; }
                break; }
        }
        pk.a.push_back(v);
    }
}

// rtosc_vmessage through a hand-built x86-64 SysV va_list whose register save
// area is exhausted, so that every va_arg reads the next 8-byte slot
static size_t call_vmessage(char *buf, size_t len, const char *addr, const char *tags,
                            const ArgPack &pk, bool &applicable)
{
    std::vector<uint64_t> slots;
    size_t k = 0;
    applicable = true;
    for(const char *t = tags; *t; ++t) {
        if(!reserved(*t)) continue;
        const rtosc_arg_t &v = pk.a[k++];
        uint64_t s = 0;
        switch(*t) {
            case 'i': case 'c': case 'r': { uint32_t b; memcpy(&b, &v.i, 4); s = b; slots.push_back(s); break; }
            case 'f': { float f; memcpy(&f, &v.i, 4); double d = f;
                        uint32_t fb; memcpy(&fb, &v.i, 4);
                        // a signalling NaN cannot survive the promotion to double and back
                        if((fb & 0x7f800000u) == 0x7f800000u && (fb & 0x007fffffu) && !(fb & 0x00400000u)) applicable = false;
                        memcpy(&s, &d, 8); slots.push_back(s); break; }
            case 'h': case 't': case 'd': slots.push_back(v.t); break;
            case 'm': slots.push_back((uint64_t)(uintptr_t)v.m); break;
            case 's': case 'S': slots.push_back((uint64_t)(uintptr_t)v.s); break;
            case 'b': slots.push_back((uint64_t)(uint32_t)v.b.len); slots.push_back((uint64_t)(uintptr_t)v.b.data); break;
        }
    }
    slots.push_back(0);
#if defined(__x86_64__) && defined(__linux__)
    struct VaTag { unsigned gp_offset, fp_offset; void *overflow_arg_area, *reg_save_area; };
    va_list ap;
    VaTag tag = {48, 304, slots.data(), nullptr};
    static_assert(sizeof(va_list) == sizeof(VaTag), "va_list layout");
    memcpy(ap, &tag, sizeof tag);
    return rtosc_vmessage(buf, len, addr, tags, ap);
#else
    applicable = false; return 0;
#endif
}

static std::string show_arg(const char *msg, char t, rtosc_arg_t v)
{
    std::ostringstream o;
    switch(t) {
        case 'i': case 'c': case 'r': case 'f': { uint32_t b; memcpy(&b, &v.i, 4); o << "4:" << b; break; }
        case 'm': o << "4:" << (((uint32_t)v.m[0] << 24) | (v.m[1] << 16) | (v.m[2] << 8) | v.m[3]); break;
        case 'h': case 't': case 'd': o << "8:" << v.t; break;
        case 's': case 'S': o << "s:" << (v.s - msg); break;
        case 'b': o << "b:" << (uint32_t)v.b.len << ":" << ((const char*)v.b.data - msg); break;
        case 'T': o << (v.T ? "T" : "F?"); break;
        case 'F': o << (v.T ? "T?" : "F"); break;
        default: o << "0";
    }
    return o.str();
}

// S= N= T= G= I= for a message at msg; when n>0 additionally checks that string
// and blob payloads end inside the n bytes (P=ok|out)
static void dump_accessors(std::ostringstream &o, const char *msg, size_t n)
{
    const char *as = rtosc_argument_string(msg);
    unsigned na = rtosc_narguments(msg);
    o << " S=" << (as - msg) << " N=" << na << " T=";
    std::string types;
    for(unsigned i = 0; i < na; ++i) types.push_back(rtosc_type(msg, i));
    o << hex(types.data(), types.size()) << " G=";
    bool inside = true;
    for(unsigned i = 0; i < na; ++i) {
        rtosc_arg_t v = rtosc_argument(msg, i);
        char t = types[i];
        if(i) o << ",";
        o << show_arg(msg, t, v);
        if(n && (t == 's' || t == 'S')) { size_t off = v.s - msg; if(off >= n || off + strnlen(v.s, n - off) >= n) inside = false; }
        if(n && t == 'b') { size_t off = (const char*)v.b.data - msg; if(off > n || (uint32_t)v.b.len > n - off) inside = false; }
    }
    if(!na) o << "-";
    o << " I=";
    rtosc_arg_itr_t it = rtosc_itr_begin(msg);
    bool first = true; unsigned cnt = 0;
    while(!rtosc_itr_end(it) && cnt < 100000) {
        rtosc_arg_val_t av = rtosc_itr_next(&it);
        if(!first) o << ",";
        first = false; ++cnt;
        { char hb[4]; snprintf(hb, sizeof hb, "%02x", (unsigned char)av.type); o << hb << ":" << show_arg(msg, av.type, av.val); }
    }
    if(first) o << "-";
    if(n) o << " P=" << (inside ? "ok" : "out");
}

static void do_msg(const std::vector<std::string> &f)
{
    auto ab = unhex(f[1]), tb = unhex(f[2]);
    std::string addr(ab.begin(), ab.end()), tags(tb.begin(), tb.end());
    auto ps = parse_args(f[3]);
    ArgPack pk; fill_args(pk, tags, ps);
    std::vector<uint8_t> az(ab); az.push_back(0);
    std::vector<uint8_t> tz(tb); tz.push_back(0);
    ExactBuf A(az), T(tz);
    const char *a = (const char*)A.p, *t = (const char*)T.p;
    const rtosc_arg_t *args = pk.a.empty() ? nullptr : pk.a.data();
    size_t need = rtosc_amessage(nullptr, 0, a, t, args);
    std::vector<uint8_t> z(need ? need : 1, 0xAA);
    ExactBuf B(z);
    size_t r = rtosc_amessage((char*)B.p, need, a, t, args);
    std::ostringstream o;
    o << "p=" << need << " r=" << r << " b=" << hex(B.p, need);
    o << " L=" << rtosc_message_length((const char*)B.p, need);
    // varargs constructor
    {
        ExactBuf C(z); bool ok;
        size_t rv = call_vmessage((char*)C.p, need, a, t, pk, ok);
        if(!ok) o << " V=na";
        else if(rv == r && !memcmp(C.p, B.p, need)) o << " V=same";
        else o << " V=" << rv << ":" << hex(C.p, need);
    }
    // argument-value-list constructor (no brackets in arg-val lists)
    if(tags.find('[') != std::string::npos || tags.find(']') != std::string::npos) o << " A=na";
    else {
        std::vector<rtosc_arg_val_t> av;
        size_t k = 0;
        for(char c : tags) {
            rtosc_arg_val_t x; memset(&x, 0, sizeof x); x.type = c;
            if(reserved(c)) x.val = pk.a[k++];
            else if(c == 'T') x.val.T = 1;
            av.push_back(x);
        }
        ExactBuf C(z);
        size_t ra = rtosc_avmessage((char*)C.p, need, a, av.size(), av.empty() ? nullptr : av.data());
        if(ra == r && !memcmp(C.p, B.p, need)) o << " A=same";
        else o << " A=" << ra << ":" << hex(C.p, need);
    }
    if(r) {
        // every accessor first on the arena all cases share, then on the exact block
        std::ostringstream a0, a1;
        bool arena = need + 4 <= sizeof g_arena;
        if(arena) {
            memcpy(g_arena, B.p, need); memset(g_arena + need, 0, 4);
            dump_accessors(a1, g_arena, 0);
        }
        dump_accessors(a0, (const char*)B.p, 0);
        o << a0.str();
        if(arena && (a0.str() != a1.str() || rtosc_message_length(g_arena, need) != need))
            o << " SAME-ADDRESS-READ=" << a1.str();
    }
    puts(o.str().c_str());
}

static void do_cap(const std::vector<std::string> &f)
{
    size_t cap = strtoull(f[1].c_str(), nullptr, 10);
    auto ab = unhex(f[2]), tb = unhex(f[3]);
    std::string tags(tb.begin(), tb.end());
    auto ps = parse_args(f[4]);
    ArgPack pk; fill_args(pk, tags, ps);
    std::vector<uint8_t> az(ab); az.push_back(0);
    std::vector<uint8_t> tz(tb); tz.push_back(0);
    ExactBuf A(az), T(tz);
    const rtosc_arg_t *args = pk.a.empty() ? nullptr : pk.a.data();
    size_t need = rtosc_amessage(nullptr, 0, (const char*)A.p, (const char*)T.p, args);
    // exact block (ASan red zones on both sides) pre-filled with a pattern
    std::vector<uint8_t> z(cap, 0xAA);
    ExactBuf B(z);
    size_t r = rtosc_amessage((char*)B.p, cap, (const char*)A.p, (const char*)T.p, args);
    std::ostringstream o;
    o << "p=" << need << " r=" << r << " b=" << hex(B.p, cap);
    // the other two constructors into a dirty block of the same capacity
    {
        ExactBuf C(z); bool ok;
        size_t rv = call_vmessage((char*)C.p, cap, (const char*)A.p, (const char*)T.p, pk, ok);
        size_t rn = ok ? call_vmessage(nullptr, 0, (const char*)A.p, (const char*)T.p, pk, ok) : 0;
        if(!ok) o << " V=na";
        else if(rn != need) o << " V=null:" << rn;
        else if(rv == r && !memcmp(C.p, B.p, cap)) o << " V=same";
        else o << " V=" << rv << ":" << hex(C.p, cap);
    }
    if(tags.find('[') != std::string::npos || tags.find(']') != std::string::npos) o << " A=na";
    else {
        std::vector<rtosc_arg_val_t> av;
        size_t k = 0;
        for(char c : tags) {
            rtosc_arg_val_t x; memset(&x, 0, sizeof x); x.type = c;
            if(reserved(c)) x.val = pk.a[k++];
            else if(c == 'T') x.val.T = 1;
            av.push_back(x);
        }
        ExactBuf C(z);
        size_t ra = rtosc_avmessage((char*)C.p, cap, (const char*)A.p, av.size(), av.empty() ? nullptr : av.data());
        if(ra == r && !memcmp(C.p, B.p, cap)) o << " A=same";
        else o << " A=" << ra << ":" << hex(C.p, cap);
    }
    puts(o.str().c_str());
}

// what follows the k-th element in its memory block: a nested bundle needs a
// zero word (the API's precondition, bundles are not self-delimiting); a
// message needs nothing - the block ends with it (k even) or arbitrary bytes
// follow (k odd)
static void elem_tail(std::vector<uint8_t> &b, size_t k)
{
    bool bun = b.size() >= 8 && !memcmp(b.data(), "#bundle", 8);
    if(bun) b.insert(b.end(), 4, 0);
    else if(k % 2) b.insert(b.end(), 4, 0xAA);
}

static size_t call_bundle(char *buf, size_t cap, uint64_t tt, const std::vector<const char*> &e)
{
    switch(e.size()) {
        case 0: return rtosc_bundle(buf, cap, tt, 0);
        case 1: return rtosc_bundle(buf, cap, tt, 1, e[0]);
        case 2: return rtosc_bundle(buf, cap, tt, 2, e[0], e[1]);
        case 3: return rtosc_bundle(buf, cap, tt, 3, e[0], e[1], e[2]);
        case 4: return rtosc_bundle(buf, cap, tt, 4, e[0], e[1], e[2], e[3]);
        case 5: return rtosc_bundle(buf, cap, tt, 5, e[0], e[1], e[2], e[3], e[4]);
        case 6: return rtosc_bundle(buf, cap, tt, 6, e[0], e[1], e[2], e[3], e[4], e[5]);
        case 7: return rtosc_bundle(buf, cap, tt, 7, e[0], e[1], e[2], e[3], e[4], e[5], e[6]);
        default: return rtosc_bundle(buf, cap, tt, 8, e[0], e[1], e[2], e[3], e[4], e[5], e[6], e[7]);
    }
}

static void do_bcap(const std::vector<std::string> &f)
{
    size_t cap = strtoull(f[1].c_str(), nullptr, 10);
    uint64_t tt = strtoull(f[2].c_str(), nullptr, 10);
    std::vector<std::unique_ptr<ExactBuf>> keep;
    std::vector<const char*> e;
    if(f[3] != "-")
        for(auto &h : split(f[3], ',')) {
            auto b = unhex(h);
            elem_tail(b, keep.size());
            keep.emplace_back(new ExactBuf(b));
            e.push_back((const char*)keep.back()->p);
        }
    std::vector<uint8_t> z(cap, 0xAA);
    ExactBuf B(z);
    size_t r = call_bundle((char*)B.p, cap, tt, e);
    std::ostringstream o;
    o << "r=" << r << " b=" << hex(B.p, cap);
    puts(o.str().c_str());
}

// ---- nested bundles (C08) -------------------------------------------------
struct Node { bool bun; uint64_t tt; std::vector<uint8_t> bytes; std::vector<Node> kids; };

static Node parse_tree(const std::string &s, size_t &i)
{
    Node n{};
    if(s[i] == 'M') {
        ++i; size_t j = i;
        while(j < s.size() && isxdigit((unsigned char)s[j])) ++j;
        n.bun = false; n.bytes = unhex(s.substr(i, j - i)); i = j;
    } else {
        ++i; size_t j = i;
        while(s[j] != '(') ++j;
        n.bun = true; n.tt = strtoull(s.substr(i, j - i).c_str(), nullptr, 10);
        i = j + 1;
        while(s[i] != ')') { n.kids.push_back(parse_tree(s, i)); if(s[i] == ',') ++i; }
        ++i;
    }
    return n;
}

// builds the node's bytes with the library; appends one reader record per bundle (DFS)
static std::vector<uint8_t> build(const Node &n, std::ostringstream &o)
{
    if(!n.bun) return n.bytes;
    std::vector<std::vector<uint8_t>> kb;
    std::ostringstream sub;
    for(auto &k : n.kids) kb.push_back(build(k, sub));
    std::vector<std::unique_ptr<ExactBuf>> keep;
    std::vector<const char*> e;
    size_t total = 16;
    for(auto &b : kb) {
        std::vector<uint8_t> z(b); elem_tail(z, keep.size());
        keep.emplace_back(new ExactBuf(z));
        e.push_back((const char*)keep.back()->p);
        total += 4 + b.size();
    }
    // built into, and read back from, a block of exactly the bundle's size
    std::vector<uint8_t> ex(total, 0xAA);
    ExactBuf B(ex);
    size_t r = call_bundle((char*)B.p, total, n.tt, e);
    const char *buf = (const char*)B.p;
    // the very first element access of this bundle is made on the shared arena
    // (whose previous content was the previous bundle, last read far from the front)
    long arena_first = -2; size_t arena_first_i = 0;
    if(r && r + 4 <= sizeof g_arena) {
        memcpy(g_arena, buf, r);
        memset(g_arena + r, 0, 4);
        size_t c0 = rtosc_bundle_elements(g_arena, r);
        if(c0) {
            arena_first_i = c0 - 1;
            const char *p = rtosc_bundle_fetch(g_arena, arena_first_i);
            arena_first = p ? p - g_arena : -1;
        }
    }
    o << "[r=" << r << " p=" << rtosc_bundle_p(buf) << " n=" << rtosc_bundle_elements(buf, r)
      << " tt=" << rtosc_bundle_timetag(buf) << " L=" << rtosc_message_length(buf, r) << " e=";
    size_t cnt = rtosc_bundle_elements(buf, r);
    for(size_t i = 0; i < cnt; ++i) {
        const char *p = rtosc_bundle_fetch(buf, i);
        if(i) o << ",";
        o << (p ? p - buf : -1) << ":" << rtosc_bundle_size(buf, i);
    }
    if(!cnt) o << "-";
    o << " b=" << hex(buf, r);
    // the same bytes once more at an address every case shares (a result may
    // depend on the bytes only, not on what was read there before), elements
    // asked for in reverse order
    if(r && r + 4 <= sizeof g_arena) {
        memcpy(g_arena, buf, r);
        memset(g_arena + r, 0, 4);
        // (no read of another buffer in between; last an element far from the front)
        std::vector<long> off0(cnt); std::vector<size_t> sz0(cnt);
        for(size_t i = 0; i < cnt; ++i) {
            const char *p0 = rtosc_bundle_fetch(buf, i);
            off0[i] = p0 ? p0 - buf : -1; sz0[i] = rtosc_bundle_size(buf, i);
        }
        if(arena_first != -2 && arena_first_i < cnt && arena_first != off0[arena_first_i])
            o << " SAME-ADDRESS-FIRST-READ:e" << arena_first_i << "=" << arena_first;
        for(size_t pass = 0; pass < 2; ++pass)
            for(size_t j = 0; j < cnt; ++j) {
                size_t i = pass ? j : cnt - 1 - j;
                const char *p1 = rtosc_bundle_fetch(g_arena, i);
                long o1 = p1 ? p1 - g_arena : -1;
                if(o1 != off0[i] || rtosc_bundle_size(g_arena, i) != sz0[i])
                    o << " SAME-ADDRESS-REREAD:e" << i << "=" << o1 << ":" << rtosc_bundle_size(g_arena, i);
            }
        if(rtosc_bundle_elements(g_arena, r) != cnt || rtosc_message_length(g_arena, r) != rtosc_message_length(buf, r)
           || rtosc_bundle_timetag(g_arena) != rtosc_bundle_timetag(buf))
            o << " SAME-ADDRESS-REREAD:header";
    }
    o << "]" << sub.str();
    return std::vector<uint8_t>(B.p, B.p + r);
}

static void do_bun(const std::vector<std::string> &f)
{
    size_t i = 0;
    Node n = parse_tree(f[1], i);
    std::ostringstream o;
    build(n, o);
    puts(o.str().c_str());
}

static void do_pm(const std::vector<std::string> &f)
{
    auto b = unhex(f[1]);
    ExactBuf B(b);
    printf("p=%d\n", rtosc_bundle_p((const char*)B.p));
}

// ---- fixed-capacity callers: RtData::reply / RtData::broadcast (8192-byte stack buffer) ----
struct CapData : rtosc::RtData {
    std::string got;
    void reply(const char *msg) override
    {
        if(!msg[0]) { got += "EMPTY"; return; }
        size_t n = rtosc_message_length(msg, 8192);
        got += n ? hex(msg, n) : std::string("NOLEN");
    }
    void broadcast(const char *msg) override { reply(msg); }
    using rtosc::RtData::reply;
    using rtosc::RtData::broadcast;
};

//  rt <hexaddr> <hextags> <args>   tags in {s, ss, b, is, sb}
static void do_rt(const std::vector<std::string> &f)
{
    auto ab = unhex(f[1]), tb = unhex(f[2]);
    std::string tags(tb.begin(), tb.end());
    auto ps = parse_args(f[3]);
    ArgPack pk; fill_args(pk, tags, ps);
    std::vector<uint8_t> az(ab); az.push_back(0);
    ExactBuf A(az);
    const char *a = (const char*)A.p;
    CapData r, b;
    const rtosc_arg_t *v = pk.a.data();
    if(tags == "s")       { r.reply(a, "s", v[0].s);                      b.broadcast(a, "s", v[0].s); }
    else if(tags == "ss") { r.reply(a, "ss", v[0].s, v[1].s);             b.broadcast(a, "ss", v[0].s, v[1].s); }
    else if(tags == "b")  { r.reply(a, "b", v[0].b.len, v[0].b.data);     b.broadcast(a, "b", v[0].b.len, v[0].b.data); }
    else if(tags == "is") { r.reply(a, "is", v[0].i, v[1].s);             b.broadcast(a, "is", v[0].i, v[1].s); }
    else if(tags == "sb") { r.reply(a, "sb", v[0].s, v[1].b.len, v[1].b.data); b.broadcast(a, "sb", v[0].s, v[1].b.len, v[1].b.data); }
    else { puts("BADCASE"); return; }
    printf("rp=%s bc=%s\n", r.got.c_str(), b.got.c_str());
}

// ---- subtree_serialize (src/cpp/subtree-serialize.cpp): a bundle of captured replies ----
struct SubObj { int a; int bcd; int efghi; };
#define rObject SubObj
static rtosc::Ports sub_ports = {
    rParamI(a, "first"),
    rParamI(bcd, "second"),
    rParamI(efghi, "third"),
};
#undef rObject

//  sub <cap> <a> <bcd> <efghi>      subtree_serialize into an exact <cap>-byte block
static void do_sub(const std::vector<std::string> &f)
{
    size_t cap = strtoull(f[1].c_str(), nullptr, 10);
    SubObj o{atoi(f[2].c_str()), atoi(f[3].c_str()), atoi(f[4].c_str())};
    std::vector<uint8_t> z(cap ? cap : 1, 0xAA);
    ExactBuf B(z);
    size_t r = cap ? subtree_serialize((char*)B.p, cap, &o, &sub_ports) : 0;
    std::ostringstream os;
    os << "r=" << r << " b=" << hex(B.p, cap);
    puts(os.str().c_str());
}

// ---- fixed-capacity callers: ThreadLink::writeArray / write (MaxMsg-byte write buffer) ----
//  tl <maxmsg> <nmsgs> <hexaddr> <hextags> <args>
static void do_tl(const std::vector<std::string> &f)
{
    size_t maxmsg = strtoull(f[1].c_str(), nullptr, 10), nm = strtoull(f[2].c_str(), nullptr, 10);
    auto ab = unhex(f[3]), tb = unhex(f[4]);
    std::string tags(tb.begin(), tb.end());
    auto ps = parse_args(f[5]);
    ArgPack pk; fill_args(pk, tags, ps);
    std::vector<uint8_t> az(ab); az.push_back(0);
    std::vector<uint8_t> tz(tb); tz.push_back(0);
    ExactBuf A(az), T(tz);
    const char *a = (const char*)A.p, *t = (const char*)T.p;
    const rtosc_arg_t *v = pk.a.empty() ? nullptr : pk.a.data();
    std::ostringstream o;
    {
        rtosc::ThreadLink tl(maxmsg, nm);
        tl.writeArray(a, t, v);
        if(tl.hasNext()) { const char *m = tl.read(); size_t n = rtosc_message_length(m, maxmsg); o << "wa=" << (n ? hex(m, n) : std::string("NOLEN")); }
        else o << "wa=EMPTY";
    }
    {
        rtosc::ThreadLink tl(maxmsg, nm);
        bool done = true;
        if(tags == "s")       tl.write(a, "s", v[0].s);
        else if(tags == "ss") tl.write(a, "ss", v[0].s, v[1].s);
        else if(tags == "b")  tl.write(a, "b", v[0].b.len, v[0].b.data);
        else if(tags == "is") tl.write(a, "is", v[0].i, v[1].s);
        else if(tags == "sb") tl.write(a, "sb", v[0].s, v[1].b.len, v[1].b.data);
        else if(tags == "")   tl.write(a, "");
        else done = false;
        if(!done) o << " w=na";
        else if(tl.hasNext()) { const char *m = tl.read(); size_t n = rtosc_message_length(m, maxmsg); o << " w=" << (n ? hex(m, n) : std::string("NOLEN")); }
        else o << " w=EMPTY";
    }
    puts(o.str().c_str());
}

static void on_alarm(int) { const char m[] = "HANG\n"; (void)!write(1, m, 5); _exit(3); }

//  ring <hex> <cut>   rtosc_message_ring_length over the two-segment ring
//  [0,cut) + [cut,len) of the bytes, each segment an exact heap block
static void do_ring(const std::vector<std::string> &f)
{
    auto b = unhex(f[1]);
    size_t cut = strtoull(f[2].c_str(), nullptr, 10);
    if(cut > b.size()) cut = b.size();
    ExactBuf S0(std::vector<uint8_t>(b.begin(), b.begin() + cut));
    ExactBuf S1(std::vector<uint8_t>(b.begin() + cut, b.end()));
    ring_t r[2] = {{(char*)S0.p, cut}, {(char*)S1.p, b.size() - cut}};
    fflush(stdout);
    alarm(5);
    size_t L = rtosc_message_ring_length(r);
    alarm(0);
    printf("RL=%zu\n", L);
}

static void do_raw(const std::vector<std::string> &f)
{
    auto b = unhex(f[1]);
    ExactBuf B(b);
    size_t n = b.size();
    const char *msg = (const char*)B.p;
    fflush(stdout);
    alarm(5);
    size_t L = rtosc_message_length(msg, n);
    bool v = rtosc_valid_message_p(msg, n);
    alarm(0);
    std::ostringstream o;
    o << "L=" << L << " V=" << (v ? 1 : 0);
    if(v) {
        std::ostringstream a0, a1;
        bool arena = n + 4 <= sizeof g_arena;
        if(arena) {
            memcpy(g_arena, msg, n); memset(g_arena + n, 0, 4);
            dump_accessors(a1, g_arena, n);
        }
        dump_accessors(a0, msg, n);
        o << a0.str();
        if(arena && (a0.str() != a1.str() || rtosc_message_length(g_arena, n) != L || !rtosc_valid_message_p(g_arena, n)))
            o << " SAME-ADDRESS-READ=" << a1.str();
    }
    puts(o.str().c_str());
}

int main()
{
    signal(SIGALRM, on_alarm);
    std::string line;
    while(std::getline(std::cin, line)) {
        auto f = split(line, ' ');
        if(f.empty()) { puts("BADCASE"); continue; }
        if(f[0] == "msg" && f.size() >= 4) do_msg(f);
        else if(f[0] == "ring" && f.size() >= 3) do_ring(f);
        else if(f[0] == "cap" && f.size() >= 5) do_cap(f);
        else if(f[0] == "bcap" && f.size() >= 4) do_bcap(f);
        else if(f[0] == "bun" && f.size() >= 2) do_bun(f);
        else if(f[0] == "pm" && f.size() >= 2) do_pm(f);
        else if(f[0] == "raw" && f.size() >= 2) do_raw(f);
        else if(f[0] == "rt" && f.size() >= 4) do_rt(f);
        else if(f[0] == "sub" && f.size() >= 5) do_sub(f);
        else if(f[0] == "tl" && f.size() >= 6) do_tl(f);
        else puts("BADCASE");
        fflush(stdout);
    }
    return 0;
}
