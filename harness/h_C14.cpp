// C14 harness: the macro-generated parameter callbacks of port-sugar.h, run
// through the real Ports::dispatch with names, array lengths and metadata
// supplied at run time.
//
// A fixed family of C++ structs provides one field per port kind; a template
// port is generated for each by the library's macros (rParam, rParamF, ...).
// For a case the harness builds a one-port Ports whose Port pairs
//     name     = <run-time identifier>[#<N>] + the template's argument spec
//     metadata = ":parameter\0" [":min\0=<text>\0"] [":max\0=<text>\0"]
//                [":map <k>\0=<symbol>\0" ...] ":documentation\0=d\0" "\0"
//     cb       = the template port's macro-generated callback
// (the callbacks read data.port->meta(), so the run-time range takes effect)
// and dispatches every message of the case into it, directly or below the
// macro-generated recursion port "sub/" (rRecur) of a static top-level table
// that also holds a parameter of its own (rParamI(tv, rLinear(-50, 50))) and
// a second sub-tree "om/": the static table of h_C14_options.h with one
// rOption port per argument count of rOptions(...) (kind OM).  ONE RtData
// (subclass recording reply(const char*) / broadcast(const char*)) and one
// location buffer serve all messages of a case, d.obj is set once - as an
// application does - so a message into a sub-tree is followed by messages
// that need d.obj and d.loc back where they were.
//
//   case:   sugar <kind> <depth> <name> <N> <mintext|-> <maxtext|-> <opts|-> <init> <ops> ...
//     kind   P F I O OE T S1 S5 S16 AI AF AO AT PA PS CO ATM AIW    depth 0|1
//            (AIW: rArrayI on an int array - the macro's local is a char whatever the element type)
//            (OE: rOption on a scoped-enum field; PA / PS: the two ports of rParams;
//             CO: rCOptionCb(obj->co, (obj->co_sets++, obj->co = var)), state "co,co_sets";
//             ATM: rArrayTCbMember(atm, on), state "other,on" per element)
//     opts   k=sym,k=sym,...      init  v,v,... (16 for arrays; hex buffer for S*)
//            OM: the static port <name> = o<n> of h_C14_options.h; <opts> must be the list declared there
//     ops    q[<idx>] | s[<idx>]=<t><v> | t | t=i<v>  separated by ';'
//            (t: query / set of the top-level parameter /tv, depth 1 only; its initial value is field 12)
//            t/v: i<dec> c<dec> f<hex8> S<hexsym> s<hexstr> T F
//   output: <msgs of op 1>;<msgs of op 2>;...#<state>[@<tv> at depth 1]
//     msgs   r|b : path : types : args   joined by '+', '-' if none, NOMATCH
//     state  v,v,...   (floats as bit patterns, S* as the whole buffer in hex)
#include "hcommon.h"
#include <rtosc/ports.h>
#include <rtosc/port-sugar.h>
#include <rtosc/rtosc.h>

using namespace rtosc;
#include "h_C14_options.h"

struct RunPorts : Ports {
    RunPorts() : Ports({}) {}
    void set(const Port &p) { ports.clear(); ports.push_back(p); refreshMagic(); }
};

enum { BACK = 16 };
enum class Mode : int { first = 0 };   // an option backed by a scoped enum (rOptionCb_'s static_casts)
struct Obj {
    static RunPorts ports;
    uint32_t guard0;
    char  pc;
    uint32_t guard1;
    float pf;
    int   pi;
    int   po;
    bool  pt;
    uint32_t guard2;
    char  s1[1];
    uint32_t guard3;
    char  s5[5];
    uint32_t guard4;
    char  s16[16];
    uint32_t guard5;
    char  ai[BACK];
    uint32_t guard6;
    float af[BACK];
    uint32_t guard7;
    int   ao[BACK];
    uint32_t guard8;
    bool  at[BACK];
    uint32_t guard9;
    char  ps[BACK];
    uint32_t guard10;
    Mode  pe;
    uint32_t guard11;
    int   co;          // rCOptionCb(getcode, setcode): the value ...
    int   co_sets;     // ... and how often setcode ran
    uint32_t guard12;
    struct Mem { int other; bool on; } atm[BACK];      // rArrayTCbMember(atm, on)
    uint32_t guard13;
    int   aw[BACK];    // rArrayI on elements wider than char
    uint32_t guard14;
};
RunPorts Obj::ports;
static const uint32_t GUARD = 0xa5c3e197u;
static uint32_t *guards(Obj &o, int i)
{
    uint32_t *g[] = {&o.guard0, &o.guard1, &o.guard2, &o.guard3, &o.guard4, &o.guard5,
                     &o.guard6, &o.guard7, &o.guard8, &o.guard9, &o.guard10, &o.guard11,
                     &o.guard12, &o.guard13, &o.guard14};
    return g[i];
}

#define rObject Obj
static const Ports tmpl = {
    rParam(pc, "d"),
    rParamF(pf, "d"),
    rParamI(pi, "d"),
    rOption(po, "d"),
    rToggle(pt, "d"),
    rString(s1, 1, "d"),
    rString(s5, 5, "d"),
    rString(s16, 16, "d"),
    rArrayI(ai, 16, "d"),
    rArrayF(af, 16, "d"),
    rArrayOption(ao, 16, "d"),
    rArrayT(at, 16, "d"),
    rParams(ps, 16, "d"),
    rOption(pe, "d"),
    {"co::i:c:S", rProp(parameter) rProp(enumerated) rDoc("d"), NULL,
        rCOptionCb(obj->co, (obj->co_sets++, obj->co = var))},
    {"atm#16::T:F", rProp(parameter) rDoc("d"), NULL, rArrayTCbMember(atm, on)},
    rArrayI(aw, 16, "d"),
};
#undef rObject

struct Top {
    uint32_t guardT0;
    int tv;            // a parameter of the top level itself
    uint32_t guardT1;
    Obj sub;
    uint32_t guardT2;
    Opt om;
    uint32_t guardT3;
};
#define rObject Top
static const Ports top = { rRecur(sub, "d"), rParamI(tv, rLinear(-50, 50), "d"), rRecur(om, "d") };
#undef rObject

struct Rec : RtData {
    std::vector<std::pair<char, std::string>> log;
    char locbuf[512];
    Rec() { loc = locbuf; loc_size = sizeof(locbuf); memset(locbuf, 0, sizeof(locbuf)); }
    void reply(const char *msg) override { log.emplace_back('r', std::string(msg, rtosc_message_length(msg, -1))); }
    void broadcast(const char *msg) override { log.emplace_back('b', std::string(msg, rtosc_message_length(msg, -1))); }
};

static std::string show_msg(const std::string &m)
{
    const char *msg = m.data();
    std::ostringstream o;
    const char *ty = rtosc_argument_string(msg);
    o << msg << ":" << (*ty ? ty : "") << ":";
    unsigned n = rtosc_narguments(msg);
    bool first = true;
    for(unsigned i = 0; i < n; ++i) {
        char t = rtosc_type(msg, i);
        if(t == 'T' || t == 'F' || t == 'N' || t == 'I') continue;
        if(!first) o << ",";
        first = false;
        rtosc_arg_t a = rtosc_argument(msg, i);
        switch(t) {
            case 'i': case 'c': o << a.i; break;
            case 'f': { uint32_t b; memcpy(&b, &a.f, 4); char buf[16]; snprintf(buf, 16, "%08x", b); o << buf; break; }
            case 's': case 'S': o << hex(a.s, strlen(a.s)); break;
            case 'b': o << hex(a.b.data, a.b.len); break;
            default: o << "?" << t; break;
        }
    }
    return o.str();
}

static float f_of_bits(const std::string &h) { uint32_t b = (uint32_t)strtoul(h.c_str(), 0, 16); float f; memcpy(&f, &b, 4); return f; }
static std::string bits_of_f(float f) { uint32_t b; memcpy(&b, &f, 4); char buf[16]; snprintf(buf, 16, "%08x", b); return buf; }

int main()
{
    std::string line;
    while(std::getline(std::cin, line)) {
        auto f = split(line, ' ');
        if(f.size() < 11 || f[0] != "sugar") { puts("BADCASE"); continue; }
        const std::string &kind = f[1];
        int depth = atoi(f[2].c_str());
        const std::string &name = f[3];
        int N = atoi(f[4].c_str());
        static const char *kinds[] = {"P", "F", "I", "O", "T", "S1", "S5", "S16", "AI", "AF", "AO", "AT", "PA", "PS", "OE", "CO", "ATM", "AIW", "OM"};
        int k = -1;
        for(int i = 0; i < 19; ++i) if(kind == kinds[i]) k = i;
        if(k < 0) { puts("BADCASE"); continue; }
        const bool is_om = k == 18;
        int om_n = 0;
        if(is_om) {
            // a static port of h_C14_options.h; the case must carry the list that file declares
            om_n = name.size() > 1 && name[0] == 'o' ? atoi(name.c_str() + 1) : 0;
            if(om_n < 1 || om_n > OPT_COUNTS) { puts("BADCASE"); continue; }
            std::string decl;
            int pos = 0;
            for(auto &sym : split(opt_declared[om_n - 1], ',')) decl += (pos ? "," : "") + std::to_string(pos) + "=" + sym, ++pos;
            if(decl != f[7]) { puts("BADCASE declared-list"); continue; }
        }
        // PA = the array half of rParams (same callback as rArrayI), PS = its alias half
        const Port &tp = tmpl.ports[is_om ? 3 : k];
        bool is_array = (k >= 8 && k <= 12) || k == 16 || k == 17;
        bool is_str   = (k >= 5 && k <= 7);
        int  slen     = k == 5 ? 1 : k == 6 ? 5 : 16;

        // run-time name: identifier [#N] + the template's argument spec
        std::string pname = name;
        if(is_array) pname += "#" + std::to_string(N);
        pname += strchr(tp.name, ':');
        // run-time metadata block
        std::string meta = std::string(":parameter") + '\0';
        if(f[5] != "-") meta += std::string(":min") + '\0' + "=" + f[5] + '\0';
        if(f[6] != "-") meta += std::string(":max") + '\0' + "=" + f[6] + '\0';
        if(f[7] != "-")
            for(auto &kv : split(f[7], ',')) {
                auto p = kv.find('=');
                meta += ":map " + kv.substr(0, p) + '\0' + "=" + kv.substr(p + 1) + '\0';
            }
        meta += std::string(":documentation") + '\0' + "=d" + '\0';
        meta += '\0';
        ExactBuf mb(std::vector<uint8_t>(meta.begin(), meta.end()));
        ExactBuf nb(std::vector<uint8_t>(pname.c_str(), pname.c_str() + pname.size() + 1));
        Obj::ports.set(Port{(const char*)nb.p, (const char*)mb.p, nullptr, tp.cb});

        Top t;
        Obj &o = t.sub;
        memset(&t, 0, sizeof(t));
        for(int i = 0; i <= 14; ++i) *guards(o, i) = GUARD;
        t.guardT0 = t.guardT1 = t.guardT2 = t.guardT3 = t.om.guardA = t.om.guardB = GUARD;
        const int tv0 = f.size() > 12 && f[12] != "-" ? atoi(f[12].c_str()) : 0;
        t.tv = tv0;
        // initial state
        auto iv = split(f[8], ',');
        auto geti = [&](int i) { return i < (int)iv.size() ? atoi(iv[i].c_str()) : 0; };
        switch(k) {
            case 0: o.pc = (char)geti(0); break;
            case 1: o.pf = f_of_bits(iv[0]); break;
            case 2: o.pi = geti(0); break;
            case 3: o.po = geti(0); break;
            case 4: o.pt = geti(0) != 0; break;
            case 5: case 6: case 7: {
                auto b = unhex(f[8]);
                char *dst = k == 5 ? o.s1 : k == 6 ? o.s5 : o.s16;
                for(int i = 0; i < slen && i < (int)b.size(); ++i) dst[i] = (char)b[i];
                break; }
            case 8:  for(int i = 0; i < BACK; ++i) o.ai[i] = (char)geti(i); break;
            case 9:  for(int i = 0; i < BACK; ++i) o.af[i] = f_of_bits(i < (int)iv.size() ? iv[i] : "0"); break;
            case 10: for(int i = 0; i < BACK; ++i) o.ao[i] = geti(i); break;
            case 11: for(int i = 0; i < BACK; ++i) o.at[i] = geti(i) != 0; break;
            case 12: case 13: for(int i = 0; i < BACK; ++i) o.ps[i] = (char)geti(i); break;
            case 14: o.pe = (Mode)geti(0); break;
            case 15: o.co = geti(0); o.co_sets = geti(1); break;
            case 16: for(int i = 0; i < BACK; ++i) { o.atm[i].other = geti(2 * i); o.atm[i].on = geti(2 * i + 1) != 0; } break;
            case 17: for(int i = 0; i < BACK; ++i) o.aw[i] = geti(i); break;
            case 18: *opt_field(t.om, om_n) = geti(0); break;
        }

        std::ostringstream out;
        bool firstop = true;
        // one RtData, one location buffer, d.obj set once for the whole history
        Rec d;
        d.obj = depth ? (void*)&t : is_om ? (void*)&t.om : (void*)&o;
        void *const obj0 = d.obj;
        for(auto &op : split(f[9], ';')) {
            // address
            std::string body = op.substr(1);
            std::string idx, val;
            auto eq = body.find('=');
            if(eq == std::string::npos) idx = body; else { idx = body.substr(0, eq); val = body.substr(eq + 1); }
            std::string addr = std::string("/") + (depth ? (is_om ? "om/" : "sub/") : "") + name + idx;
            if(op[0] == 't') addr = "/tv";
            char buf[1024];
            memset(buf, 0, sizeof(buf));
            size_t len = 0;
            if(op[0] == 't' && !depth) len = 0;
            else if(val.empty()) len = rtosc_message(buf, sizeof(buf), addr.c_str(), "");
            else switch(val[0]) {
                case 'i': len = rtosc_message(buf, sizeof(buf), addr.c_str(), "i", atoi(val.c_str() + 1)); break;
                case 'c': len = rtosc_message(buf, sizeof(buf), addr.c_str(), "c", atoi(val.c_str() + 1)); break;
                case 'f': len = rtosc_message(buf, sizeof(buf), addr.c_str(), "f", f_of_bits(val.substr(1))); break;
                case 'T': len = rtosc_message(buf, sizeof(buf), addr.c_str(), "T"); break;
                case 'F': len = rtosc_message(buf, sizeof(buf), addr.c_str(), "F"); break;
                case 'S': case 's': {
                    auto b = unhex(val.substr(1));
                    std::string s(b.begin(), b.end());
                    len = rtosc_message(buf, sizeof(buf), addr.c_str(), val[0] == 'S' ? "S" : "s", s.c_str());
                    break; }
            }
            if(!firstop) out << ";";
            firstop = false;
            if(!len) { out << "BADOP"; continue; }
            ExactBuf m(std::vector<uint8_t>(buf, buf + len));
            d.log.clear();
            if(depth)      top.dispatch((const char*)m.p, d, true);
            else if(is_om) Opt::ports.dispatch((const char*)m.p, d, true);
            else           Obj::ports.dispatch((const char*)m.p, d, true);
            if(d.matches == 0) { out << "NOMATCH"; continue; }
            if(d.log.empty()) out << "-";
            for(size_t i = 0; i < d.log.size(); ++i) {
                if(i) out << "+";
                out << d.log[i].first << ":" << show_msg(d.log[i].second);
            }
        }
        out << "#";
        switch(k) {
            case 0: out << (int)o.pc; break;
            case 1: out << bits_of_f(o.pf); break;
            case 2: out << o.pi; break;
            case 3: out << o.po; break;
            case 4: out << (int)o.pt; break;
            case 5: out << hex(o.s1, 1); break;
            case 6: out << hex(o.s5, 5); break;
            case 7: out << hex(o.s16, 16); break;
            case 8:  for(int i = 0; i < BACK; ++i) out << (i ? "," : "") << (int)o.ai[i]; break;
            case 9:  for(int i = 0; i < BACK; ++i) out << (i ? "," : "") << bits_of_f(o.af[i]); break;
            case 10: for(int i = 0; i < BACK; ++i) out << (i ? "," : "") << o.ao[i]; break;
            case 11: for(int i = 0; i < BACK; ++i) out << (i ? "," : "") << (int)o.at[i]; break;
            case 12: case 13: for(int i = 0; i < BACK; ++i) out << (i ? "," : "") << (int)o.ps[i]; break;
            case 14: out << (int)o.pe; break;
            case 15: out << o.co << "," << o.co_sets; break;
            case 16: for(int i = 0; i < BACK; ++i) out << (i ? "," : "") << o.atm[i].other << "," << (int)o.atm[i].on; break;
            case 17: for(int i = 0; i < BACK; ++i) out << (i ? "," : "") << o.aw[i]; break;
            case 18: out << *opt_field(t.om, om_n); break;
        }
        if(depth) out << "@" << t.tv;
        if(d.obj != obj0) out << " OBJ-NOT-RESTORED";
        for(int i = 0; i <= 14; ++i) if(*guards(o, i) != GUARD) out << " GUARD" << i;
        if(t.guardT0 != GUARD || t.guardT1 != GUARD || t.guardT2 != GUARD || t.guardT3 != GUARD ||
           t.om.guardA != GUARD || t.om.guardB != GUARD) out << " GUARDTOP";
        if(!depth && t.tv != tv0) out << " OTHERFIELD";
        for(int n = 1; n <= OPT_COUNTS; ++n) if(n != om_n && *opt_field(t.om, n)) { out << " OTHERFIELD"; break; }
        // every field the case's port does not own must still be zero
        {
            Obj z; memset(&z, 0, sizeof(z));
            bool other = false;
            if(k != 0 && o.pc) other = true;
            if(k != 1 && memcmp(&o.pf, &z.pf, 4)) other = true;
            if(k != 2 && o.pi) other = true;
            if(k != 3 && o.po) other = true;
            if(k != 4 && o.pt) other = true;
            if(k != 5 && memcmp(o.s1, z.s1, 1)) other = true;
            if(k != 6 && memcmp(o.s5, z.s5, 5)) other = true;
            if(k != 7 && memcmp(o.s16, z.s16, 16)) other = true;
            if(k != 8 && memcmp(o.ai, z.ai, sizeof(o.ai))) other = true;
            if(k != 9 && memcmp(o.af, z.af, sizeof(o.af))) other = true;
            if(k != 10 && memcmp(o.ao, z.ao, sizeof(o.ao))) other = true;
            if(k != 11 && memcmp(o.at, z.at, sizeof(o.at))) other = true;
            if(k != 12 && k != 13 && memcmp(o.ps, z.ps, sizeof(o.ps))) other = true;
            if(k != 14 && (int)o.pe) other = true;
            if(k != 15 && (o.co || o.co_sets)) other = true;
            if(k != 16) for(int i = 0; i < BACK; ++i) if(o.atm[i].other || o.atm[i].on) other = true;
            if(k != 17 && memcmp(o.aw, z.aw, sizeof(o.aw))) other = true;
            if(other) out << " OTHERFIELD";
        }
        puts(out.str().c_str());
    }
    return 0;
}
