// Shared helpers for the correspondence harnesses: line reading, hex <-> bytes.
#ifndef VERIF_HCOMMON_H
#define VERIF_HCOMMON_H
#include <cstdio>
#include <cstdlib>
#include <cstring>
#include <cstdint>
#include <string>
#include <vector>
#include <sstream>
#include <iostream>

static inline std::vector<std::string> split(const std::string &s, char c)
{
    std::vector<std::string> out;
    if(s.empty()) return out;
    std::string cur;
    for(char ch : s) {
        if(ch == c) { out.push_back(cur); cur.clear(); }
        else cur.push_back(ch);
    }
    out.push_back(cur);
    return out;
}

static inline std::vector<uint8_t> unhex(const std::string &h)
{
    std::vector<uint8_t> out;
    if(h == "-") return out;
    for(size_t i = 0; i + 1 < h.size(); i += 2) {
        unsigned v = 0;
        sscanf(h.c_str() + i, "%2x", &v);
        out.push_back((uint8_t)v);
    }
    return out;
}

static inline std::string hex(const void *p, size_t n)
{
    if(n == 0) return "-";
    static const char *d = "0123456789abcdef";
    std::string s;
    const uint8_t *b = (const uint8_t*)p;
    for(size_t i = 0; i < n; ++i) { s.push_back(d[b[i] >> 4]); s.push_back(d[b[i] & 15]); }
    return s;
}

// exact-size heap copy (so that AddressSanitizer sees every overrun)
struct ExactBuf {
    uint8_t *p; size_t n;
    explicit ExactBuf(const std::vector<uint8_t> &v) : p((uint8_t*)malloc(v.size() ? v.size() : 1)), n(v.size())
    { if(n) memcpy(p, v.data(), n); }
    ~ExactBuf() { free(p); }
    ExactBuf(const ExactBuf&) = delete;
};
#endif
