// C03 harness: the allocator and the mutex functions are defined in this
// executable (they pre-empt libc's); every call made while the thread-local
// "in the RT section" flag is set is counted.  Port trees, ThreadLinks and
// input buffers are constructed *outside* the RT section (construction may
// allocate); the section itself contains only calls of the RT entry points.
//
// case lines (field 2 is always g=<entry-group ids>, used by the model driver):
//   cbs   g=5
//   msg   g=1,2 <hexmsg> <cap> <shape> <len> [<inplace>]
//         inplace = <off>:<dlen>:<n>[:<off2>],...  bundles built IN PLACE: the destination is dlen bytes, element 1
//                   is the message put at destination+off (off may be negative or beyond dlen-msglen: every
//                   overlap shape), n = 1 | 2 elements (the second: the pristine copy outside, or the message
//                   put at destination+off2)
//   match g=3   <hexpattern> <hexmsg>
//   reply g=6   <P|C> <strlen> <r|b>
//   disp  g=4,5,6 <tree> <hexmsg> <loc N|L|Z><base 0|1><data P|C> ...
//   hist  g=4,5,6 <tree> <hexmsg>,<hexmsg>,... <mode>      a history: the messages are dispatched one after the
//                other on ONE object / tree inside one RT section (disp: the one message twice)
//         tree = S0 | S1 (static sugar tree; S1: Mid::pleaf == NULL) | S2 (ClonePorts of Leaf with a "*" default)
//              | S3 (Leaf::ports itself, one Leaf)
//              | G<table>;<table>...   table = <flag -|d|s>:<hexname>.<cb>|...
//                cb = L<k> (callback + metadata of c03::Leaf::ports[k]) | R<j> (recurse into table j>i)
//   link  g=7   <maxmsg> <nmsg> <op>,<op>,...    op = w<hexmsg> raw_write | W<k> write (shape k)
//                | A<hexmsg> writeArray of the message's own arguments | r read | l read_lookahead
//                | h hasNext | H hasNextLookahead | p peak
// output: a=<allocs> f=<frees> l=<locks> first=<what> | <observables>
#include "hcommon.h"
#include "h_C03_sugar.h"
#include <rtosc/thread-link.h>
#include <rtosc/arg-val.h>
#include <pthread.h>
#include <dlfcn.h>
#include <cxxabi.h>
#include <new>
#include <memory>

// ---- interposition ---------------------------------------------------------
extern "C" {
void *__libc_malloc(size_t);
void *__libc_calloc(size_t, size_t);
void *__libc_realloc(void *, size_t);
void  __libc_free(void *);
void *__libc_memalign(size_t, size_t);
}

static __thread int      in_rt = 0;
static __thread unsigned n_alloc = 0, n_free = 0, n_lock = 0;
static __thread const char *first_what = 0;
static __thread size_t   first_size = 0;

static inline void note_alloc(const char *what, size_t n)
{
    if(in_rt) { if(!n_alloc && !n_free && !n_lock) { first_what = what; first_size = n; } n_alloc++; }
}
static inline void note_free(const char *what)
{
    if(in_rt) { if(!n_alloc && !n_free && !n_lock) { first_what = what; first_size = 0; } n_free++; }
}
static inline void note_lock(const char *what)
{
    if(in_rt) { if(!n_alloc && !n_free && !n_lock) { first_what = what; first_size = 0; } n_lock++; }
}

extern "C" {
void *malloc(size_t n)             { note_alloc("malloc", n); return __libc_malloc(n); }
void *calloc(size_t a, size_t b)   { note_alloc("calloc", a * b); return __libc_calloc(a, b); }
void *realloc(void *p, size_t n)   { note_alloc("realloc", n); return __libc_realloc(p, n); }
void  free(void *p)                { if(p) note_free("free"); __libc_free(p); }
void *memalign(size_t al, size_t n){ note_alloc("memalign", n); return __libc_memalign(al, n); }
void *aligned_alloc(size_t al, size_t n) { note_alloc("aligned_alloc", n); return __libc_memalign(al, n); }
int   posix_memalign(void **out, size_t al, size_t n)
{
    note_alloc("posix_memalign", n);
    void *p = __libc_memalign(al, n);
    if(!p) return 12;
    *out = p;
    return 0;
}
typedef int (*mutex_fn)(pthread_mutex_t *);
static mutex_fn real_lock = 0, real_trylock = 0;
int pthread_mutex_lock(pthread_mutex_t *m)
{
    note_lock("pthread_mutex_lock");
    if(!real_lock) real_lock = (mutex_fn)dlsym(RTLD_NEXT, "pthread_mutex_lock");
    return real_lock(m);
}
int pthread_mutex_trylock(pthread_mutex_t *m)
{
    note_lock("pthread_mutex_trylock");
    if(!real_trylock) real_trylock = (mutex_fn)dlsym(RTLD_NEXT, "pthread_mutex_trylock");
    return real_trylock(m);
}
}
static void *new_impl(size_t n, const char *what)
{
    note_alloc(what, n);
    void *p = __libc_malloc(n ? n : 1);
    if(!p) abort();
    return p;
}
void *operator new(size_t n)                              { return new_impl(n, "operator new"); }
void *operator new[](size_t n)                            { return new_impl(n, "operator new[]"); }
void *operator new(size_t n, const std::nothrow_t&) noexcept   { return new_impl(n, "operator new(nothrow)"); }
void *operator new[](size_t n, const std::nothrow_t&) noexcept { return new_impl(n, "operator new[](nothrow)"); }
void operator delete(void *p) noexcept                    { if(p) note_free("operator delete"); __libc_free(p); }
void operator delete[](void *p) noexcept                  { if(p) note_free("operator delete[]"); __libc_free(p); }
void operator delete(void *p, size_t) noexcept            { if(p) note_free("operator delete"); __libc_free(p); }
void operator delete[](void *p, size_t) noexcept          { if(p) note_free("operator delete[]"); __libc_free(p); }

struct RtSection {
    RtSection()  { n_alloc = n_free = n_lock = 0; first_what = 0; first_size = 0; in_rt = 1; }
    ~RtSection() { in_rt = 0; }
};
static std::string verdict(void)
{
    char b[160];
    if(first_what)
        snprintf(b, sizeof b, "a=%u f=%u l=%u first=%s(%zu)", n_alloc, n_free, n_lock, first_what, first_size);
    else
        snprintf(b, sizeof b, "a=%u f=%u l=%u first=-", n_alloc, n_free, n_lock);
    return b;
}

// matchers of src/dispatch.c that have no declaration in a public header
extern "C" {
const char *rtosc_match_options(const char *pattern, const char **msg);
bool rtosc_match_partial(const char *a, const char *b);
int  rtosc_subpath_pat_type(const char *pattern);
}

// ---- helpers ---------------------------------------------------------------
using namespace rtosc;
using namespace c03;

// message bytes in an 8-aligned buffer with slack (contents beyond the message are zero)
struct MsgBuf {
    char *p; size_t n;
    explicit MsgBuf(const std::vector<uint8_t> &v) : p((char*)calloc(v.size() + 64, 1)), n(v.size())
    { if(n) memcpy(p, v.data(), n); }
    ~MsgBuf() { free(p); }
    MsgBuf(const MsgBuf&) = delete;
};

static std::string demangled(const char *n)
{
    int st = 0;
    char *d = abi::__cxa_demangle(n, 0, 0, &st);
    std::string s = (st == 0 && d) ? d : n;
    free(d);
    return s;
}

static void collect_types(const Ports &p, std::vector<std::string> &out, int depth = 0)
{
    for(const Port &q : p.ports) {
        if(q.cb)
            out.push_back(demangled(q.cb.target_type().name()));
        if(q.ports && depth < 4)
            collect_types(*q.ports, out, depth + 1);
    }
}

// ---- static sugar tree -----------------------------------------------------
struct World {
    Root root;
    Leaf spare[4];
    World(bool null_pleaf)
    {
        memset((void*)&root, 0, sizeof root);
        memset((void*)spare, 0, sizeof spare);
        Mid *ms[3] = {&root.mid, &root.mids[0], &root.mids[1]};
        for(Mid *m : ms) {
            m->pleaf = null_pleaf ? 0 : &spare[0];
            for(int i = 0; i < 3; ++i)
                m->pleaves[i] = &spare[1 + i];
        }
    }
};

// ---- generated trees -------------------------------------------------------
struct GenTree {
    std::vector<std::unique_ptr<GenPorts>> tables;
    std::vector<std::unique_ptr<char[]>>   names;
    bool ok;
    explicit GenTree(const std::string &spec) : ok(true)
    {
        auto ts = split(spec, ';');
        tables.resize(ts.size());
        for(int i = (int)ts.size() - 1; i >= 0; --i) {
            auto fp = split(ts[i], ':');
            if(fp.size() != 2) { ok = false; return; }
            std::unique_ptr<GenPorts> g(new GenPorts);
            for(auto &ps : split(fp[1], '|')) {
                auto nc = split(ps, '.');
                if(nc.size() != 2 || nc[1].size() < 2) { ok = false; return; }
                auto nb = unhex(nc[0]);
                std::unique_ptr<char[]> nm(new char[nb.size() + 1]);
                memcpy(nm.get(), nb.data(), nb.size());
                nm[nb.size()] = 0;
                int k = atoi(nc[1].c_str() + 1);
                if(nc[1][0] == 'L') {
                    if(k < 0 || k >= (int)Leaf::ports.ports.size()) { ok = false; return; }
                    const Port &src = Leaf::ports.ports[k];
                    g->ports.push_back({nm.get(), src.metadata, 0, src.cb});
                } else if(nc[1][0] == 'R') {
                    if(k <= i || k >= (int)ts.size() || !tables[k]) { ok = false; return; }
                    g->ports.push_back({nm.get(), ":documentation\0=generated sub-tree\0", tables[k].get(),
                                        recur_into(tables[k].get())});
                } else { ok = false; return; }
                names.push_back(std::move(nm));
            }
            if(fp[0] == "d") g->default_handler = default_reply();
            else if(fp[0] == "s") g->default_handler = default_silent();
            g->finish();
            tables[i] = std::move(g);
        }
    }
};

// ---- streams ---------------------------------------------------------------
static std::string do_cbs(void)
{
    std::vector<std::string> t;
    collect_types(Root::ports, t);
    collect_types(Cloned::ports, t);
    t.push_back(demangled(recur_into(&Leaf::ports).target_type().name()));
    t.push_back(demangled(default_reply().target_type().name()));
    t.push_back(demangled(default_silent().target_type().name()));
    std::string o = "a=0 f=0 l=0 first=- | cbs=";
    for(size_t i = 0; i < t.size(); ++i)
        o += (i ? "|" : "") + t[i];
    return o;
}

static uint8_t midi4[4] = {0x90, 0x3c, 0x7f, 0};
static uint8_t blob8[8] = {1, 2, 3, 4, 5, 6, 7, 8};

// argument lists of more than 32 values (the conversion of a va_list into rtosc_arg_t[] is sized by the type string)
#define T8  "iiiiiiii"
#define I8  1, 2, 3, 4, 5, 6, 7, 8
#define TM4 "isfd"
#define M4  7, "str", 1.5, 2.5
#define TM20 TM4 TM4 TM4 TM4 TM4
#define M20  M4, M4, M4, M4, M4
#define MANY33 T8 T8 T8 T8 "i",      I8, I8, I8, I8, 9
#define MANY32 T8 T8 T8 T8,          I8, I8, I8, I8
#define MANY40 T8 T8 "TF" T8 T8 T8,  I8, I8, I8, I8, I8
#define MANY80 TM20 TM20 TM20 TM20,  M20, M20, M20, M20

static size_t build_shape(char *out, size_t cap, int shape)
{
    switch(shape) {
        case 6:  return rtosc_message(out, cap, "/w33", MANY33);
        case 7:  return rtosc_message(out, cap, "/w32", MANY32);
        case 8:  return rtosc_message(out, cap, "/w40", MANY40);
        case 9:  return rtosc_message(out, cap, "/w80", MANY80);
        case 0:  return rtosc_message(out, cap, "/s0", "");
        case 1:  return rtosc_message(out, cap, "/shape/one", "i", 42);
        case 2:  return rtosc_message(out, cap, "/sh2", "sf", "a string argument", 2.5);
        case 3:  return rtosc_message(out, cap, "/s3", "b", 8, blob8);
        case 4:  return rtosc_message(out, cap, "/every/tag", "ifsbhtdScrmTFNI", 1, 2.0, "s", 5, blob8,
                                      (int64_t)4, (uint64_t)5, 6.0, "S", 'c', 0x11223344, midi4);
        default: return rtosc_message(out, cap, "/s5", "TFNI");
    }
}

static std::string do_msg(const std::vector<std::string> &f)
{
    MsgBuf m(unhex(f[2]));
    size_t cap = strtoul(f[3].c_str(), 0, 10);
    int shape = atoi(f[4].c_str());
    // (the bundle buffer is always large enough: rtosc_bundle's handling of a too small
    //  buffer is C02's subject)
    const size_t bcap = 2 * m.n + 64;
    std::unique_ptr<char[]> out(new char[cap + 64]), out2(new char[bcap]), scratch(new char[m.n + 64 + 8192]);
    size_t len = 0, rebuilt = 0, avb = 0, shp = 0, vb = 0, bl = 0, be = 0, ringlen = 0, nargs = 0, itn = 0, bsz = 0;
    // bundles built in place: one arena, the destination in its middle, room for an element that starts
    // before the destination or reaches past its end
    struct InPlace { long off, off2; size_t dlen; int n; bool has2; };
    std::vector<InPlace> ips;
    size_t maxd = 0, ipsum = 0, ipok = 0, ipvalid = 0;
    const long pre = (long)((m.n + 64 + 7) / 8 * 8);
    if(f.size() > 6 && f[6] != "-")
        for(auto &t : split(f[6], ',')) {
            auto q = split(t, ':');
            if(q.size() < 3) return "BADCASE";
            InPlace ip;
            ip.off = atol(q[0].c_str()); ip.dlen = strtoul(q[1].c_str(), 0, 10); ip.n = atoi(q[2].c_str());
            ip.has2 = q.size() > 3; ip.off2 = ip.has2 ? atol(q[3].c_str()) : 0;
            if(ip.n < 1 || ip.n > 2 || ip.dlen > (1u << 20) || ip.off < -pre + 8 || ip.off > (long)ip.dlen + 8
               || ip.off2 < -pre + 8 || ip.off2 > (long)ip.dlen + 8)
                return "BADCASE";
            if(ip.dlen > maxd) maxd = ip.dlen;
            ips.push_back(ip);
        }
    const size_t alen = 2 * (size_t)pre + maxd + 64;
    std::unique_ptr<char[]> arena(new char[alen]);
    bool valid = false, same = false, isb = false;
    uint64_t tt = 0;
    unsigned acc = 0;
    {
        RtSection rt;
        len   = rtosc_message_length(m.p, m.n);
        valid = rtosc_valid_message_p(m.p, m.n);
        const char *types = rtosc_argument_string(m.p);
        nargs = rtosc_narguments(m.p);
        rtosc_arg_t     args[64];
        rtosc_arg_val_t avs[64];
        // rtosc_amessage takes one rtosc_arg_t per value-carrying tag (T F N I have none)
        unsigned nval = 0;
        bool novalue_tags = false;
        for(unsigned i = 0; i < nargs && i < 64; ++i) {
            char ty = rtosc_type(m.p, i);
            acc += (unsigned char)ty;
            rtosc_arg_t a = rtosc_argument(m.p, i);
            if(ty == 'T' || ty == 'F' || ty == 'N' || ty == 'I')
                novalue_tags = true;
            else
                args[nval++] = a;
        }
        rtosc_arg_itr_t it = rtosc_itr_begin(m.p);
        while(!rtosc_itr_end(it) && itn < 64)
            avs[itn++] = rtosc_itr_next(&it);
        // measure (NULL buffer), rebuild into cap bytes (oversized when cap < len)
        size_t need = rtosc_amessage(0, 0, m.p, types, args);
        rebuilt = rtosc_amessage(out.get(), cap, m.p, types, args);
        same = rebuilt == len && need == len && !memcmp(out.get(), m.p, len);
        // (rtosc_avmessage copies one value per element, T/F/N/I included, and hands the
        //  array to rtosc_amessage, which expects none for those: only called without them)
        if(!novalue_tags)
            avb = rtosc_avmessage(scratch.get(), m.n + 64, m.p, itn, avs);
        shp = build_shape(scratch.get(), cap > 8192 ? 8192 : cap, shape);
        shp += build_shape(0, 0, shape) != 0;      // measuring only
        // bundles of (rebuilt or original) messages
        bl  = rtosc_bundle(out2.get(), bcap, 0x0102030405060708ULL, 2, m.p, m.p);
        isb = rtosc_bundle_p(out2.get());
        be  = rtosc_bundle_elements(out2.get(), bl);
        for(unsigned i = 0; i < be; ++i) {
            bsz += rtosc_bundle_size(out2.get(), i);
            acc += (unsigned char)rtosc_bundle_fetch(out2.get(), i)[0];
        }
        tt = rtosc_bundle_timetag(out2.get());
        vb = rtosc_message_length(out2.get(), bl);
        // the message wrapped into a bundle IN PLACE: element and destination overlap
        for(const InPlace &ip : ips) {
            char *dest = arena.get() + pre;
            memset(arena.get(), 0, alen);
            memcpy(dest + ip.off, m.p, m.n);
            if(ip.has2)
                memcpy(dest + ip.off2, m.p, m.n);
            size_t r = ip.n == 1 ? rtosc_bundle(dest, ip.dlen, 0x1112131415161718ULL, 1, dest + ip.off)
                                 : rtosc_bundle(dest, ip.dlen, 0x1112131415161718ULL, 2, dest + ip.off,
                                                ip.has2 ? dest + ip.off2 : m.p);
            ipsum += r; ipok += r != 0;
            ipvalid += rtosc_bundle_p(dest) && rtosc_message_length(dest, ip.dlen) == r;
        }
        // the same message seen through a two-segment ring, cut at every 4th position
        for(size_t cut = 0; cut <= len; cut += 4) {
            ring_t r[2] = {{m.p, cut}, {m.p + cut, len - cut + 8}};
            ringlen += rtosc_message_ring_length(r) == len;
        }
    }
    char b[480];
    snprintf(b, sizeof b, " | len=%zu valid=%d nargs=%zu itr=%zu rebuilt=%zu same=%d av=%zu shape=%zu bundle=%zu/%d/%zu/%zu/%zu tt=%llx ring=%zu acc=%u inplace=%zu/%zu/%zu/%zu",
             len, (int)valid, nargs, itn, rebuilt, (int)same, avb, shp, bl, (int)isb, be, bsz, vb,
             (unsigned long long)tt, ringlen, acc, ips.size(), ipok, ipvalid, ipsum);
    return verdict() + b;
}

static std::string do_match(const std::vector<std::string> &f)
{
    MsgBuf pat(unhex(f[2])), m(unhex(f[3]));
    bool r1 = false, r3 = false, r5 = false; const char *r2 = 0, *r4 = 0, *e1 = 0, *e2 = 0; int ty = 0;
    {
        RtSection rt;
        r1 = rtosc_match(pat.p, m.p, &e1);
        r2 = rtosc_match_path(pat.p, m.p, &e2);
        r3 = rtosc_match(pat.p, m.p, 0);
        const char *mm = m.p;
        r4 = pat.p[0] == '{' ? rtosc_match_options(pat.p, &mm) : 0;
        ty = rtosc_subpath_pat_type(pat.p);
        r5 = rtosc_match_partial(m.p, pat.p);
    }
    char b[200];
    snprintf(b, sizeof b, " | match=%d path=%d again=%d opt=%d type=%d partial=%d end=%ld",
             (int)r1, r2 != 0, (int)r3, r4 != 0, ty, (int)r5, e1 ? (long)(e1 - m.p) : -1L);
    return verdict() + b;
}

static std::string do_reply(const std::vector<std::string> &f)
{
    size_t n = strtoul(f[3].c_str(), 0, 10);
    std::unique_ptr<char[]> s(new char[n + 1]);
    memset(s.get(), 'x', n); s[n] = 0;
    RtData plain; CaptureData cap;
    RtData &d = f[2] == "P" ? plain : (RtData&)cap;
    {
        RtSection rt;
        if(f[4] == "r") {
            d.reply("/reply/path", "sif", s.get(), 7, 1.5);
            d.reply("/reply/blob", "b", 8, blob8);
            d.reply("/reply/many", MANY33);
            d.reply("/reply/many", MANY80);
            d.reply(cap.last);
        } else {
            d.broadcast("/broadcast/path", "sTc", s.get(), 'x');
            d.broadcast("/broadcast/many", MANY40);
            d.broadcast(cap.last);
        }
        d.chain("/chain", "i", 1);
        d.chain(cap.last);
        d.replyArray("/x", "", 0); d.broadcastArray("/x", "", 0); d.chainArray("/x", "", 0);
        d.forward(0);
        d.push_index(3); d.pop_index();
    }
    char b[120];
    snprintf(b, sizeof b, " | replies=%u broadcasts=%u lastlen=%zu", cap.replies, cap.broadcasts,
             rtosc_message_length(cap.last, 8192));
    return verdict() + b;
}

static std::string do_disp(const std::vector<std::string> &f)
{
    std::vector<std::unique_ptr<MsgBuf>> ms;
    for(auto &h : split(f[3], ','))
        ms.emplace_back(new MsgBuf(unhex(h)));
    if(ms.empty()) return "BADCASE";
    const bool history = f[0] == "hist";
    const std::string &mode = f[4];
    if(mode.size() != 3) return "BADCASE";
    std::unique_ptr<World>   w;
    std::unique_ptr<GenTree> g;
    const Ports *root = 0;
    Leaf leaf; memset((void*)&leaf, 0, sizeof leaf);
    void *obj = 0;
    if(f[2] == "S2") {
        root = &Cloned::ports; obj = &leaf;
    } else if(f[2] == "S3") {
        root = &Leaf::ports; obj = &leaf;
    } else if(f[2][0] == 'S') {
        w.reset(new World(f[2] == "S1"));
        root = &Root::ports; obj = &w->root;
    } else {
        g.reset(new GenTree(f[2].substr(1)));
        if(!g->ok) return "BADCASE";
        root = g->tables[0].get(); obj = &leaf;
    }
    RtData plain; CaptureData cap;
    RtData &d = mode[2] == 'P' ? plain : (RtData&)cap;
    char loc[1024];
    memset(loc, 0, sizeof loc);
    d.obj = obj;
    if(mode[0] == 'L')      { d.loc = loc; d.loc_size = sizeof loc; }
    else if(mode[0] == 'Z') { d.loc = loc; d.loc_size = 0; }
    else                    { d.loc = 0;   d.loc_size = 0; }
    bool base = mode[1] == '1';
    {
        RtSection rt;
        if(history) {
            // one object, one tree, one location buffer: what an earlier message stored is there for the next
            for(auto &m : ms)
                root->dispatch(m->p, d, base);
        } else {
            root->dispatch(ms[0]->p, d, base);
            // a second dispatch of the same message: nothing is cached lazily
            root->dispatch(ms[0]->p, d, base);
        }
    }
    char b[300];
    size_t ll = rtosc_message_length(cap.last, 8192);
    snprintf(b, sizeof b, " | matches=%d replies=%u broadcasts=%u last=%s", d.matches, cap.replies, cap.broadcasts,
             hex(cap.last, ll > 48 ? 48 : ll).c_str());
    return verdict() + b;
}

static std::string do_link(const std::vector<std::string> &f)
{
    size_t maxmsg = strtoul(f[2].c_str(), 0, 10), nmsg = strtoul(f[3].c_str(), 0, 10);
    auto ops = split(f[4], ',');
    std::vector<std::unique_ptr<MsgBuf>> bufs;
    for(auto &o : ops)
        bufs.emplace_back((o[0] == 'w' || o[0] == 'A') ? new MsgBuf(unhex(o.substr(1))) : 0);
    std::vector<long> res(ops.size(), 0);
    std::unique_ptr<ThreadLink> tl(new ThreadLink(maxmsg, nmsg));
    {
        RtSection rt;
        for(size_t i = 0; i < ops.size(); ++i) {
            const std::string &o = ops[i];
            switch(o[0]) {
                case 'w': tl->raw_write(bufs[i]->p); break;
                case 'A': {
                    const char *mp = bufs[i]->p;
                    rtosc_arg_t args[64];
                    unsigned n = rtosc_narguments(mp), nv = 0;
                    for(unsigned k = 0; k < n && k < 64; ++k) {
                        char ty = rtosc_type(mp, k);
                        if(ty != 'T' && ty != 'F' && ty != 'N' && ty != 'I')
                            args[nv++] = rtosc_argument(mp, k);
                    }
                    tl->writeArray(mp, rtosc_argument_string(mp), args);
                    break; }
                case 'W':
                    switch(o[1]) {
                        case '0': tl->write("/w0", ""); break;
                        case '1': tl->write("/write/one", "i", 42); break;
                        case '2': tl->write("/w2", "sf", "a string argument", 2.5); break;
                        case '3': tl->write("/w3", "b", 8, blob8); break;
                        case '5': tl->write("/w33", MANY33); break;
                        case '6': tl->write("/w32", MANY32); break;
                        case '7': tl->write("/w40", MANY40); break;
                        case '8': tl->write("/w80", MANY80); break;
                        default:  tl->write("/every/tag", "ifsbhtdScrmTFNI", 1, 2.0, "s", 5, blob8, (int64_t)4,
                                            (uint64_t)5, 6.0, "S", 'c', 0x11223344, midi4); break;
                    }
                    break;
                case 'r': res[i] = tl->hasNext() ? (long)rtosc_message_length(tl->read(), maxmsg) : -1; break;
                case 'l': res[i] = tl->hasNextLookahead() ? (long)rtosc_message_length(tl->read_lookahead(), maxmsg) : -1; break;
                case 'h': res[i] = tl->hasNext(); break;
                case 'H': res[i] = tl->hasNextLookahead(); break;
                case 'p': res[i] = tl->peak() == tl->peak(); (void)tl->buffer(); (void)tl->buffer_size(); break;
                default: break;
            }
        }
    }
    std::string o = " | res=";
    for(size_t i = 0; i < ops.size(); ++i) {
        char c = ops[i][0];
        if(c == 'r' || c == 'l' || c == 'h' || c == 'H')
            o += std::string(1, c) + std::to_string(res[i]) + ",";
    }
    return verdict() + o;
}

int main()
{
    std::string line;
    while(std::getline(std::cin, line)) {
        auto f = split(line, ' ');
        std::string out = "BADCASE";
        if(f.size() >= 2 && f[0] == "cbs")                 out = do_cbs();
        else if(f.size() >= 5 && f[0] == "msg")            out = do_msg(f);
        else if(f.size() >= 4 && f[0] == "match")          out = do_match(f);
        else if(f.size() >= 5 && f[0] == "reply")          out = do_reply(f);
        else if(f.size() >= 5 && (f[0] == "disp" || f[0] == "hist")) out = do_disp(f);
        else if(f.size() >= 5 && f[0] == "link")           out = do_link(f);
        puts(out.c_str());
        fflush(stdout);
    }
    return 0;
}
