(* C10 - Pretty-printing is reversible.
   Only the property theorems, each closed by [exact]; the models are in
   Pretty/{Tok,FloatFmt,PrintModel,ScanModel}.v, the proofs in
   Pretty/PrettyProofs.v. *)
From Coq Require Import List ZArith.
From RtoscV Require Import Pretty.Tok Pretty.FloatFmt Pretty.PrintModel Pretty.ScanModel Pretty.PrettyProofs.
Import ListNotations.
Local Open Scope Z_scope.

(* For every option record and every list of good values: the returned count
   is the length of the printed text, the syntax checker accepts the text with
   the number of values, and the scanner, told that number, consumes the whole
   text and writes the original values.  dec2f/dec2d are the oracles for the
   value of a decimal floating point literal (arbitrary functions). *)
Theorem C10_roundtrip_partial : forall (dec2f dec2d : list Z -> Z) o vs text w,
  Forall good_val vs -> print_arg_vals o vs 0 = Some (text, w) ->
  w = len text /\
  count_printed_arg_vals text = Ok (true, Z.of_nat (length vs)) /\
  scan_arg_vals dec2f dec2d text (Z.of_nat (length vs)) = Ok (vs, []).
Proof. exact roundtrip_scalars. Qed.
